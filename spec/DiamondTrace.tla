---------------------------- MODULE DiamondTrace ----------------------------
(* Binding (B) for the diamond protocol (C12): store-call traces recorded   *)
(* from the real CreateSplit / Split.Upload / Diamond.Commit / Cancel       *)
(* running under the gate scheduler (interleavings, crashes, retries) are   *)
(* validated event by event:                                                *)
(*  - every read must return what the specification state says (so the      *)
(*    state below IS the state of the real stores),                          *)
(*  - every marker / file list / bundle write must be create-if-absent and   *)
(*    its outcome must be the store's (NoOverwriteDiscipline),               *)
(*  - operation results must obey the protocol properties of Diamond.tla.    *)
(* AtMostOneBundle is a design-level finding of the protocol (Diamond.tla,   *)
(* MC_Diamond_onebundle.cfg): its violations are REPORTED per scenario       *)
(* instead of stopping the validation.                                       *)
EXTENDS Naturals, Sequences, FiniteSets, TLC, Json, TLCExt

VARIABLES l,
          dDone,     \* "none" | "done" | "canceled"
          dBy,       \* client that wrote diamond-done
          sRunning,  \* set of splits with a running marker
          sDone,     \* function split -> generation recorded in split-done
          lists,     \* set of generations with a file list
          bIdx,      \* bundles (ids) with a file list
          bDesc,     \* bundles with a descriptor
          ready,     \* client -> what its ready check (read of diamond-done) saw: "open" | "terminal"
          startDone, \* committer -> splits done at its ready check
          snapDone,  \* committer -> splits done at its listing of the splits
          muts,      \* client -> number of successful writes since its ready check
          scen       \* label of the current scenario

tvars == <<l, dDone, dBy, sRunning, sDone, lists, bIdx, bDesc, ready, startDone, snapDone, muts, scen>>

TraceLog == ndJsonDeserialize("trace.ndjson")
Ev == TraceLog[l]
IsEv(op) == l <= Len(TraceLog) /\ Ev.op = op /\ l' = l + 1
Upd(f, k, v) == (k :> v) @@ f
Get(f, k, d) == IF k \in DOMAIN f THEN f[k] ELSE d

Fresh ==
  /\ dDone = "none" /\ dBy = "" /\ sRunning = {} /\ sDone = << >> /\ lists = {} /\ bIdx = {} /\ bDesc = {}
  /\ ready = << >> /\ startDone = << >> /\ snapDone = << >> /\ muts = << >>

TInit == l = 1 /\ Fresh /\ scen = "none"

\* ---- a new scenario: report the design-level finding of the previous one
Report == IF Cardinality(bDesc) > 1 THEN PrintT(<<"finding", "two-bundles", scen>>) ELSE TRUE
TReset ==
  /\ IsEv("reset") /\ Report
  /\ dDone' = "none" /\ dBy' = "" /\ sRunning' = {} /\ sDone' = << >> /\ lists' = {} /\ bIdx' = {} /\ bDesc' = {}
  /\ ready' = << >> /\ startDone' = << >> /\ snapDone' = << >> /\ muts' = << >>
  /\ scen' = Ev.scenario

\* ---- reads: the logged result must be the one the state implies
Exists(kind, e) ==
  CASE kind = "ddone" -> dDone # "none"
    [] kind = "drunning" -> TRUE
    [] kind = "sdone" -> e.split \in DOMAIN sDone
    [] kind = "srunning" -> e.split \in sRunning
    [] kind = "list" -> e.gen \in lists
    [] kind = "bidx" -> e.bundle \in bIdx
    [] kind = "bdesc" -> e.bundle \in bDesc
    [] OTHER -> FALSE

TRead ==
  /\ IsEv("read")
  /\ Ev.found = Exists(Ev.kind, Ev)
  \* the read of diamond-done by CreateSplit / Commit / Cancel is their ready check
  /\ IF Ev.kind = "ddone" /\ Ev.readycheck
       THEN /\ ready' = Upd(ready, Ev.client, IF dDone = "none" THEN "open" ELSE "terminal")
            /\ startDone' = Upd(startDone, Ev.client, DOMAIN sDone)
            /\ muts' = Upd(muts, Ev.client, 0)
       ELSE UNCHANGED <<ready, startDone, muts>>
  \* the splits a client has seen done (a committer reads every listed split's marker)
  /\ IF Ev.kind = "sdone" /\ Ev.found
       THEN snapDone' = Upd(snapDone, Ev.client, Get(snapDone, Ev.client, {}) \cup {Ev.split})
       ELSE IF Ev.kind = "ddone" /\ Ev.readycheck THEN snapDone' = Upd(snapDone, Ev.client, {})
       ELSE UNCHANGED snapDone
  /\ UNCHANGED <<dDone, dBy, sRunning, sDone, lists, bIdx, bDesc, scen>>

\* ---- writes: all of them create-if-absent, outcome decided by the store state
TWrite ==
  /\ IsEv("write")
  /\ Ev.excl                                             \* NoOverwriteDiscipline
  /\ Ev.res = (IF Exists(Ev.kind, Ev) THEN "exists" ELSE "ok")
  /\ Ev.kind # "drunning"
  /\ IF Ev.res = "ok"
       THEN /\ muts' = Upd(muts, Ev.client, Get(muts, Ev.client, 0) + 1)
            /\ dDone' = IF Ev.kind = "ddone" THEN Ev.state ELSE dDone
            /\ dBy' = IF Ev.kind = "ddone" THEN Ev.client ELSE dBy
            /\ sRunning' = IF Ev.kind = "srunning" THEN sRunning \cup {Ev.split} ELSE sRunning
            /\ sDone' = IF Ev.kind = "sdone" THEN Upd(sDone, Ev.split, Ev.gen) ELSE sDone
            /\ lists' = IF Ev.kind = "list" THEN lists \cup {Ev.gen} ELSE lists
            /\ bIdx' = IF Ev.kind = "bidx" THEN bIdx \cup {Ev.bundle} ELSE bIdx
            /\ bDesc' = IF Ev.kind = "bdesc" THEN bDesc \cup {Ev.bundle} ELSE bDesc
       ELSE UNCHANGED <<muts, dDone, dBy, sRunning, sDone, lists, bIdx, bDesc>>
  \* a split is recorded done only with its complete file list (written before)
  /\ (Ev.kind = "sdone" /\ Ev.res = "ok") => Ev.gen \in lists
  \* a bundle becomes visible only after its file list
  /\ (Ev.kind = "bdesc" /\ Ev.res = "ok") => Ev.bundle \in bIdx
  /\ UNCHANGED <<ready, startDone, snapDone, scen>>

\* a write that never reached the store (the client crashed before it) changes nothing
TCrash == IsEv("crash") /\ UNCHANGED <<dDone, dBy, sRunning, sDone, lists, bIdx, bDesc, ready, startDone, snapDone, muts, scen>>

\* a write that failed transiently never reached the store either (the client lives on and sees the error)
TFault == IsEv("fault") /\ UNCHANGED <<dDone, dBy, sRunning, sDone, lists, bIdx, bDesc, ready, startDone, snapDone, muts, scen>>

\* ---- end of an operation
TEnd ==
  /\ IsEv("end")
  /\ LET c == Ev.client
         saw == Get(ready, c, "none")
     IN \* refused once terminal: an operation whose ready check saw a terminal diamond fails and writes nothing
        /\ saw = "terminal" => (~Ev.ok /\ Get(muts, c, 0) = 0)
        \* a successful commit: the diamond is done, by this client, and its bundle is visible
        /\ (Ev.role = "commit" /\ Ev.ok) => (saw = "open" /\ dDone = "done" /\ dBy = c /\ Ev.bundle \in bDesc)
        \* a successful cancel: the diamond is canceled by this client
        /\ (Ev.role = "cancel" /\ Ev.ok) => (saw = "open" /\ dDone = "canceled" /\ dBy = c)
        \* a successful split run: its generation is the one recorded
        /\ (Ev.role = "split" /\ Ev.ok) => (saw = "open" /\ Ev.split \in DOMAIN sDone /\ sDone[Ev.split] = Ev.gen)
        \* a split that was already done when the run started is refused
        /\ (Ev.role = "split" /\ Ev.sawdone) => ~Ev.ok
  /\ UNCHANGED <<dDone, dBy, sRunning, sDone, lists, bIdx, bDesc, ready, startDone, snapDone, muts, scen>>

\* ---- content of a committed bundle, decoded by the driver into (split, generation) pairs
TBundle ==
  /\ IsEv("bundle")
  /\ Ev.bundle \in bDesc
  /\ LET runs == {Ev.runs[i] : i \in DOMAIN Ev.runs}
         ss == {r.split : r \in runs}
     IN \* exactly the recorded run of every split it contains, each split once
        /\ \A r \in runs : r.split \in DOMAIN sDone /\ sDone[r.split] = r.gen
        /\ Cardinality(runs) = Cardinality(ss)
        \* every split complete when the commit started, none that was not complete at its listing
        /\ Get(startDone, Ev.client, {}) \subseteq ss
        /\ ss \subseteq Get(snapDone, Ev.client, {})
  /\ UNCHANGED <<dDone, dBy, sRunning, sDone, lists, bIdx, bDesc, ready, startDone, snapDone, muts, scen>>

TNext == TReset \/ TRead \/ TWrite \/ TCrash \/ TFault \/ TEnd \/ TBundle
TSpec == TInit /\ [][TNext]_tvars

HighWater == TLCSet(1, l)
ReportPos == PrintT(<<"trace-position", TLCGet(1), "of", Len(TraceLog)>>)
PostCond == ReportPos /\ TLCGet(1) = Len(TraceLog) + 1
=============================================================================
