------------------------- MODULE Gen_CafsCorrupt -------------------------
(* C03: damage to stored blobs.  For every content length, every blob of   *)
(* the stored object and every kind of damage, the specification computes  *)
(* the damaged blob set and the outcomes each read style may have:          *)
(*   a read that needs a damaged blob must fail,                            *)
(*   a read that needs none must return the exact bytes,                    *)
(*   a ranged read that touches no damaged leaf may do either.              *)
(* One NDJSON line per case; the harness applies the damage to the real     *)
(* blob store and runs the real readers.                                    *)
EXTENDS Cafs, Json, IOUtils

CONSTANTS Lens, OutFile
VARIABLES case, stage

Ident(n) == [i \in 1..n |-> i]
Bogus == 99   \* a cell value that occurs in no content

LeafKinds == {"flip", "truncate", "extend", "empty", "delete", "swap", "foreign"}
RootKinds == {"flipslot", "fliproot", "dropkey", "dropbyte", "empty", "delete", "keepkeys", "foreignroot"}

\* the data a damaged LEAF blob holds afterwards
LeafDamage(c, k, kind, arg) ==
  CASE kind = "flip"     -> [k.data EXCEPT ![arg] = Bogus]
    [] kind = "truncate" -> SubSeq(k.data, 1, arg)
    [] kind = "extend"   -> Append(k.data, Bogus)
    [] kind = "empty"    -> <<>>
    [] kind = "swap"     -> LeafKeys(c)[arg].data
    [] kind = "foreign"  -> [i \in 1..Len(k.data) |-> Bogus]
    [] OTHER             -> <<>>   \* "delete": the blob is gone

LeafArgs(c, k, kind) ==
  CASE kind = "flip"     -> 1..Len(k.data)
    [] kind = "truncate" -> 1..(Len(k.data) - 1)
    [] kind = "swap"     -> {i \in DOMAIN LeafKeys(c) : LeafKeys(c)[i] # k}
    [] OTHER             -> {0}

RootArgs(c, kind) ==
  CASE kind = "flipslot" -> DOMAIN LeafKeys(c)
    [] kind = "dropkey"  -> IF LeafKeys(c) = <<>> THEN {} ELSE {0}
    \* keep only the first arg 64-byte keys of the root blob (arg = 1: looks like an empty object's root)
    [] kind = "keepkeys" -> 1..Len(LeafKeys(c))
    [] OTHER             -> {0}

\* damage is real only if the bytes differ from what was stored
LeafReallyDamaged(c, k, kind, arg) == kind = "delete" \/ LeafDamage(c, k, kind, arg) # k.data

\* index (1-based) of the leaf a cell offset falls in
LeafOf(off) == (off \div L) + 1
\* leaves a ranged read [off, off+len) of content c needs
Needs(c, off, len) ==
  IF off >= Len(c) \/ len = 0 THEN {}
  ELSE {i \in DOMAIN LeafKeys(c) : i >= LeafOf(off) /\ i <= LeafOf(Min(off + len, Len(c)) - 1)}

Offsets(c) == {0, 1, L - 1, L, L + 1, 2 * L, Len(c) - 1, Len(c)} \cap 0..Len(c)
\* (trailing: the damage only appends bytes after the stored ones - a read that returns exactly the stored
\*  bytes does not return corrupted content; returning the appended bytes would)
ReadAts(c, rootDamaged, damagedLeaves, trailing) ==
  { [off |-> o, len |-> n,
     allowed |-> IF rootDamaged THEN {"error"}
                 ELSE IF Needs(c, o, n) \cap damagedLeaves # {} THEN (IF trailing THEN {"exact", "error"} ELSE {"error"})
                 ELSE IF damagedLeaves # {} THEN {"exact", "error"}
                 ELSE {"exact"}] : o \in Offsets(c), n \in {1, L, 2 * L} }

Case(c, target, kind, arg) ==
  LET isRoot == target.depth = 1
      idx == IF isRoot THEN 0 ELSE CHOOSE i \in DOMAIN LeafKeys(c) : LeafKeys(c)[i] = target
      real == IF isRoot THEN TRUE ELSE LeafReallyDamaged(c, target, kind, arg)
      dl == IF isRoot \/ ~real THEN {} ELSE {idx}
      trailing == ~isRoot /\ kind = "extend"
  IN [content |-> c, target |-> target, isroot |-> isRoot, leaf |-> idx, kind |-> kind, arg |-> arg,
      damaged |-> real,
      \* reading the whole object needs every blob
      whole |-> IF real THEN (IF trailing THEN {"exact", "error"} ELSE {"error"}) ELSE {"exact"},
      readats |-> ReadAts(c, isRoot, dl, trailing)]

\* the writer variables of Cafs are not used here
Idle == /\ content = <<>> /\ cc = 1 /\ delivered = 0 /\ pending = 0 /\ buf = 0 /\ started = 0
        /\ inflight = {} /\ flushed = <<>> /\ blobs = << >> /\ phase = "done" /\ res = [written |-> 0]
CInit == case = [none |-> TRUE] /\ stage = "pick" /\ Idle

Pick ==
  /\ stage = "pick"
  /\ \E n \in Lens :
       LET c == Ident(n) IN
       \/ \E kind \in RootKinds : \E arg \in RootArgs(c, kind) :
            case' = Case(c, RootKey(c), kind, arg)
       \/ \E i \in DOMAIN LeafKeys(c) : \E kind \in LeafKinds :
            \E arg \in LeafArgs(c, LeafKeys(c)[i], kind) :
              case' = Case(c, LeafKeys(c)[i], kind, arg)
  /\ stage' = "done"
  /\ UNCHANGED wvars

CNext == Pick
CSpec == CInit /\ [][CNext]_<<case, stage, wvars>>

Dump == stage = "done" =>
          Serialize(<<case>>, OutFile,
                    [format |-> "NDJSON", charset |-> "UTF-8",
                     openOptions |-> <<"WRITE", "CREATE", "APPEND">>])

\* sanity of the oracle itself: with damage no whole-object read may succeed,
\* and a ranged read is only ever allowed to succeed with the exact bytes
OracleSane ==
  stage = "done" =>
    /\ (case.damaged /\ case.kind # "extend") => case.whole = {"error"}
    /\ \A r \in case.readats : r.allowed \subseteq {"exact", "error"} /\ r.allowed # {}
=============================================================================
