------------------------- MODULE Gen_ObjectStore -------------------------
(* Behaviour generation for binding (A): random walks (tlc -simulate) over  *)
(* the ObjectStore actions interleaved with observation steps; every step   *)
(* carries the result the specification defines for it.  A finished history *)
(* is written as one NDJSON line.                                           *)
EXTENDS ObjectStore, Json, IOUtils

CONSTANTS MaxLen, OutFile
VARIABLES hist, phase

GKeys == { <<"b">>, <<"a","/","a">>, <<"a","/","b">>, <<"a","/","b","b">>,
           <<"a","b","/","a">>, <<"a","-","b","/","a">>,
           <<"a","/","a","b","/","a">>, <<"a","/","a","b","/","b">> }
GPrefixes == { <<>>, <<"a">>, <<"a","/">>, <<"a","/","b">>, <<"a","b">>, <<"a","-">>,
               <<"a","/","a">>, <<"a","/","a","b","/">>, <<"a","/","a","b">>, <<"b">>, <<"c">> }

gvars == <<store, hist, phase>>

GInit == Init /\ hist = <<>> /\ phase = "run"

Log(r) == hist' = Append(hist, r)

GPut(k, v, e) ==
  /\ Put(k, v, e)
  /\ Log([op |-> "put", key |-> k, val |-> v, excl |-> e, res |-> PutRes(store, k, e)])
GDelete(k) ==
  /\ Delete(k)
  /\ Log([op |-> "del", key |-> k, found |-> k \in DOMAIN store])
GGet(k) ==
  /\ UNCHANGED store
  /\ Log([op |-> "get", key |-> k, found |-> GetRes(store, k).found, val |-> GetRes(store, k).val])
GHas(k) ==
  /\ UNCHANGED store
  /\ Log([op |-> "has", key |-> k, found |-> k \in DOMAIN store])
GScan(p, d, n) ==
  /\ UNCHANGED store
  /\ Log([op |-> "scan", prefix |-> p, delim |-> d, count |-> n, items |-> ListOp(store, p, d)])
GPage1(p, d, n) ==
  /\ UNCHANGED store
  /\ Log([op |-> "page1", prefix |-> p, delim |-> d, count |-> n,
          items |-> PageOp(ListOp(store, p, d), <<>>, n).page])

\* RandomElement keeps the branching of observation steps low so that random
\* walks mix mutations and observations evenly.
R(S) == RandomElement(S)
GStep == \/ \E k \in Keys, e \in BOOLEAN : GPut(k, R(Vals), e)
         \/ \E k \in Keys : GDelete(k)
         \/ \E i \in 1..2 : GGet(R(Keys))
         \/ GHas(R(Keys))
         \/ \E i \in 1..10 : GScan(R(LPrefixes), R(BOOLEAN), R(Counts))
         \/ \E i \in 1..4 : GPage1(R(LPrefixes), R(BOOLEAN), R(Counts))

GNext == /\ phase = "run"
         /\ IF Len(hist) < MaxLen
              THEN GStep /\ UNCHANGED phase
              ELSE phase' = "done" /\ UNCHANGED <<store, hist>>

GSpec == GInit /\ [][GNext]_gvars

Dump == phase = "done" =>
          Serialize(<<hist>>, OutFile,
                    [format |-> "NDJSON", charset |-> "UTF-8",
                     openOptions |-> <<"WRITE", "CREATE", "APPEND">>])
=============================================================================
