------------------------- MODULE Gen_ObjectStore -------------------------
(* Behaviour generation for binding (A): random walks (tlc -simulate) over  *)
(* the ObjectStore actions interleaved with observation steps; every step   *)
(* carries the result the specification defines for it.  A finished history *)
(* is written as one NDJSON line.                                           *)
EXTENDS ObjectStore, Json, IOUtils

CONSTANTS MaxLen, OutFile
VARIABLES hist, phase

GKeys == { <<"b">>, <<"a","/","a">>, <<"a","/","b">>, <<"a","/","b","b">>,
           <<"a","b","/","a">>, <<"a","-","b","/","a">>,
           <<"a","/","a","b","/","a">>, <<"a","/","a","b","/","b">> }
GPrefixes == { <<>>, <<"a">>, <<"a","/">>, <<"a","/","b">>, <<"a","b">>, <<"a","-">>,
               <<"a","/","a">>, <<"a","/","a","b","/">>, <<"a","/","a","b">>, <<"b">>, <<"c">> }

gvars == <<store, hist, phase>>

GInit == Init /\ hist = <<>> /\ phase = "run"

Log(r) == hist' = Append(hist, r)

GPut(k, v, e) ==
  /\ Put(k, v, e)
  /\ Log([op |-> "put", key |-> k, val |-> v, excl |-> e, res |-> PutRes(store, k, e)])
GDelete(k) ==
  /\ Delete(k)
  /\ Log([op |-> "del", key |-> k, found |-> k \in DOMAIN store])
GGet(k) ==
  /\ UNCHANGED store
  /\ Log([op |-> "get", key |-> k, found |-> GetRes(store, k).found, val |-> GetRes(store, k).val])
GHas(k) ==
  /\ UNCHANGED store
  /\ Log([op |-> "has", key |-> k, found |-> k \in DOMAIN store])
GScan(p, d, n) ==
  /\ UNCHANGED store
  /\ Log([op |-> "scan", prefix |-> p, delim |-> d, count |-> n, items |-> ListOp(store, p, d)])
GPage1(p, d, n) ==
  /\ UNCHANGED store
  /\ Log([op |-> "page1", prefix |-> p, delim |-> d, count |-> n,
          items |-> PageOp(ListOp(store, p, d), <<>>, n).page])

\* a paginated listing with a deletion between its first and its second page: the rest of the listing is the
\* rest of the NEW store from the token on (the token names a position, not an object that must still exist)
GScanDel(p, d, n, k) ==
  LET pg == PageOp(ListOp(store, p, d), <<>>, n)
      after == Without(store, k)
  IN /\ pg.next # <<>> /\ k \in DOMAIN store
     /\ Delete(k)
     /\ Log([op |-> "scandel", prefix |-> p, delim |-> d, count |-> n, items |-> pg.page, next |-> pg.next, key |-> k,
             rest |-> ScanFrom(ListOp(after, p, d), pg.next, n)])

\* a delete of a name that holds no object but is a "directory" above stored keys: nothing is stored there, so
\* nothing changes (whatever the call answers); the complete listing afterwards is the listing before
GDirKeys == { <<"a">>, <<"a", "/", "a", "b">>, <<"a", "b">>, <<"a", "-", "b">> }
GDeleteDir(k) ==
  /\ k \notin DOMAIN store
  /\ UNCHANGED store
  /\ Log([op |-> "deldir", key |-> k, items |-> ListOp(store, <<>>, FALSE)])

\* RandomElement keeps the branching of observation steps low so that random
\* walks mix mutations and observations evenly.
R(S) == RandomElement(S)
GStep == \/ \E k \in Keys, e \in BOOLEAN : GPut(k, R(Vals), e)
         \/ \E k \in Keys : GDelete(k)
         \/ \E k \in {R(GDirKeys)} : GDeleteDir(k)
         \/ \E i \in 1..2 : GGet(R(Keys))
         \/ GHas(R(Keys))
         \/ \E i \in 1..10 : GScan(R(LPrefixes), R(BOOLEAN), R(Counts))
         \/ \E i \in 1..4 : GPage1(R(LPrefixes), R(BOOLEAN), R(Counts))
         \* the key the token names (no delimiter: the token is a key), or any other key, goes between the pages
         \/ \E i \in 1..3 : \E p \in {R(LPrefixes)}, n \in {R(Counts)} :
               LET nx == PageOp(ListOp(store, p, FALSE), <<>>, n).next
               IN nx # <<>> /\ GScanDel(p, FALSE, n, nx)
         \/ \E p \in {R(LPrefixes)}, d \in {R(BOOLEAN)}, n \in {R(Counts)} :
               store # << >> /\ \E k \in {R(DOMAIN store)} : GScanDel(p, d, n, k)

GNext == /\ phase = "run"
         /\ IF Len(hist) < MaxLen
              THEN GStep /\ UNCHANGED phase
              ELSE phase' = "done" /\ UNCHANGED <<store, hist>>

GSpec == GInit /\ [][GNext]_gvars

Dump == phase = "done" =>
          Serialize(<<hist>>, OutFile,
                    [format |-> "NDJSON", charset |-> "UTF-8",
                     openOptions |-> <<"WRITE", "CREATE", "APPEND">>])
=============================================================================
