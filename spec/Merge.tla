------------------------------- MODULE Merge -------------------------------
(* Diamond commit: merging the file lists of completed splits.               *)
(* A version is what one split uploaded for one path: [split, path, hash, ts] *)
(* with pairwise distinct upload times.  The committed bundle holds, per      *)
(* path, the version with the latest upload time; in conflict / checkpoint    *)
(* mode every other version whose content differs from the winner's is kept   *)
(* under .conflicts/<its split>/<path> (or .checkpoints/...).                 *)
EXTENDS Naturals, Sequences, FiniteSets, TLC

CONSTANTS Splits, MPaths, Hashes

Modes == {"ignore", "conflicts", "checkpoints", "forbid"}

At(V, p) == {v \in V : v.path = p}
PathsOf(V) == {v.path : v \in V}
Winner(V, p) == CHOOSE v \in At(V, p) : \A u \in At(V, p) : u.ts <= v.ts

\* ---- the declarative result
Main(V) == {[path |-> p, hash |-> Winner(V, p).hash] : p \in PathsOf(V)}
Losers(V) == {v \in V : v # Winner(V, v.path) /\ v.hash # Winner(V, v.path).hash}
Prefix(mode) == IF mode = "checkpoints" THEN ".checkpoints" ELSE ".conflicts"
Extras(V, mode) ==
  IF mode \in {"conflicts", "checkpoints"}
    THEN {[dir |-> Prefix(mode), split |-> v.split, path |-> v.path, hash |-> v.hash] : v \in Losers(V)}
    ELSE {}
Conflicting(V) == \E v, u \in V : v.path = u.path /\ v.split # u.split /\ v.hash # u.hash
MergeOp(V, mode) ==
  IF mode = "forbid" /\ Conflicting(V) THEN [fails |-> TRUE, main |-> {}, extras |-> {}]
  ELSE [fails |-> FALSE, main |-> Main(V), extras |-> Extras(V, mode)]

\* ---- the algorithm: file lists arrive split by split in any order; every version
\* is recorded per path; the result is resolved once everything has arrived
RECURSIVE Collect(_, _, _)
Collect(V, order, acc) ==
  IF order = <<>> THEN acc
  ELSE Collect(V, Tail(order), acc \cup {v \in V : v.split = Head(order)})
MergeFold(V, mode, order) == MergeOp(Collect(V, order, {}), mode)

\* ---- the incremental fold the code used before the repair (kept as a record of
\* the defect: TLC finds inputs and arrival orders for which it differs from MergeOp)
\* state: idx = function path-key -> [hash, ts, split]; keys are <<"main", p>> or <<dir, split, p>>
AsIsStep(idx, v, mode) ==
  LET k == <<"main", v.path>>
  IN IF k \notin DOMAIN idx THEN (k :> [hash |-> v.hash, ts |-> v.ts, split |-> v.split]) @@ idx
     ELSE LET ex == idx[k]
          IN IF v.hash = ex.hash THEN idx                       \* equal content: skipped, older time kept
             ELSE IF v.ts > ex.ts
               THEN IF mode = "ignore" \/ v.split = ex.split
                      THEN (k :> [hash |-> v.hash, ts |-> v.ts, split |-> v.split]) @@ idx
                      ELSE \* the existing entry is filed under the INCOMING split's name
                           (k :> [hash |-> v.hash, ts |-> v.ts, split |-> v.split]) @@
                           (<<Prefix(mode), v.split, v.path>> :> ex) @@ idx
               ELSE IF v.split = ex.split \/ mode = "ignore" THEN idx
                    ELSE (<<Prefix(mode), v.split, v.path>> :> [hash |-> v.hash, ts |-> v.ts, split |-> v.split]) @@ idx
RECURSIVE AsIsFold(_, _, _)
AsIsFold(vs, idx, mode) ==
  IF vs = <<>> THEN idx ELSE AsIsFold(Tail(vs), AsIsStep(idx, Head(vs), mode), mode)
AsIsResult(idx) ==
  [main |-> {[path |-> k[2], hash |-> idx[k].hash] : k \in {q \in DOMAIN idx : q[1] = "main"}},
   extras |-> {[dir |-> k[1], split |-> k[2], path |-> k[3], hash |-> idx[k].hash] : k \in {q \in DOMAIN idx : q[1] # "main"}}]
=============================================================================
