SPECIFICATION GSpec
CONSTANTS
  L = 3
  MaxN = 7
  Conc = {1, 2}
  Chunks = {0, 1, 2, 3, 4}
  MaxPuts = 1
  EndEarly = TRUE
  Family = "ident"
  OutFile = "cafs_beh.ndjson"
INVARIANTS PutExact LeavesAreContent KeyFunctional FoundIffStoredBefore
PROPERTIES WriteOnce
CONSTRAINT Dump
CHECK_DEADLOCK FALSE
