------------------------------ MODULE Context ------------------------------
(* Contexts (pkg/context, pkg/core/context_list.go): a context names the five *)
(* stores of a datamon deployment and is kept as one descriptor object       *)
(* "contexts/<name>/context.yaml" in the configuration store.                *)
(*   CreateContext  validates, then writes create-only;                      *)
(*   GetContext     reads, parses and validates the descriptor;              *)
(*   ListContexts   pages through the keys (16 a page) and returns the names *)
(*                  sorted.                                                  *)
(* Extension beyond the listed properties (DESIGN.md §10, X01).              *)
EXTENDS Naturals, Sequences, FiniteSets, TLC

CONSTANTS Names,      \* context names (strings)
          Fields,     \* values of a store field; "" = missing
          Versions    \* descriptor versions; supported: <= 1

VARIABLE ctxs         \* function: name -> descriptor record

Desc == [wal : Fields, readlog : Fields, blob : Fields, meta : Fields, vmeta : Fields, version : Versions]

ValidOp(n, d) == /\ n # "" /\ d.wal # "" /\ d.readlog # "" /\ d.blob # "" /\ d.meta # "" /\ d.vmeta # ""
                 /\ d.version <= 1

Init == ctxs = << >>

CreateRes(c, n, d) == IF ~ValidOp(n, d) THEN "invalid" ELSE IF n \in DOMAIN c THEN "exists" ELSE "ok"
Create(n, d) ==
  ctxs' = IF CreateRes(ctxs, n, d) = "ok" THEN (n :> d) @@ ctxs ELSE ctxs

GetFound(c, n) == n \in DOMAIN c

\* the listing: every created name once, in increasing order (order given by the harness' string order;
\* here: as a set, the order is part of the replay's comparison)
ListOp(c) == DOMAIN c

Next == \E n \in Names, d \in Desc : Create(n, d)
Spec == Init /\ [][Next]_ctxs

\* ---- properties
TypeOK == \A n \in DOMAIN ctxs : n \in Names /\ ctxs[n] \in Desc
OnlyValidStored == \A n \in DOMAIN ctxs : ValidOp(n, ctxs[n])
\* a context, once created, is never altered or lost by later creations (create-only)
CreateOnce == [][\A n \in DOMAIN ctxs : n \in DOMAIN ctxs' /\ ctxs'[n] = ctxs[n]]_ctxs
\* a creation changes at most its own name
CreateLocal == [][\A n \in DOMAIN ctxs' \ DOMAIN ctxs : Cardinality(DOMAIN ctxs' \ DOMAIN ctxs) = 1 /\ ValidOp(n, ctxs'[n])]_ctxs
=============================================================================
