SPECIFICATION ListSpec
CONSTANTS
  Clients = {a1}
  Lookback = 1
  TPS = 2
  MaxPerList = 1000
  NoPay <- MCNoPay
  MaxAdds = 0
  MaxClock = 7
  TickSteps = {1}
  Nonces = {0, 1, 2}
  Maxes = {1, 2, 3, 4, 1000}
  MaxAddSecs = 1
  WithReader = FALSE
INVARIANTS TokensUnique ListNoDupOrdered ListIncludesWindow EntryUnchanged ListReachesBack ListPrefixOfWindow
PROPERTIES AppendOnly
CHECK_DEADLOCK FALSE
