SPECIFICATION GSpec
CONSTANTS
  Clients <- GClients
  Lookback = 1200
  TPS = 1000
  MaxPerList = 1000
  NoPay = 0
  MaxLen = 24
  MaxAddsTotal = 6
  OutFile = "beh.ndjson"
  PayClasses = {1, 2, 3, 4, 5, 6, 7, 8}
  GNonces = {0, 1, 3}
  TickSteps = {300, 400, 700, 1000, 1199000, 1200000, 1201000}
  GMaxes = {1, 2, 3, 1000}
CONSTRAINT Dump
CHECK_DEADLOCK FALSE
