SPECIFICATION GSpec
CONSTANTS
  Mode = "single"
  PerLine = 10
  OutFile = "cases.ndjson"
CONSTRAINT Dump
CHECK_DEADLOCK FALSE
