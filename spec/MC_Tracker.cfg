SPECIFICATION Spec
CONSTANTS
  MaxOff = 4
  MaxLen = 3
INVARIANTS TypeOK BoundSound MarkersFaithful WritesCommute WriteIdempotent
PROPERTIES WriteExact
