SPECIFICATION TSpec
CONSTANTS
  Clients = {}
  Lookback = 1200
  TPS = 1000
  MaxPerList = 1000
  NoPay = 0
CONSTRAINT HighWater
POSTCONDITION PostCond
CHECK_DEADLOCK FALSE
