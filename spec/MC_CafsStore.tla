--------------------------- MODULE MC_CafsStore ---------------------------
(* Bounded model of the content store's maintenance operations: a pool of   *)
(* contents chosen so that objects share leaves (L = 3): two objects that   *)
(* differ in their partial leaf only, an object that is exactly their       *)
(* common full leaf, one that repeats it at leaf index 2, the empty object  *)
(* and an unrelated one.  Every interleaving of put / delete / clear /      *)
(* blob loss / read (both styles), per instance mode.                       *)
EXTENDS CafsStore

MCPool == << <<1, 2, 3, 4>>, <<1, 2, 3, 5>>, <<1, 2, 3>>, <<1, 2, 3, 1, 2, 3>>, <<>>, <<7>> >>
\* shared-instance runs carry two cache sets more: a smaller pool keeps them exhaustive
MCPoolSmall == << <<1, 2, 3, 4>>, <<1, 2, 3>>, <<>>, <<7>> >>
\* quick tier: the first five of MCPool
MCPoolQuick == << <<1, 2, 3, 4>>, <<1, 2, 3, 5>>, <<1, 2, 3>>, <<1, 2, 3, 1, 2, 3>>, <<>> >>
\* thorough tier
MCPoolMid == << <<1, 2, 3, 4>>, <<1, 2, 3, 5>>, <<1, 2, 3>>, <<>>, <<7>> >>
MCPoolBig == << <<1, 2, 3, 4>>, <<1, 2, 3, 5>>, <<1, 2, 3>>, <<1, 2, 3, 1, 2, 3>>, <<>>, <<7>>,
                <<1, 2, 3, 1, 2, 3, 4>>, <<9, 9, 9, 1, 2, 3>> >>
=============================================================================
