------------------------------ MODULE Gen_Paths ------------------------------
(* C20, binding (A) with TLC as the oracle: every state is one test case that  *)
(* carries its inputs AND what the specification (Paths.tla) defines for them: *)
(* the path to be written, the fields to be parsed back, the generated-path    *)
(* flag, the validity of names.  The harness instantiates the class tokens,    *)
(* calls the real builders / parsers / validators and compares.                *)
(*                                                                             *)
(* Families: "build" (objects over valid and hostile field values), "parse"    *)
(* (mutations of written paths), "gen" (reserved-location candidates), "name"  *)
(* (every string up to AnyLen over one representative per character class),    *)
(* "desc" (descriptor types x field x value class, the other fields rotating   *)
(* with Seed).  One NDJSON line per case.                                      *)
EXTENDS Paths, Json, IOUtils

CONSTANTS NameLen,      \* valid repo/label names: all strings up to this length over the class representatives
          AnyLen,       \* "name" family: all strings up to this length over every class
          Rounds,       \* "desc" family: rotations of the non-focused fields
          Seed,
          Fams,         \* the families to generate (several TLC processes share the work)
          OnlyKinds,    \* "build" family: restrict to these kinds ({} = all) ...
          ExceptKinds,  \* ... and leave these out
          Wide,         \* TRUE: full product of the valid field values; FALSE: every pair of fields around two base objects
          OutFile
VARIABLES c

Strings(alpha, n) == UNION { [1..k -> alpha] : k \in 1..n }

RepoAlpha == {"a", "Z", "7", "-", "<L>", "<N>", "<H>"}
LabelAlpha == RepoAlpha \cup {"_", "<C>"}
AnyAlpha == LabelAlpha \cup {"/", ".", " ", ":", "#", "!", "<M>", "<S>", "<Z>", "<O>", "<D>", "<BAD>", "<LF>", "<NUL>"}

MinKsuid == S("000000000000000000000000000")
SomeKsuid == S("1Jbb3SicFGoKB7JQJZdCCwdBQwE")
Ids == {<<"<K1>">>, <<"<K2>">>, MinKsuid, MaxKsuid}
Indexes == {S("0"), S("1"), S("999"), S("1000"), S("9223372036854775807"), S("9223372036854775808"),
            S("18446744073709551615")}
Decoys == {S("splits"), S("r1"), S("r10"), S("r1-x"), S("bundle-files-0"), <<"<L>", "<N>", "-", "<L2>">>}

\* ---- valid values
VDom(x) ==
  CASE x = "repo" -> Strings(RepoAlpha, NameLen) \cup Decoys
    [] x = "label" -> Strings(LabelAlpha, NameLen) \cup {S("v1"), S("latest"), S("a_b"), S("split-done"), <<"<C>", "<L>">>}
    [] x \in {"bundle", "diamond"} -> Ids
    [] x = "generation" -> {<<"<K2>">>, MaxKsuid}
    [] x = "split" -> {<<"<K1>">>, <<"<K3>">>, S("s1"), S("splits"), S("split-done"), S("a_b"), SomeKsuid}
    [] x = "index" -> Indexes
    [] x = "context" -> {S("dev"), S("prod-1"), <<"<L>">>, S("contexts")}
    [] x = "path" -> {S("a"), S("d/a"), S("sp ace/x"), <<"<L>">>, S(".datamon"), S("a.yaml"), S("d/.conflicts/x")}
\* ---- hostile values (not in the domain of the property: observations, and "must not crash the validators")
HostileNames == {<<>>, S("a/b"), S("a.b"), S(".."), S("."), S("a b"), S(" a"), <<"a", "<LF>">>, <<"<LF>", "a">>,
                 S("x/repo.yaml"), S("x/label.yaml"), <<"<BAD>">>, <<"<S>">>, <<"a", "<M>">>, S("a:b"), S("#a"),
                 <<"<L>", "!">>, S("a/../b"), S("a//b"), S("/a"), S("a/")}
HostileIds == {<<>>, S("1Jbb3SicFGoKB7JQJZdCCwdBQw"), S("1Jbb3SicFGoKB7JQJZdCCwdBQwE0"),
               S("aWgEPTl1tmebfsQzFP4bxwgy80W"), S("zzzzzzzzzzzzzzzzzzzzzzzzzzz"), S("1Jbb3SicFGoKB7JQJZdCCwdBQw-"),
               S("a/b"), S("x-bundle-files-1"), S("x.yaml"), <<"a", "<LF>", "b">>, S(".."),
               <<"<K1>", "/", "<K2>">>}
HDom(x) ==
  CASE x \in {"repo", "label", "context"} -> HostileNames
    [] x \in {"bundle", "diamond", "generation"} -> HostileIds
    [] x = "split" -> HostileNames \cup {S("split-done.yaml"), S("a/split-done.yaml")}
    [] x = "index" -> {}          \* the builders take a uint64: every value is valid
    [] x = "path" -> {<<>>, S(".."), S("../x"), S("/x"), S("a//b"), S("./x"), S("a/./b"), S("a/../../x"), S("x/")}

DomK(k, x, D(_)) == IF x \in FieldsOf(k) THEN D(x) ELSE {<<>>}
ValidCases(k) ==
  [repo : DomK(k, "repo", VDom), label : DomK(k, "label", VDom), bundle : DomK(k, "bundle", VDom),
   diamond : DomK(k, "diamond", VDom), split : DomK(k, "split", VDom), generation : DomK(k, "generation", VDom),
   index : DomK(k, "index", VDom), context : DomK(k, "context", VDom), path : DomK(k, "path", VDom)]
\* one fixed valid object per kind, used as the base of hostile variations and of path mutations
Base(k) ==
  Project(k, [repo |-> S("r1"), label |-> S("v1"), bundle |-> <<"<K1>">>, diamond |-> <<"<K2>">>,
              split |-> S("s1"), generation |-> <<"<K3>">>, index |-> S("1000"), context |-> S("dev"),
              path |-> S("d/a")])
Base2(k) ==
  Project(k, [repo |-> <<"<L>", "-", "7">>, label |-> <<"<C>", "a">>, bundle |-> SomeKsuid, diamond |-> MaxKsuid,
              split |-> <<"<K1>">>, generation |-> MinKsuid, index |-> S("18446744073709551615"),
              context |-> <<"<L>">>, path |-> S("a")])
PairCases(k, B) ==
  {B} \cup UNION { { [B EXCEPT ![xy[1]] = v, ![xy[2]] = w] : v \in VDom(xy[1]), w \in VDom(xy[2]) } :
                   xy \in FieldsOf(k) \X FieldsOf(k) }
GenValidCases(k) == IF Wide THEN ValidCases(k) \cup {Base2(k)} ELSE PairCases(k, Base(k)) \cup PairCases(k, Base2(k))

ObjectKinds == ArchiveKinds \cup ContextKinds \cup ConsumableKinds \cup ReservedKinds \cup PurgeKinds
AllKinds == ObjectKinds \cup PrefixKinds

\* ---- what the specification says about a path of a namespace
Expect(ns, p) ==
  LET r == IF ns \in {"metadata", "config"} THEN ParseArchive(p)
           ELSE IF ns = "consumable" THEN ParseConsumable(p)
           ELSE IF ns = "purge" THEN ParseReverseIndex(p)
           ELSE NotOk
  IN  [ok |-> r.ok, kind |-> r.kind, f |-> r.f,
       comp |-> IF r.ok THEN Components(r.kind, r.f) ELSE Components("", NoFields)]

GenFlag(k, p) ==      \* only paths of a consumable store are subject to generated-path detection
  IF Namespace(k) = "consumable" THEN (IF GeneratedPath(p) THEN "yes" ELSE "no") ELSE "na"

BuildTags(k, g) ==
  (IF "index" \in FieldsOf(k) /\ AboveMaxInt64(g.index) THEN <<"index-above-maxint64">> ELSE <<>>)
  \o (IF \E x \in FieldsOf(k) \cap {"repo", "label", "context", "split"} : AmbiguousName("label", g[x])
        THEN <<"unicode-hyphen">> ELSE <<>>)

BuildCase(k, g, hostileField) ==
  LET p == Build(k, g)
  IN  [fam |-> "build", kind |-> k, ns |-> Namespace(k), f |-> g, valid |-> ValidCase(k, g),
       hostile |-> hostileField, path |-> p, expect |-> Expect(Namespace(k), p),
       clean |-> CleanPath(p), gen |-> GenFlag(k, p), tags |-> BuildTags(k, g)]

\* ---- mutations of written paths
Segs(p) == SplitAt(p, "/")
ReplaceSeg(p, j, s) == Join([Segs(p) EXCEPT ![j] = s])
DropLast(p) == Join(SubSeq(Segs(p), 1, Len(Segs(p)) - 1))
SegFillers == {<<>>, S("x"), S("splits"), <<"<K1>">>, S("bundle-files-0.yaml"), S("split-done.yaml"),
               S("diamond-done.yaml"), S("bundle.yaml"), S(".."), S("1Jbb3SicFGoKB7JQJZdCCwdBQw"),
               S("aWgEPTl1tmebfsQzFP4bxwgy80W")}
HostileIndexes == {<<>>, S("01"), S("-1"), S("+1"), S("18446744073709551616"), S("99999999999999999999999"),
                   S("1_0"), S("0x10"), <<"<N>">>, S("1 "), S(" 1"), <<"1", "<LF>">>, S("1e3"), S("00")}
ReplaceIndex(k, g, i) == Build(k, [g EXCEPT !.index = i])   \* Build does not look at the digits
Mutants(k, g) ==
  LET p == Build(k, g)
      n == Len(Segs(p))
  IN  { <<"append-segment", p \o S("/x")>>, <<"append-slash", p \o S("/")>>,
        <<"drop-last", DropLast(p)>>, <<"drop-last-keep-slash", DropLast(p) \o S("/")>>,
        <<"leading-slash", S("/") \o p>>, <<"trailing-newline", p \o <<"<LF>">> >>,
        <<"trailing-space", p \o S(" ")>>,
        <<"yml", SubSeq(p, 1, Len(p) - 3) \o S("ml")>>, <<"upper-ext", SubSeq(p, 1, Len(p) - 4) \o S("YAML")>>,
        <<"identity", p>> }
      \cup { <<"double-slash", Join([Segs(p) EXCEPT ![j] = @ \o <<"/">>])>> : j \in 1..(n - 1) }
      \cup { <<"replace-segment", ReplaceSeg(p, j, s)>> : j \in 1..n, s \in SegFillers }
      \cup (IF "index" \in FieldsOf(k)
              THEN { <<"hostile-index", ReplaceIndex(k, g, i)>> : i \in HostileIndexes } ELSE {})
      \cup (IF k = "cBundle"
              THEN { <<"id-with-marker", Build(k, [g EXCEPT !.bundle = i])>> :
                       i \in {S("x-bundle-files-1"), S("x-bundle-files-"), S("x-bundle-files-1-bundle-files-2"),
                              S("-bundle-files-7"), S("x-bundle-files-a")} }
              ELSE {})
ParseCase(k, m) ==
  LET e == Expect(Namespace(k), m[2])
  IN  [fam |-> "parse", kind |-> k, ns |-> Namespace(k), mut |-> m[1], path |-> m[2], expect |-> e,
       tags |-> IF e.ok /\ AboveMaxInt64(e.f.index) THEN <<"index-above-maxint64">> ELSE <<>>]
ParsableKinds == ArchiveKinds \cup ContextKinds \cup ConsumableKinds \cup PurgeKinds

\* ---- reserved locations
GenPrefixes == {<<"none", <<>> >>, <<"slash", S("/")>>, <<"dotslash", S("./")>>, <<"dot", S(".")>>,
                <<"slashslash", S("//")>>, <<"dotslashslash", S(".//")>>, <<"dotdotslash", S("../")>>,
                <<"subdir", S("a/")>>, <<"dotslashsubdir", S("./a/")>>, <<"space", S(" ")>>,
                <<"dotslashdotslash", S("././")>>, <<"slashdotslash", S("/./")>>}
GenNames == {<<"reserved-datamon", S(".datamon")>>, <<"reserved-conflicts", S(".conflicts")>>,
             <<"reserved-checkpoints", S(".checkpoints")>>,
             <<"decoy-suffix", S(".datamonrc")>>, <<"decoy-suffix", S(".conflictsx")>>,
             <<"decoy-suffix", S(".checkpoints2")>>, <<"decoy-case", S(".Datamon")>>, <<"decoy-nodot", S("datamon")>>,
             <<"decoy-nodot", S("conflicts")>>, <<"decoy-ext", S(".datamon.yaml")>>,
             <<"decoy-short", S(".checkpoint")>>, <<"decoy-short", S(".conflict")>>}
GenSuffixes == {<<"none", <<>> >>, <<"slash", S("/")>>, <<"child", S("/x")>>, <<"deep", S("/x/y.yaml")>>,
                <<"newline", <<"<LF>">> >>, <<"child-newline", <<"/", "<LF>", "x">> >>,
                <<"child-unicode", <<"/", "<L>">> >>, <<"dotdot", S("/..")>>}
GenCase(pre, nm, suf) ==
  LET p == pre[2] \o nm[2] \o suf[2]
  IN  [fam |-> "gen", pre |-> pre[1], name |-> nm[1], suf |-> suf[1], path |-> p,
       clean |-> CleanPath(p), gen |-> GeneratedPath(p)]

\* ---- names
Tri(kind, n) == IF AmbiguousName(kind, n) THEN "either" ELSE IF ValidName(kind, n) THEN "yes" ELSE "no"
BadClass(kind, n) ==
  LET b == FirstBad(kind, n) IN IF n = <<>> THEN "empty" ELSE IF b = 0 THEN "none" ELSE n[b]
NameCase(n, desc) ==
  [fam |-> "name", name |-> n, desc |-> desc,
   repo |-> IF desc = <<>> THEN "no" ELSE Tri("repo", n),
   label |-> IF desc = <<>> THEN "no" ELSE Tri("label", n),       \* desc doubles as the label's bundle id
   repoBad |-> BadClass("repo", n), labelBad |-> BadClass("label", n),
   repoBadAfterMultibyte |-> BadAfterMultibyte("repo", n),
   labelBadAfterMultibyte |-> BadAfterMultibyte("label", n)]
CuratedNames == HostileNames \cup Decoys
                \cup {<<"<L>", "<L2>", "!", "a">>, <<"<N>", "<N>", "/", "a">>, <<"a", "b", "!", "<L>">>,
                      <<"<C>", "<C>", "<S>">>, <<"<H>", " ">>, <<"a", "<D>", "b">>, <<"<D>">>, <<"<L>", "<D>">>, <<"<M>">>, <<"a", "<L>", "<Z>", "b">>, <<"<K1>">>}

\* ---- descriptors: type x focused field x value class, the other fields rotate
StrClasses == <<"empty", "plain", "unicode", "colon", "hash", "leadspace", "trailspace", "multiline", "quotes",
                "yamlkeyword", "numeric", "timestamplike", "tab", "crlf", "leadnewline", "trailnewline", "long",
                "invalidutf8", "nul", "indicator", "flow", "docmarker", "random">>
TimeClasses == <<"zero", "utcsec", "utcnano", "zone", "far", "preepoch", "now">>
UintClasses == <<"zero", "one", "thousand", "max32", "max64">>
BoolClasses == <<"false", "true">>
ListClasses == <<"nil", "emptylist", "one", "many">>
EnumClasses == <<"valid0", "valid1", "empty", "unknown">>
ClassesOf(k) ==
  CASE k = "str" -> StrClasses [] k = "time" -> TimeClasses [] k \in {"u32", "u64"} -> UintClasses
    [] k = "bool" -> BoolClasses [] k \in {"strlist", "contributors", "splits", "entries"} -> ListClasses
    [] k = "enum" -> EnumClasses
Fd(n, k) == [n |-> n, k |-> k]
DescTypes == <<
  [t |-> "repo", fields |-> <<Fd("name", "str"), Fd("description", "str"), Fd("timestamp", "time"),
                             Fd("contributor.name", "str"), Fd("contributor.email", "str")>>],
  [t |-> "bundle", fields |-> <<Fd("leafSize", "u32"), Fd("id", "str"), Fd("message", "str"), Fd("parents", "strlist"),
                               Fd("timestamp", "time"), Fd("contributors", "contributors"), Fd("count", "u64"),
                               Fd("version", "u64"), Fd("deduplication", "str"), Fd("runstage", "str")>>],
  [t |-> "filelist", fields |-> <<Fd("entries", "entries"), Fd("hash", "str"), Fd("name", "str"), Fd("mode", "u32"),
                                 Fd("size", "u64"), Fd("timestamp", "time")>>],
  [t |-> "label", fields |-> <<Fd("name", "str"), Fd("id", "str"), Fd("timestamp", "time"),
                              Fd("contributors", "contributors")>>],
  [t |-> "diamond", fields |-> <<Fd("diamondID", "str"), Fd("startTime", "time"), Fd("endTime", "time"),
                                Fd("state", "enum"), Fd("mode", "enum"), Fd("hasConflicts", "bool"),
                                Fd("hasCheckpoints", "bool"), Fd("tag", "str"), Fd("bundleID", "str"),
                                Fd("splits", "splits")>>],
  [t |-> "split", fields |-> <<Fd("splitID", "str"), Fd("startTime", "time"), Fd("endTime", "time"),
                              Fd("state", "enum"), Fd("contributors", "contributors"), Fd("generationID", "str"),
                              Fd("count", "u64"), Fd("tag", "str")>>],
  [t |-> "context", fields |-> <<Fd("name", "str"), Fd("wal", "str"), Fd("readlog", "str"), Fd("blob", "str"),
                                Fd("metadata", "str"), Fd("vmetadata", "str"), Fd("version", "u64")>>],
  [t |-> "walentry", fields |-> <<Fd("token", "str"), Fd("payload", "str")>>] >>
Pick(seq, salt) == seq[((Seed * 31 + salt) % Len(seq)) + 1]
DescCase(ti, i, ci, round) ==
  LET T == DescTypes[ti]
      F == T.fields
  IN  [fam |-> "desc", type |-> T.t, round |-> round, focus |-> F[i].n,
       fields |-> [j \in 1..Len(F) |->
                     [n |-> F[j].n, k |-> F[j].k,
                      c |-> IF j = i THEN ClassesOf(F[i].k)[ci]
                            ELSE Pick(ClassesOf(F[j].k), ti * 1009 + i * 7 + j * 13 + ci * 17 + round * 101)]]]

\* ---------------------------------------------------------------- the cases
BuildKinds == { k \in AllKinds : (OnlyKinds = {} \/ k \in OnlyKinds) /\ k \notin ExceptKinds }
Init ==
  \/ /\ "build" \in Fams
     /\ \/ \E k \in BuildKinds : \E g \in GenValidCases(k) : c = BuildCase(k, g, "")
        \/ \E k \in BuildKinds \cap ObjectKinds : \E x \in FieldsOf(k) : \E h \in HDom(x) :
              c = BuildCase(k, [Base(k) EXCEPT ![x] = h], x)
  \/ /\ "parse" \in Fams
     /\ \E k \in ParsableKinds : \E g \in {Base(k), Base2(k)} : \E m \in Mutants(k, g) : c = ParseCase(k, m)
  \/ /\ "gen" \in Fams
     /\ \E pre \in GenPrefixes, nm \in GenNames, suf \in GenSuffixes : c = GenCase(pre, nm, suf)
  \/ /\ "name" \in Fams
     /\ \/ \E n \in Strings(AnyAlpha, AnyLen) \cup CuratedNames : c = NameCase(n, S("d"))
        \/ \E n \in {S("r1"), <<>>, S("a/b")} : c = NameCase(n, <<>>)
  \/ /\ "desc" \in Fams
     /\ \E ti \in 1..Len(DescTypes) : \E i \in 1..Len(DescTypes[ti].fields) :
          \E ci \in 1..Len(ClassesOf(DescTypes[ti].fields[i].k)) : \E round \in 1..Rounds :
             c = DescCase(ti, i, ci, round)
Next == FALSE /\ UNCHANGED c          \* no step: every case is an initial state, dumped once
Spec == Init /\ [][Next]_c

Dump == Serialize(<<c>>, OutFile,
                  [format |-> "NDJSON", charset |-> "UTF-8", openOptions |-> <<"WRITE", "CREATE", "APPEND">>])
=============================================================================
