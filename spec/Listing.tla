------------------------------ MODULE Listing ------------------------------
(* The paginated scan behind ListDiamonds / ListSplits (pkg/core/keys.go):   *)
(* pages of the store listing -> basename filter -> mergeKeys (one key per   *)
(* object, the final-state marker wins over the initial one) -> batches.     *)
(* The scan runs over ALL keys under the prefix: markers of the objects are  *)
(* interleaved with other metadata (file lists of split generations, keys of *)
(* the splits of a diamond).                                                 *)
EXTENDS Naturals, Sequences, FiniteSets, TLC

CONSTANTS MaxObjs,     \* objects under the prefix
          MaxOther,    \* other keys before / after the markers of an object
          PageSizes

\* an object: [before, final, after]: `before` other keys, then the final marker if the object
\* reached its final state, then the initial marker (always there), then `after` other keys
ObjSpecs == [before : 0..MaxOther, final : BOOLEAN, after : 0..MaxOther]

RECURSIVE Rep(_, _)
Rep(x, n) == IF n = 0 THEN <<>> ELSE <<x>> \o Rep(x, n - 1)

ItemsOf(i, o) ==
  Rep([obj |-> i, kind |-> "other"], o.before)
  \o (IF o.final THEN <<[obj |-> i, kind |-> "final"]>> ELSE <<>>)
  \o <<[obj |-> i, kind |-> "initial"]>>
  \o Rep([obj |-> i, kind |-> "other"], o.after)

RECURSIVE Items(_, _)
Items(objs, i) == IF i > Len(objs) THEN <<>> ELSE ItemsOf(i, objs[i]) \o Items(objs, i + 1)

\* ---- the store listing, page by page (token = index of the next item)
Page(items, from, n) ==
  [keys |-> SubSeq(items, from, IF from + n - 1 > Len(items) THEN Len(items) ELSE from + n - 1),
   next |-> IF from + n <= Len(items) THEN from + n ELSE 0]

Filter(keys) == SelectSeq(keys, LAMBDA k : k.kind # "other")

\* fetchKeys: every page is filtered; the scan ends when the store has no next page
RECURSIVE FetchRef(_, _, _)
FetchRef(items, from, n) ==
  LET pg == Page(items, from, n)
      f == Filter(pg.keys)
  IN (IF f = <<>> THEN <<>> ELSE <<f>>) \o (IF pg.next = 0 THEN <<>> ELSE FetchRef(items, pg.next, n))

\* the scan as it was before the repair: it stopped at the first page left empty by the filter
RECURSIVE FetchAsIs(_, _, _)
FetchAsIs(items, from, n) ==
  LET pg == Page(items, from, n)
      f == Filter(pg.keys)
  IN IF f = <<>> THEN <<>>
     ELSE <<f>> \o (IF pg.next = 0 THEN <<>> ELSE FetchAsIs(items, pg.next, n))

\* mergeKeys: transcription. state: obj -> [isFinal, count, key]; a key is emitted when an object
\* is settled: two markers seen, or a single initial marker
RECURSIVE MergeBatch(_, _, _)
MergeBatch(keys, states, out) ==
  IF keys = <<>> THEN [states |-> states, out |-> out]
  ELSE LET k == Head(keys)
           st == IF k.obj \in DOMAIN states THEN states[k.obj] ELSE [isFinal |-> FALSE, count |-> 0, key |-> k]
           retained == IF st.isFinal /\ k.kind # "final" THEN st.key ELSE k
           nst == [isFinal |-> st.isFinal \/ k.kind = "final", count |-> st.count + 1, key |-> retained]
           settled == nst.count > 1 \/ (nst.count = 1 /\ ~nst.isFinal)
       IN MergeBatch(Tail(keys),
                     IF settled THEN [o \in DOMAIN states \ {k.obj} |-> states[o]] ELSE (k.obj :> nst) @@ states,
                     IF settled THEN Append(out, retained) ELSE out)
RECURSIVE MergeAll(_, _, _)
MergeAll(batches, states, out) ==
  IF batches = <<>> THEN out
  ELSE LET r == MergeBatch(Head(batches), states, <<>>)
       IN MergeAll(Tail(batches), r.states, out \o r.out)

Listed(objs, n) == MergeAll(FetchRef(Items(objs, 1), 1, n), << >>, <<>>)
ListedAsIs(objs, n) == MergeAll(FetchAsIs(Items(objs, 1), 1, n), << >>, <<>>)

\* ---- the reference: every object once, in its final state if it reached it
Reference(objs) == [i \in 1..Len(objs) |-> [obj |-> i, kind |-> IF objs[i].final THEN "final" ELSE "initial"]]

ListingExact(objs) == \A n \in PageSizes : Listed(objs, n) = Reference(objs)
=============================================================================
