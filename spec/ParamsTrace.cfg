SPECIFICATION TSpec
CONSTANTS
  VerdictFile = "verdicts.ndjson"
CONSTRAINT HighWater
POSTCONDITION PostCond
CHECK_DEADLOCK FALSE
