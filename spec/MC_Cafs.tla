----------------------------- MODULE MC_Cafs -----------------------------
(* Bounded model of one Put: every content length 0..MaxN (identity      *)
(* content), every chunking over Chunks, every concurrency in Conc, every *)
(* interleaving of deliveries and flush completions.                      *)
EXTENDS Cafs

Ident(n) == [i \in 1..n |-> i]

MCInit ==
  /\ content \in {Ident(n) : n \in 0..MaxN}
  /\ cc \in Conc
  /\ delivered = 0 /\ pending = 0 /\ buf = 0 /\ started = 0
  /\ inflight = {} /\ flushed = <<>> /\ blobs = << >>
  /\ phase = "write" /\ res = [written |-> 0]

MCSpec == MCInit /\ [][WNext]_wvars

\* completion order is not part of the result: hide it from the fingerprint
MCView == <<content, cc, delivered, pending, buf, started, inflight, DOMAIN blobs, phase, res>>

\* the read operators agree with each other: reading everything sequentially in
\* any buffer size, or by ReadAt in any partition, gives the content
ReadOpsConsistent ==
  \A off \in 0..(N+1), len \in 1..(2*L) :
     /\ Len(ReadAtOp(content, off, len)) = (IF off >= N THEN 0 ELSE Min(len, N - off))
     /\ \A i \in 1..Len(ReadAtOp(content, off, len)) : ReadAtOp(content, off, len)[i] = content[off + i]
=============================================================================
