SPECIFICATION Spec
CONSTANTS
  MaxObjs = 3
  MaxOther = 2
  PageSizes = {1, 2, 3, 4, 7}
INVARIANT AsIsExact
CHECK_DEADLOCK FALSE
