SPECIFICATION Spec
CONSTANTS
  Names <- MCNames
  Fields <- MCFields
  Versions = {0, 1, 2}
INVARIANTS TypeOK OnlyValidStored
PROPERTIES CreateOnce CreateLocal
CHECK_DEADLOCK FALSE
