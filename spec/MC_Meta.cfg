SPECIFICATION MCSpec
CONSTANTS
  Repos = {"r1", "r10"}
  Paths <- MCPaths
  Contents = {"s", "t"}
  Labels <- MCLabels
  E = 2
  Bulks = {0, 2}
  MaxBundles = 2
INVARIANTS TypeOK VisibleComplete LabelsResolve SquashKeepsLatest
PROPERTIES CommittedImmutable IdsOnlyGrow AtMostTwoReposTouched
CHECK_DEADLOCK FALSE
