----------------------------- MODULE Gen_Meta -----------------------------
(* Behaviour generation for the metadata layer (binding A): random walks   *)
(* over the API-level actions of Meta.tla.  Every step carries the result   *)
(* the specification defines, a set of observations (listings, latest,      *)
(* labels) and the complete abstract post-state, which the harness compares *)
(* with the projection of the real metadata stores.                         *)
EXTENDS Meta, Json, IOUtils

CONSTANTS MaxLen, MaxBundles, OutFile, WithCrash, WithRepoOps, WithSquash,
          LabelW, \* weight of label assignments in the random walk
          Script, \* "none": random walk; "squash": exhaustive scripted squash scenarios
          Ops   \* enabled operation families: subset of {"label", "delete", "diff", "download", "keys", "update"}
VARIABLES hist, stage, pos

gvars == <<mvars, hist, stage, pos>>

GPaths == { [p |-> "a", gen |-> FALSE], [p |-> "d/a", gen |-> FALSE], [p |-> "d/b", gen |-> FALSE],
            [p |-> "sp ace", gen |-> FALSE], [p |-> "d/e/ü", gen |-> FALSE],
            [p |-> ".datamon/x", gen |-> TRUE], [p |-> ".conflicts/s/a", gen |-> TRUE],
            [p |-> ".checkpoints/c", gen |-> TRUE],
            \* look-alikes of the reserved locations, which are ordinary files
            [p |-> ".datamonrc", gen |-> FALSE], [p |-> ".conflicts.txt", gen |-> FALSE],
            [p |-> "d/.datamon/x", gen |-> FALSE], [p |-> ".checkpoints-old/x", gen |-> FALSE],
            \* a sibling that differs from "a" only by leading dots
            [p |-> ".a", gen |-> FALSE] }
\* ("lat" / "latest" and "a_b" / "a_b2": names that are prefixes of one another)
GLabels == { [n |-> "v1.2.3", semver |-> TRUE], [n |-> "latest", semver |-> FALSE],
             [n |-> "a_b", semver |-> FALSE], [n |-> "1.0.0", semver |-> TRUE],
             [n |-> "lat", semver |-> FALSE], [n |-> "a_b2", semver |-> FALSE] }

R(S) == RandomElement(S)

\* ---- JSON friendly views
TreeJ(t) == {[p |-> q.p, c |-> t[q]] : q \in DOMAIN t}
BunJ == [b \in Ids |-> [id |-> b, repo |-> bun[b].repo, tree |-> TreeJ(bun[b].tree), bulk |-> bun[b].bulk,
                        idx |-> bun[b].idx, desc |-> bun[b].desc, nidx |-> NIdx(b)]]
LabelsJ(l) == {[repo |-> k.repo, name |-> k.name.n, bundle |-> l[k]] : k \in DOMAIN l}
Obs(rs, bn, lb) ==
  [repos |-> rs,
   list |-> {[repo |-> r, ids |-> {b \in 1..Len(bn) : bn[b].repo = r /\ bn[b].desc}] : r \in rs},
   latest |-> {[repo |-> r,
                id |-> LET v == {b \in 1..Len(bn) : bn[b].repo = r /\ bn[b].desc}
                       IN IF v = {} THEN 0 ELSE Max(v)] : r \in rs}]

Post == [repos |-> repos', bundles |-> [b \in 1..Len(bun') |->
            [id |-> b, repo |-> bun'[b].repo, tree |-> TreeJ(bun'[b].tree), bulk |-> bun'[b].bulk,
             idx |-> bun'[b].idx, desc |-> bun'[b].desc]],
         labels |-> LabelsJ(labels'),
         obs |-> Obs(repos', bun', labels')]

Log(r) == hist' = Append(hist, r @@ [post |-> Post])

\* trees: every subset of paths with every content assignment is too many to
\* enumerate per step; a random tree per step keeps branching at one
RandSubset(S) == {x \in S : R(BOOLEAN)}
\* (the parameter only keeps TLC from evaluating the definition once as a constant: with no parameter every
\*  upload of a run got the same tree)
RandTree(dummy) == LET ps == RandSubset(Paths)
                       cs == [p \in Paths |-> R(Contents)]
                   IN [p \in ps |-> cs[p]]
TreeArg(t) == {[p |-> q.p, c |-> t[q], gen |-> q.gen] : q \in DOMAIN t}

GCreateRepo(r) ==
  /\ CreateRepo(r)
  /\ Log([op |-> "createrepo", repo |-> r, res |-> CreateRepoRes(r)])

GUpload(r, t, k) ==
  /\ Len(bun) < MaxBundles
  /\ Upload(r, t, k)
  /\ Log([op |-> "upload", repo |-> r, tree |-> TreeArg(t), bulk |-> k, id |-> Len(bun) + 1])

GUploadCrash(r, t, k, j) ==
  /\ WithCrash /\ Len(bun) < MaxBundles
  /\ UploadCrash(r, t, k, j)
  /\ Log([op |-> "uploadcrash", repo |-> r, tree |-> TreeArg(t), bulk |-> k, id |-> Len(bun) + 1, after |-> j])

\* one metadata write of the upload fails transiently (the k-th one; the client lives on):
\* the upload must report the failure and must not publish the bundle
GUploadFault(r, t, k, f) ==
  /\ WithCrash /\ Len(bun) < MaxBundles
  /\ f >= 1 /\ f <= CeilDiv(Cardinality(DOMAIN Uploadable(t)) + k, E) + 1
  /\ UploadCrash(r, t, k, f - 1)
  /\ Log([op |-> "uploadfault", repo |-> r, tree |-> TreeArg(t), bulk |-> k, id |-> Len(bun) + 1, fail |-> f])

\* the descriptor landed but the client crashed before learning it: a complete, visible bundle
GUploadCrashAfterDesc(r, t, k) ==
  /\ WithCrash /\ Len(bun) < MaxBundles
  /\ Upload(r, t, k)
  /\ Log([op |-> "uploadcrash", repo |-> r, tree |-> TreeArg(t), bulk |-> k, id |-> Len(bun) + 1, after |-> 99])

\* a second writer with the id of a committed bundle (a preserved id used again, or the entries of a
\* bundle object uploaded again - the call the mutable mount's commit makes): refused, nothing changes
\* ("entries" only against a bundle that has a file list: a bundle without files has none to alter, and an
\*  index file written next to its descriptor is read by nobody - the descriptor says there are none)
GReUpload(r, b, t, mode) ==
  /\ WithCrash /\ b \in VisibleIn(r)
  /\ mode = "entries" => NIdx(b) >= 1
  /\ UNCHANGED mvars
  /\ Log([op |-> "reupload", repo |-> r, bundle |-> b, tree |-> TreeArg(t), mode |-> mode])

\* two uploads preserving the same (new) id race: both pass the existence check, the first one
\* completes, then the second one proceeds: it must fail and leave the first one's bundle alone
GUploadRace(r, t, t2) ==
  /\ WithCrash /\ Len(bun) < MaxBundles
  /\ DOMAIN Uploadable(t2) # {}     \* the loser is stopped at its first file-list write: it must have one
  /\ DOMAIN Uploadable(t) # {}      \* ... and so must the winner: against a bundle without file lists the loser's
                                    \* first list lands next to the descriptor, where nobody reads it (see GReUpload)
  /\ Upload(r, t, 0)
  /\ Log([op |-> "uploadrace", repo |-> r, tree |-> TreeArg(t), loser |-> TreeArg(t2), bulk |-> 0, id |-> Len(bun) + 1])

GSetLabel(r, n, b) ==
  /\ SetLabel(r, n, b)
  /\ Log([op |-> "setlabel", repo |-> r, name |-> n.n, bundle |-> b])

\* a label set interrupted before (j = 0) or after (j = 1) its store write: a label is one object, written at once -
\* either nothing happened or the label is set; the previous assignment is never lost
GSetLabelCrash(r, n, b, j) ==
  /\ WithCrash
  /\ IF j = 0 THEN r \in repos /\ b \in VisibleIn(r) /\ UNCHANGED mvars ELSE SetLabel(r, n, b)
  /\ Log([op |-> "setlabelcrash", repo |-> r, name |-> n.n, bundle |-> b, after |-> j])

GDeleteLabel(r, n) ==
  /\ r \in repos
  /\ DeleteLabel(r, n)
  /\ Log([op |-> "deletelabel", repo |-> r, name |-> n.n, res |-> DeleteLabelRes(r, n)])

GDeleteBundle(r, b) ==
  /\ DeleteBundle(r, b)
  /\ Log([op |-> "deletebundle", repo |-> r, bundle |-> b])

GDeleteRepo(r) ==
  /\ WithRepoOps
  /\ DeleteRepo(r)
  /\ Log([op |-> "deleterepo", repo |-> r])

GRenameRepo(r, new) ==
  /\ WithRepoOps
  /\ RenameRepo(r, new)
  /\ Log([op |-> "renamerepo", repo |-> r, new |-> new])

GDeleteEntries(r, ps) ==
  /\ WithRepoOps
  /\ DeleteEntries(r, ps)
  /\ Log([op |-> "deleteentries", repo |-> r, paths |-> {q.p : q \in ps}])

GSquash(r, n, mode) ==
  /\ WithSquash
  /\ Squash(r, n, mode)
  /\ Log([op |-> "squash", repo |-> r, n |-> n, mode |-> mode,
          \* leftovers of interrupted uploads: the property leaves their fate open
          leftovers |-> {b \in Ids : InRepo(b, r) /\ Leftover(b)}])

\* upload of an explicit key list: repeated keys count once, generated paths are skipped,
\* a key that is not in the source fails the upload unless missing keys are skipped
SeqSet(q) == {q[i] : i \in DOMAIN q}
GUploadKeys(r, t, keys, skip) ==
  /\ Len(bun) < MaxBundles /\ r \in repos
  /\ LET wanted == {k \in SeqSet(keys) : ~k.gen}
         missing == wanted \ DOMAIN t
         ok == missing = {} \/ skip
         sub == [p \in wanted \cap DOMAIN t |-> t[p]]
     IN /\ bun' = Append(bun, IF ok THEN NewBundle(r, sub, 0, CeilDiv(Cardinality(DOMAIN sub), E), TRUE)
                                    ELSE NewBundle(r, sub, 0, 0, FALSE))
        /\ UNCHANGED <<repos, labels>>
        /\ Log([op |-> "uploadkeys", repo |-> r, tree |-> TreeArg(t), keys |-> [i \in DOMAIN keys |-> keys[i].p],
                skip |-> skip, id |-> Len(bun) + 1, res |-> IF ok THEN "ok" ELSE "error"])

\* update a local copy of bundle a to bundle b: the directory becomes b
\* (stale: the local copy is the download made when a was uploaded - delete-files may have rewritten a since)
GUpdate(a, b) ==
  /\ a \in Ids /\ b \in Ids /\ Visible(a) /\ Visible(b) /\ bun[a].repo \in repos /\ bun[b].repo = bun[a].repo
  /\ UNCHANGED mvars
  /\ \E stale \in {R(BOOLEAN)} :
       Log([op |-> "update", a |-> a, b |-> b, stale |-> stale, from |-> TreeJ(bun[a].tree), files |-> TreeJ(bun[b].tree)])

\* observations that do not change the state
GDiff(a, b) ==
  /\ a \in Ids /\ b \in Ids /\ Visible(a) /\ Visible(b) /\ bun[a].repo \in repos /\ bun[b].repo \in repos
  /\ UNCHANGED mvars
  /\ Log([op |-> "diff", a |-> a, b |-> b,
          add |-> {q.p : q \in DiffOp(a, b).add}, del |-> {q.p : q \in DiffOp(a, b).del},
          dif |-> {q.p : q \in DiffOp(a, b).dif}])

GDownload(b, sel) ==
  /\ b \in Ids /\ Visible(b) /\ bun[b].repo \in repos
  /\ UNCHANGED mvars
  /\ Log([op |-> "download", bundle |-> b, select |-> {q.p : q \in sel},
          files |-> TreeJ([q \in DOMAIN bun[b].tree \cap sel |-> bun[b].tree[q]])])

\* RandomElement is re-evaluated at every occurrence of the expression: bind each
\* random choice once with \E x \in {R(..)}
GStep ==
  \/ \E r \in {R(Repos)} : GCreateRepo(r)
  \/ \E r \in repos, i \in 1..3 : \E t \in {RandTree(hist)}, k \in {R(Bulks)} : GUpload(r, t, k)
  \/ \E r \in repos : \E j \in 0..2 : \E t \in {RandTree(hist)}, k \in {R(Bulks)} : GUploadCrash(r, t, k, j)
  \/ \E r \in repos : \E t \in {RandTree(hist)}, k \in {R(Bulks)} : GUploadCrashAfterDesc(r, t, k)
  \/ \E r \in repos : \E f \in 1..3 : \E t \in {RandTree(hist)}, k \in {R(Bulks)} : GUploadFault(r, t, k, f)
  \/ \E r \in repos : \E b \in {R(VisibleIn(r) \cup {0})} : \E t \in {RandTree(hist)}, m \in {R({"sameid", "entries"})} :
        b # 0 /\ GReUpload(r, b, t, m)
  \/ \E r \in repos : \E t \in {RandTree(hist)}, t2 \in {RandTree(hist)} : GUploadRace(r, t, t2)
  \/ "keys" \in Ops /\ \E r \in repos, i \in 1..2 : \E t \in {RandTree(hist)}, skip \in {R(BOOLEAN)} :
        \E keys \in {[j \in 1..R(0..4) |-> R(Paths)]} : GUploadKeys(r, t, keys, skip)
  \/ "label" \in Ops /\ \E r \in repos, i \in 1..LabelW : \E b \in {R(VisibleIn(r) \cup {0})} : \E n \in {R(Labels)} :
        b # 0 /\ GSetLabel(r, n, b)
  \/ "label" \in Ops /\ \E r \in repos : \E b \in {R(VisibleIn(r) \cup {0})} : \E n \in {R(Labels)}, j \in {R({0, 1})} :
        b # 0 /\ GSetLabelCrash(r, n, b, j)
  \/ "label" \in Ops /\ \E r \in repos : \E n \in {R(Labels)} : GDeleteLabel(r, n)
  \/ "delete" \in Ops /\ \E r \in repos : \E b \in {R(VisibleIn(r) \cup {0})} : b # 0 /\ GDeleteBundle(r, b)
  \/ \E r \in repos : GDeleteRepo(r)
  \/ \E r \in repos : \E new \in {R(Repos)} : GRenameRepo(r, new)
  \/ \E r \in repos : \E ps \in {RandSubset({q \in Paths : ~q.gen})} : GDeleteEntries(r, ps)
  \/ \E r \in repos : \E n \in {R(1..3)} : \E m \in {R({"none", "tags", "semver", "both"})} : GSquash(r, n, m)
  \/ "diff" \in Ops /\ \E a \in {R(Ids \cup {0})}, b \in {R(Ids \cup {0})} : GDiff(a, b)
  \/ "update" \in Ops /\ \E i \in 1..2 : \E a \in {R(Ids \cup {0})}, b \in {R(Ids \cup {0})} : GUpdate(a, b)
  \/ "download" \in Ops /\ \E b \in {R(Ids \cup {0})} : \E sel \in {RandSubset(Paths)} : GDownload(b, sel)

\* ---- scripted scenarios (BFS enumerates every one exactly once):
\* one repository, three uploads each either complete or interrupted after its index file,
\* every label either unassigned or on one of the visible bundles, one squash
LabelSeq == <<[n |-> "1.0.0", semver |-> TRUE], [n |-> "a_b", semver |-> FALSE],
              [n |-> "latest", semver |-> FALSE], [n |-> "v1.2.3", semver |-> TRUE]>>
ScriptTree == [p \in {[p |-> "a", gen |-> FALSE]} |-> "s"]
ScriptStep ==
  CASE pos = 0 -> GCreateRepo("r1") /\ pos' = 1
    [] pos \in 1..3 -> /\ \/ GUpload("r1", ScriptTree, 0)
                          \/ GUploadCrash("r1", ScriptTree, 0, 1)
                       /\ pos' = pos + 1
    [] pos \in 4..7 -> /\ \/ \E b \in VisibleIn("r1") : GSetLabel("r1", LabelSeq[pos - 3], b)
                          \/ UNCHANGED <<mvars, hist>>
                       /\ pos' = pos + 1
    [] pos = 8 -> /\ \E n \in 1..3, m \in {"none", "tags", "semver", "both"} : GSquash("r1", n, m)
                  /\ pos' = 9
    [] OTHER -> FALSE

\* delete-files over bundles of more than one index file: two bundles of one repository and one of a
\* prefix-named neighbour hold the same tree (plus the bulk filler, Bulks = {1001}: two index files);
\* every non-empty subset ("delfiles-all") or two chosen subsets ("delfiles") of its paths is deleted, then r1 is renamed
DelTree == [p \in {[p |-> "a", gen |-> FALSE], [p |-> "d/a", gen |-> FALSE], [p |-> "sp ace", gen |-> FALSE]} |-> "s"]
DelSets == IF Script = "delfiles-all" THEN SUBSET (DOMAIN DelTree) \ {{}}
           ELSE {{[p |-> "d/a", gen |-> FALSE]}, {[p |-> "a", gen |-> FALSE], [p |-> "sp ace", gen |-> FALSE]}}
DelScriptStep ==
  CASE pos = 0 -> GCreateRepo("r1") /\ pos' = 1
    [] pos = 1 -> GCreateRepo("r1-x") /\ pos' = 2
    [] pos \in 2..3 -> (\E k \in Bulks : GUpload("r1", DelTree, k)) /\ pos' = pos + 1
    [] pos = 4 -> (\E k \in Bulks : GUpload("r1-x", DelTree, k)) /\ pos' = 5
    [] pos = 5 -> (\E ps \in DelSets : GDeleteEntries("r1", ps)) /\ pos' = 6
    \* ... and the repository, whose bundles still have two index files each, is renamed next to its neighbour
    [] pos = 6 -> GRenameRepo("r1", "r10") /\ pos' = 9
    [] OTHER -> FALSE

\* uploads whose number of files is an exact multiple of the index-file size E (the last index file is full):
\* the bulk filler alone (E or 2E files), or one named file plus E - 1 filler files
ExactTree == [p \in {[p |-> "a", gen |-> FALSE]} |-> "s"]
ExactScriptStep ==
  CASE pos = 0 -> GCreateRepo("r1") /\ pos' = 1
    [] pos = 1 -> GUpload("r1", << >>, E) /\ pos' = 2
    [] pos = 2 -> GUpload("r1", ExactTree, E - 1) /\ pos' = 3
    [] pos = 3 -> (\E k \in {E, 2 * E} : GUpload("r1", << >>, k)) /\ pos' = 9
    [] OTHER -> FALSE

\* a path that is a file in one bundle and a directory in the next ("a" -> "a/z", "a/y/w"), next to an unchanged,
\* a changed and a removed file: the local copy of the first is updated to the second and then to a third that
\* only adds below the new directory.  (The replacement of a directory by a file is not scripted: the unchanged
\* code leaves the emptied directory behind and cannot create the file; pairs of that shape are outside C05's
\* quantification and DESIGN.md records the observation.)
P(s) == [p |-> s, gen |-> FALSE]
SwapA == (P("a") :> "s") @@ (P("d/a") :> "t") @@ (P("d/b") :> "m") @@ (P("sp ace") :> "s")
SwapB == (P("a/z") :> "s") @@ (P("a/y/w") :> "t") @@ (P("d/a") :> "t") @@ (P("d/b") :> "s")
SwapC == (P("a/z") :> "s") @@ (P("a/y/w") :> "t") @@ (P("a/y/v") :> "e") @@ (P("d/a") :> "t") @@ (P("d/b") :> "s")
SwapScriptStep ==
  CASE pos = 0 -> GCreateRepo("r1") /\ pos' = 1
    [] pos = 1 -> GUpload("r1", SwapA, 0) /\ pos' = 2
    [] pos = 2 -> GUpload("r1", SwapB, 0) /\ pos' = 3
    [] pos = 3 -> GUpload("r1", SwapC, 0) /\ pos' = 4
    [] pos = 4 -> GDiff(1, 2) /\ pos' = 5
    [] pos = 5 -> GUpdate(1, 2) /\ pos' = 6
    [] pos = 6 -> GUpdate(2, 3) /\ pos' = 7
    [] pos = 7 -> GUpdate(1, 3) /\ pos' = 9
    [] OTHER -> FALSE

GNext == /\ stage = "run"
         /\ IF Script = "swap"
              THEN IF pos < 9 THEN SwapScriptStep /\ UNCHANGED stage
                   ELSE stage' = "done" /\ UNCHANGED <<mvars, hist, pos>>
            ELSE
            IF Script = "exact"
              THEN IF pos < 9 THEN ExactScriptStep /\ UNCHANGED stage
                   ELSE stage' = "done" /\ UNCHANGED <<mvars, hist, pos>>
            ELSE
            IF Script \in {"delfiles", "delfiles-all"}
              THEN IF pos < 9 THEN DelScriptStep /\ UNCHANGED stage
                   ELSE stage' = "done" /\ UNCHANGED <<mvars, hist, pos>>
            ELSE
            IF Script = "squash"
              THEN IF pos < 9 THEN ScriptStep /\ UNCHANGED stage
                   ELSE stage' = "done" /\ UNCHANGED <<mvars, hist, pos>>
              ELSE /\ UNCHANGED pos
                   /\ IF Len(hist) < MaxLen
                        THEN GStep /\ UNCHANGED stage
                        ELSE stage' = "done" /\ UNCHANGED <<mvars, hist>>

GInit == Init /\ hist = <<>> /\ stage = "run" /\ pos = 0
GSpec == GInit /\ [][GNext]_gvars

Dump == stage = "done" =>
          Serialize(<<hist>>, OutFile,
                    [format |-> "NDJSON", charset |-> "UTF-8",
                     openOptions |-> <<"WRITE", "CREATE", "APPEND">>])
=============================================================================
