--------------------------- MODULE ObjectStore ---------------------------
(* The key/value object-store contract datamon is written against (GCS-like): *)
(* create-if-absent writes, read-your-writes, deletes, prefix listings that   *)
(* are lexicographic, duplicate free, delimiter-collapsed and paginated.      *)
(*                                                                            *)
(* Keys are sequences of one-character strings so that prefixes, delimiters   *)
(* and byte order can be computed by TLC.  Actions take the observed values   *)
(* as parameters: the same actions are used (a) under \E in the bounded model *)
(* (MC_ObjectStore), (b) to generate behaviours replayed on the real stores   *)
(* (Gen_ObjectStore), (c) bound to logged events (ObjectStoreTrace).          *)
EXTENDS Naturals, Sequences, FiniteSets, SequencesExt, TLC

CONSTANTS Keys,      \* finite set of keys (sequences of characters)
          Vals,      \* finite set of values
          LPrefixes,  \* prefixes used by listings
          Counts     \* page sizes

VARIABLE store       \* function: subset of Keys -> Vals

Slash == "/"
\* byte order of the characters in use ('-' < '/' < digits < letters)
Ord(c) == CASE c = "-" -> 45 [] c = "/" -> 47 [] c = "0" -> 48 [] c = "1" -> 49
            [] c = "a" -> 97 [] c = "b" -> 98 [] c = "c" -> 99 [] OTHER -> 200

RECURSIVE LexLess(_, _)
LexLess(s, t) ==
  IF s = <<>> THEN t # <<>>
  ELSE IF t = <<>> THEN FALSE
  ELSE IF Head(s) = Head(t) THEN LexLess(Tail(s), Tail(t))
  ELSE Ord(Head(s)) < Ord(Head(t))

HasPrefix(k, p) == Len(p) <= Len(k) /\ SubSeq(k, 1, Len(p)) = p

\* position (relative to the end of the prefix) of the first delimiter, 0 if none
FirstDelim(k, p) ==
  LET idx == {i \in (Len(p)+1)..Len(k) : k[i] = Slash}
  IN IF idx = {} THEN 0 ELSE CHOOSE i \in idx : \A j \in idx : i <= j

\* what a key shows up as in a listing with prefix p and delimiter flag d
Collapse(k, p, d) ==
  IF d /\ FirstDelim(k, p) # 0 THEN SubSeq(k, 1, FirstDelim(k, p)) ELSE k

Items(st, p, d) == {Collapse(k, p, d) : k \in {x \in DOMAIN st : HasPrefix(x, p)}}

\* the reference listing: sorted, duplicate free
ListOp(st, p, d) == SetToSortSeq(Items(st, p, d), LexLess)

\* one page: items >= token (token = <<>> means from the start), at most n
FromToken(items, tok) ==
  IF tok = <<>> THEN items
  ELSE SelectSeq(items, LAMBDA x : x = tok \/ LexLess(tok, x))
PageOp(items, tok, n) ==
  LET rest == FromToken(items, tok)
  IN [page |-> SubSeq(rest, 1, IF Len(rest) < n THEN Len(rest) ELSE n),
      next |-> IF Len(rest) > n THEN rest[n+1] ELSE <<>>]

\* the paginated scan every datamon listing loop performs
RECURSIVE ScanFrom(_, _, _)
ScanFrom(items, tok, n) ==
  LET pg == PageOp(items, tok, n)
  IN IF pg.next = <<>> THEN pg.page ELSE pg.page \o ScanFrom(items, pg.next, n)
ScanOp(st, p, d, n) == ScanFrom(ListOp(st, p, d), <<>>, n)

----------------------------------------------------------------------------
Init == store = << >>

Without(st, k) == [x \in DOMAIN st \ {k} |-> st[x]]

\* result of a put as a function of the pre-state
PutRes(st, k, excl) == IF excl /\ k \in DOMAIN st THEN "exists" ELSE "ok"

Put(k, v, excl) ==
  store' = IF PutRes(store, k, excl) = "ok" THEN (k :> v) @@ store ELSE store

Delete(k) == store' = Without(store, k)

GetRes(st, k) == IF k \in DOMAIN st THEN [found |-> TRUE, val |-> st[k]]
                                    ELSE [found |-> FALSE, val |-> 0]

Next == \/ \E k \in Keys, v \in Vals, e \in BOOLEAN : Put(k, v, e)
        \/ \E k \in Keys : Delete(k)

Spec == Init /\ [][Next]_store

----------------------------------------------------------------------------
(* Properties *)

TypeOK == DOMAIN store \subseteq Keys /\ \A k \in DOMAIN store : store[k] \in Vals

\* pagination never loses, duplicates or reorders: scan = one-page listing
PagingExact ==
  \A p \in LPrefixes, d \in BOOLEAN, n \in Counts :
     ScanOp(store, p, d, n) = ListOp(store, p, d)

\* a listing is strictly increasing (sorted, no duplicates) and exact
ListingSorted ==
  \A p \in LPrefixes, d \in BOOLEAN :
     LET l == ListOp(store, p, d)
     IN /\ \A i \in 1..(Len(l)-1) : LexLess(l[i], l[i+1])
        /\ {l[i] : i \in 1..Len(l)} = Items(store, p, d)

\* without delimiter the listing is exactly the keys under the prefix
ListingExact ==
  \A p \in LPrefixes :
     {ListOp(store, p, FALSE)[i] : i \in 1..Len(ListOp(store, p, FALSE))}
       = {k \in DOMAIN store : HasPrefix(k, p)}

=============================================================================
