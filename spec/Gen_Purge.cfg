SPECIFICATION GSpec
CONSTANTS
  Files = {"f1", "f2", "f3"}
  RootOf <- MCRootOf
  LeavesOf <- MCLeavesOf
  BundleDefs <- MCBundleDefs
  ChunkSizes = {1, 2, 3, 7}
  RefreshOnDedup = TRUE
  Faulty = TRUE
  Sample = FALSE
  OutFile = "purge.ndjson"
CONSTRAINT Dump
CHECK_DEADLOCK FALSE
