SPECIFICATION GSpec
CONSTANTS
  Files <- GFiles
  RootOf <- GRootOf
  LeavesOf <- GLeavesOf
  BundleDefs <- GBundleDefs
  ChunkSizes = {1, 2, 3, 7}
  RefreshOnDedup = TRUE
  Faulty = TRUE
  Sample = FALSE
  ExactOnly = FALSE
  Late = FALSE
  OutFile = "purge.ndjson"
CONSTRAINT Dump
CHECK_DEADLOCK FALSE
