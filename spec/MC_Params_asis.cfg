SPECIFICATION MCSpec
CONSTANTS
  MaxVal = 2
INVARIANTS AsIsRoundTrip
CHECK_DEADLOCK FALSE
