---------------------------- MODULE Gen_Listing ----------------------------
(* Listing cases for the replay on ListSplits / ListDiamonds: every content  *)
(* within the bounds, with the reference result of Listing.tla.              *)
EXTENDS Listing, Json, IOUtils
CONSTANTS OutFile
VARIABLES case, stage

\* splits of one diamond: `before` = file lists of earlier runs, nothing after the markers;
\* a done split has at least the file list of its completing run
SplitSpecs == {o \in ObjSpecs : o.after = 0 /\ (o.final => o.before >= 1)}
\* diamonds of one repository: nothing before the markers, `after` = keys of its splits
DiamondSpecs == {o \in ObjSpecs : o.before = 0}

Cases(kind, specs) == UNION {[1..k -> specs] : k \in 1..MaxObjs}

GInit == case = [none |-> TRUE] /\ stage = "pick"
Pick ==
  /\ stage = "pick"
  /\ \/ \E objs \in Cases("splits", SplitSpecs) :
          case' = [kind |-> "splits", objs |-> objs, expected |-> Reference(objs), exact |-> ListingExact(objs)]
     \/ \E objs \in Cases("diamonds", DiamondSpecs) :
          case' = [kind |-> "diamonds", objs |-> objs, expected |-> Reference(objs), exact |-> ListingExact(objs)]
  /\ stage' = "done"
GSpec == GInit /\ [][Pick]_<<case, stage>>
Dump == stage = "done" =>
          Serialize(<<case>>, OutFile,
                    [format |-> "NDJSON", charset |-> "UTF-8", openOptions |-> <<"WRITE", "CREATE", "APPEND">>])
SpecExact == stage = "done" => case.exact
=============================================================================
