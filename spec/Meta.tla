------------------------------- MODULE Meta -------------------------------
(* Repositories, bundles and labels as datamon keeps them in its metadata   *)
(* stores, at the level of store objects:                                   *)
(*   repos/<r>/repo.yaml                    one object per repository       *)
(*   bundles/<r>/<id>/bundle-files-<i>.yaml index files, E entries each     *)
(*   bundles/<r>/<id>/bundle.yaml           descriptor, written LAST        *)
(*   labels/<r>/<name>/label.yaml           label -> bundle id              *)
(* A bundle is VISIBLE iff its descriptor exists.  Bundle ids are naturals  *)
(* in allocation order, which is also their byte order (KSUIDs).            *)
(*                                                                          *)
(* Every API operation is an action taking its arguments as parameters; the *)
(* result an operation must return is an operator of the pre-state.         *)
EXTENDS Naturals, Sequences, FiniteSets, TLC

CONSTANTS Repos,      \* repository names
          Paths,      \* file paths (records [p |-> string, gen |-> BOOLEAN]: gen = generated/reserved path)
          Contents,   \* content identifiers
          Labels,     \* label names (records [n |-> string, semver |-> BOOLEAN])
          E,          \* entries per index file
          Bulks       \* numbers of additional filler files an upload may carry

VARIABLES repos,   \* set of existing repositories
          bun,     \* sequence of bundle records, index = bundle id
          labels   \* function: [repo, name] records -> bundle id

mvars == <<repos, bun, labels>>

None == 0

\* ---------------------------------------------------------------- helpers
Max(S) == CHOOSE x \in S : \A y \in S : y <= x
CeilDiv(a, b) == (a + b - 1) \div b
Ids == 1..Len(bun)

\* the files of a tree that an upload stores: generated paths are never uploaded
Uploadable(tree) == [p \in {q \in DOMAIN tree : ~q.gen} |-> tree[p]]
Count(b) == Cardinality(DOMAIN bun[b].tree) + bun[b].bulk
\* number of index files of the complete bundle, as recorded in its descriptor
\* (fixed at upload: deleting entries later shortens index files, it never removes one)
NIdx(b) == bun[b].nidx

Visible(b) == bun[b].desc
InRepo(b, r) == bun[b].repo = r
VisibleIn(r) == {b \in Ids : InRepo(b, r) /\ Visible(b)}
\* a leftover: some index file of an interrupted upload, no descriptor
Leftover(b) == ~bun[b].desc /\ bun[b].idx > 0

LabelKey(r, n) == [repo |-> r, name |-> n]
LabelsOf(r) == {k \in DOMAIN labels : k.repo = r}

\* ---------------------------------------------------------------- results (operators)
ListReposOp == repos
ListBundlesOp(r) == VisibleIn(r)                         \* reported in increasing id order
LatestOp(r) == IF VisibleIn(r) = {} THEN None ELSE Max(VisibleIn(r))
GetLabelOp(r, n) == IF LabelKey(r, n) \in DOMAIN labels THEN labels[LabelKey(r, n)] ELSE None
ListLabelsOp(r) == {[name |-> k.name, bundle |-> labels[k]] : k \in LabelsOf(r)}
EntriesOp(b) == bun[b].tree                              \* plus bun[b].bulk filler entries
\* diff between an existing bundle a and an additional bundle b
DiffOp(a, b) ==
  LET ta == bun[a].tree
      tb == bun[b].tree
  IN [add |-> DOMAIN tb \ DOMAIN ta,
      del |-> DOMAIN ta \ DOMAIN tb,
      dif |-> {p \in DOMAIN ta \cap DOMAIN tb : ta[p] # tb[p]}]

\* ---------------------------------------------------------------- actions
Init == repos = {} /\ bun = <<>> /\ labels = << >>

CreateRepoRes(r) == IF r \in repos THEN "exists" ELSE "ok"
CreateRepo(r) ==
  /\ repos' = repos \cup {r}
  /\ UNCHANGED <<bun, labels>>

NewBundle(r, tree, bulk, idx, desc) ==
  [repo |-> r, tree |-> Uploadable(tree), bulk |-> bulk, idx |-> idx, desc |-> desc,
   nidx |-> CeilDiv(Cardinality(DOMAIN Uploadable(tree)) + bulk, E)]

\* a complete upload: every index file, then the descriptor
Upload(r, tree, bulk) ==
  /\ r \in repos
  /\ LET n == Cardinality(DOMAIN Uploadable(tree)) + bulk
     IN bun' = Append(bun, NewBundle(r, tree, bulk, CeilDiv(n, E), TRUE))
  /\ UNCHANGED <<repos, labels>>

\* an upload interrupted after j index files reached the store
UploadCrash(r, tree, bulk, j) ==
  /\ r \in repos
  /\ j <= CeilDiv(Cardinality(DOMAIN Uploadable(tree)) + bulk, E)
  /\ bun' = Append(bun, NewBundle(r, tree, bulk, j, FALSE))
  /\ UNCHANGED <<repos, labels>>

SetLabel(r, n, b) ==
  /\ r \in repos /\ b \in VisibleIn(r)
  /\ labels' = (LabelKey(r, n) :> b) @@ labels
  /\ UNCHANGED <<repos, bun>>

DropKeys(f, ks) == [k \in DOMAIN f \ ks |-> f[k]]

DeleteLabelRes(r, n) == IF r \in repos /\ LabelKey(r, n) \in DOMAIN labels THEN "ok" ELSE "error"
DeleteLabel(r, n) ==
  /\ labels' = IF DeleteLabelRes(r, n) = "ok" THEN DropKeys(labels, {LabelKey(r, n)}) ELSE labels
  /\ UNCHANGED <<repos, bun>>

Erase(b) == [bun[b] EXCEPT !.idx = 0, !.desc = FALSE]

DeleteBundle(r, b) ==
  /\ r \in repos /\ b \in VisibleIn(r)
  /\ bun' = [bun EXCEPT ![b] = Erase(b)]
  /\ labels' = DropKeys(labels, {k \in LabelsOf(r) : labels[k] = b})
  /\ UNCHANGED repos

DeleteRepo(r) ==
  /\ r \in repos
  /\ repos' = repos \ {r}
  /\ bun' = [b \in Ids |-> IF b \in VisibleIn(r) THEN Erase(b) ELSE bun[b]]
  /\ labels' = DropKeys(labels, LabelsOf(r))

RenameRepo(r, new) ==
  /\ r \in repos /\ new \notin repos /\ new # r
  /\ repos' = (repos \ {r}) \cup {new}
  /\ bun' = [b \in Ids |-> IF b \in VisibleIn(r) THEN [bun[b] EXCEPT !.repo = new] ELSE bun[b]]
  /\ labels' = [k \in (DOMAIN labels \ LabelsOf(r)) \cup {LabelKey(new, q.name) : q \in LabelsOf(r)} |->
                  IF k.repo = new THEN labels[LabelKey(r, k.name)] ELSE labels[k]]

DeleteEntries(r, ps) ==
  /\ r \in repos
  /\ bun' = [b \in Ids |-> IF b \in VisibleIn(r)
                            THEN [bun[b] EXCEPT !.tree = DropKeys(@, ps)]
                            ELSE bun[b]]
  /\ UNCHANGED <<repos, labels>>

\* squash: keep the n most recent VISIBLE bundles, plus labelled ones on request
Labelled(r, mode) ==
  \* ("both" = retain-tags together with retain-semver-tags: every label retains, as with retain-tags alone)
  {labels[k] : k \in {q \in LabelsOf(r) : mode \in {"tags", "both"} \/ (mode = "semver" /\ q.name.semver)}}
KeepSet(r, n, mode) ==
  LET v == VisibleIn(r)
      recent == {b \in v : Cardinality({c \in v : c > b}) < n}
  IN recent \cup (IF mode = "none" THEN {} ELSE Labelled(r, mode) \cap v)
Squash(r, n, mode) ==
  /\ r \in repos /\ n >= 1
  /\ LET keep == KeepSet(r, n, mode)
         dead == VisibleIn(r) \ keep
     IN /\ bun' = [b \in Ids |-> IF b \in dead THEN Erase(b) ELSE bun[b]]
        /\ labels' = DropKeys(labels, {k \in LabelsOf(r) : labels[k] \in dead})
  /\ UNCHANGED repos

\* ---------------------------------------------------------------- properties
TypeOK ==
  /\ repos \subseteq Repos
  /\ \A b \in Ids : bun[b].idx <= NIdx(b) \/ ~bun[b].desc
\* a visible bundle is complete: all its index files are there
VisibleComplete == \A b \in Ids : Visible(b) => bun[b].idx = NIdx(b)
\* labels only ever point at visible bundles of their own repository
LabelsResolve == \A k \in DOMAIN labels : k.repo \in repos /\ labels[k] \in VisibleIn(k.repo)
\* squash never removes the most recent visible bundle
SquashKeepsLatest ==
  \A r \in repos, n \in 1..3, mode \in {"none", "tags", "semver", "both"} :
     LatestOp(r) # None => LatestOp(r) \in KeepSet(r, n, mode)
=============================================================================
