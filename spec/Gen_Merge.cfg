SPECIFICATION GSpec
CONSTANTS
  Splits = {"s1", "s2", "s3"}
  MPaths = {"p", "d/q"}
  Hashes = {"h1", "h2"}
  MaxVersions = 3
  Sample = FALSE
  OutFile = "merge.ndjson"
INVARIANTS OrderIndependent MainSameInAllModes IgnoreAddsNothing IdenticalNeverConflict
CONSTRAINT Dump
CHECK_DEADLOCK FALSE
