------------------------- MODULE MC_ObjectStore -------------------------
(* Bounded model: every history of puts / exclusive puts / deletes over a  *)
(* small hostile key set; pagination and listing invariants in every state; *)
(* exclusive-writer accounting.                                             *)
EXTENDS ObjectStore

VARIABLE wins   \* per key: successful exclusive puts since the key was last absent

MCKeys == { <<"b">>, <<"a","/","a">>, <<"a","/","b">>, <<"a","/","b","b">>,
            <<"a","b","/","a">>, <<"a","-","b","/","a">>,
            <<"a","/","a","b","/","a">>, <<"a","/","a","b","/","b">> }
MCKeysSmall == { <<"b">>, <<"a","/","b">>, <<"a","/","b","b">>,
                 <<"a","b","/","a">>, <<"a","-","b","/","a">> }
MCPrefixes == { <<>>, <<"a">>, <<"a","/">>, <<"a","/","b">>, <<"a","b">>, <<"a","-">>,
                <<"a","/","a">>, <<"a","/","a","b","/">>, <<"b">>, <<"c">> }

MCInit == Init /\ wins = [k \in Keys |-> 0]

MCPut(k, v, e) ==
  /\ Put(k, v, e)
  /\ wins' = IF e /\ PutRes(store, k, e) = "ok" THEN [wins EXCEPT ![k] = @ + 1] ELSE wins
MCDelete(k) == Delete(k) /\ wins' = [wins EXCEPT ![k] = 0]

MCNext == \/ \E k \in Keys, v \in Vals, e \in BOOLEAN : MCPut(k, v, e)
          \/ \E k \in Keys : MCDelete(k)
MCSpec == MCInit /\ [][MCNext]_<<store, wins>>

ExclusiveWinner == \A k \in Keys : wins[k] <= 1
ExclusiveNeverReplaces ==
  [][\A k \in DOMAIN store : (wins'[k] > wins[k]) => FALSE]_<<store, wins>>
=============================================================================
