SPECIFICATION ASpec
CONSTANTS
  MaxOff = 4
  MaxLen = 3
INVARIANTS AsIsAgrees
