---------------------------- MODULE TrackerAsIs ----------------------------
(* As-is transcription of pkg/filetracker/file_tracker.go (trackWrite and   *)
(* getRangeToRead) next to the reference Tracker.tla.  The code keeps       *)
(* start/end markers in a radix tree keyed by the big-endian offset, one     *)
(* value per key (TRUE = start marker, FALSE = end marker), and walks the    *)
(* tree in ascending key order; the walk of trackWrite reads the tree as it  *)
(* was before the write (immutable radix), deletions go to the transaction,  *)
(* the insertions happen after the walk.                                     *)
(*                                                                           *)
(* TLC is run on  AsIs => property  (AsIsAgrees).  A counterexample is a     *)
(* prediction of a failing write sequence; it never produces a verdict: the  *)
(* verdict comes from replaying the sequences on the real code (C22).        *)
EXTENDS Tracker, Sequences, SequencesExt, TLC

VARIABLE mk    \* the markers: function  offset -> BOOLEAN (TRUE = start)

Lt(a, b) == a < b
Keys(m) == SetToSortSeq(DOMAIN m, Lt)

\* ---- trackWrite -----------------------------------------------------------
WAcc0 == [del |-> {}, insStart |-> TRUE, insEnd |-> TRUE, stop |-> FALSE]

\* the callback fn of trackWrite for key k
WStep(m, k, start, end, a) ==
  LET isStart == m[k] IN
  CASE isStart /\ k = start -> [a EXCEPT !.insStart = FALSE]
    [] isStart /\ k < start -> a
    [] isStart /\ k > start -> IF k <= end THEN [a EXCEPT !.del = @ \cup {k}] ELSE a
    [] ~isStart /\ k < start -> a
    [] ~isStart /\ k > start ->
         IF k >= end
           THEN [a EXCEPT !.insStart = FALSE, !.insEnd = FALSE, !.stop = TRUE]
           ELSE [a EXCEPT !.insStart = FALSE, !.del = @ \cup {k}]
    [] OTHER -> a      \* an end marker exactly at start: ignored

RECURSIVE WWalk(_, _, _, _, _, _)
WWalk(m, ks, i, start, end, a) ==
  IF i > Len(ks) \/ a.stop THEN a
  ELSE WWalk(m, ks, i + 1, start, end, WStep(m, ks[i], start, end, a))

TrackWriteAsIs(m, off, len) ==
  LET start == off
      end   == off + len
  IN IF DOMAIN m = {}
       THEN (end :> FALSE) @@ (start :> TRUE)
       ELSE LET a    == WWalk(m, Keys(m), 1, start, end, WAcc0)
                kept == [k \in DOMAIN m \ a.del |-> m[k]]
                m1   == IF a.insStart THEN (start :> TRUE) @@ kept ELSE kept
            IN IF a.insEnd THEN (end :> FALSE) @@ m1 ELSE m1

\* ---- getRangeToRead -------------------------------------------------------
MinOf(a, b) == IF a < b THEN a ELSE b

RStep(m, k, off, len, a) ==
  LET isStart == m[k] IN
  CASE isStart /\ k <= off -> [a EXCEPT !.mut = TRUE]
    [] isStart /\ k > off  -> [a EXCEPT !.mut = FALSE, !.contig = MinOf(k - off, len), !.stop = TRUE]
    [] ~isStart /\ k <= off -> [a EXCEPT !.mut = FALSE]
    [] OTHER               -> [a EXCEPT !.mut = TRUE, !.contig = MinOf(k - off, len), !.stop = TRUE]

RECURSIVE RWalk(_, _, _, _, _, _)
RWalk(m, ks, i, off, len, a) ==
  IF i > Len(ks) \/ a.stop THEN a
  ELSE RWalk(m, ks, i + 1, off, len, RStep(m, ks[i], off, len, a))

RangeToReadAsIs(m, off, len) ==
  RWalk(m, Keys(m), 1, off, len, [contig |-> len, mut |-> FALSE, stop |-> FALSE])

----------------------------------------------------------------------------
AInit == Init /\ mk = << >>

AWrite(off, len) == Write(off, len) /\ mk' = TrackWriteAsIs(mk, off, len)

ANext == \E off \in Offs, len \in Lens : AWrite(off, len)

ASpec == AInit /\ [][ANext]_<<written, mk>>

\* the property, stated on the as-is algorithm
AsIsAgrees ==
  \A off \in Probes, len \in {1, 2, N} :
    LET r == RangeToReadAsIs(mk, off, len) IN
    /\ r.mut = ModifiedOp(written, off)
    /\ ContigOK(written, off, len, r.contig)

\* weaker observations, to tell the failure classes apart
AsIsModifiedAgrees ==
  \A off \in Probes : RangeToReadAsIs(mk, off, 1).mut = ModifiedOp(written, off)
\* the marker map is well formed: exactly the markers of the bitmap
AsIsMarkersExact ==
  /\ {k \in DOMAIN mk : mk[k]} = Starts(written)
  /\ {k \in DOMAIN mk : ~mk[k]} = Ends(written)
=============================================================================
