SPECIFICATION Spec
CONSTANTS
  MaxNameLen = 1
  MaxAnyLen = 2
INVARIANTS InvParseInvertsBuild InvReservedAreGenerated InvPrefixIsolation InvValidCase InvNames
           InvNoCrossKindCollision InvNoCollisionSample InvGeneratedExamples InvKsuidExamples
CHECK_DEADLOCK FALSE
