-------------------------- MODULE Gen_LabelNames --------------------------
(* Case generation for LabelNames.tla: every sequence of one or two names   *)
(* of the pool and sampled longer ones (Sample = TRUE with tlc -simulate).   *)
(* Whether a name is accepted is the implementation's answer; the harness    *)
(* evaluates GetFound / ListOp / ListPrefixOp on the accepted set.           *)
EXTENDS LabelNames, Json, IOUtils, TLC

CONSTANTS OutFile, Sample, MaxNames
VARIABLES case, stage

S(str) == str   \* names are written as sequences of one-character strings below

GPool == {
  [n |-> <<"v", "1">>, doc |-> TRUE], [n |-> <<"v", "1", ".", "0">>, doc |-> TRUE], [n |-> <<"v", "1", "0">>, doc |-> TRUE],
  [n |-> <<"a", "_", "b">>, doc |-> TRUE], [n |-> <<"A", "-", "1">>, doc |-> TRUE], [n |-> <<"é">>, doc |-> TRUE],
  [n |-> <<"é", "t", "é">>, doc |-> TRUE], [n |-> <<"1", ".", "0", ".", "0">>, doc |-> TRUE],
  \* outside the documented alphabet: may be refused; if accepted they are labels like any other
  [n |-> <<"a", "/", "b">>, doc |-> FALSE], [n |-> <<"s", "p", " ", "a", "c", "e">>, doc |-> FALSE],
  [n |-> <<"r", "c", " ">>, doc |-> FALSE], [n |-> <<"x", ":", "y">>, doc |-> FALSE], [n |-> <<".", ".">>, doc |-> FALSE],
  [n |-> <<".", "h">>, doc |-> FALSE], [n |-> <<"%", "4", "1">>, doc |-> FALSE], [n |-> <<"a", "%", "2", "F", "b">>, doc |-> FALSE],
  [n |-> <<"+", "1">>, doc |-> FALSE], [n |-> <<"l", "a", "b", "e", "l", ".", "y", "a", "m", "l">>, doc |-> FALSE],
  [n |-> <<"a", "#", "b">>, doc |-> FALSE], [n |-> <<"a", "?", "b">>, doc |-> FALSE] }

GInit == case = <<>> /\ stage = "pick" /\ labels = {}

RECURSIVE RandSeq(_)
RandSeq(k) == IF k = 0 THEN <<>> ELSE <<RandomElement(GPool)>> \o RandSeq(k - 1)

Pick ==
  /\ stage = "pick"
  /\ IF Sample
       THEN \E s \in {RandSeq(RandomElement(3..MaxNames))} : case' = s
       ELSE \E k \in 1..2 : \E s \in [1..k -> GPool] : case' = s
  /\ stage' = "done"
  /\ UNCHANGED labels

GSpec == GInit /\ [][Pick]_<<case, stage, labels>>
Dump == stage = "done" =>
          Serialize(<<[names |-> case]>>, OutFile,
                    [format |-> "NDJSON", charset |-> "UTF-8", openOptions |-> <<"WRITE", "CREATE", "APPEND">>])
=============================================================================
