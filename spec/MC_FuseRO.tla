---------------------------- MODULE MC_FuseRO ----------------------------
(* Bounded model: every well-formed bundle with at most MaxFiles entries   *)
(* over the path pool (all paths of 1..MaxDepth components over Names),    *)
(* every size in Sizes.  In every such bundle: the tree reachable through  *)
(* lookups is exactly entries + implied directories, listings and lookups  *)
(* agree, a listing cut into calls at any offsets with any capacities      *)
(* yields every child exactly once (every ordering of the listing), reads  *)
(* return exactly the requested cells (past EOF: nothing).                 *)
EXTENDS FuseRO
=============================================================================
