----------------------------- MODULE Gen_Merge -----------------------------
(* Enumerates merge inputs (which split uploaded which content for which    *)
(* path, in which order of upload times), conflict modes and arrival orders *)
(* of the splits' file lists; emits the result Merge!MergeOp defines.       *)
EXTENDS Merge, Json, IOUtils, SequencesExt

CONSTANTS OutFile, MaxVersions, Sample
VARIABLES case, stage

\* an input: a set of (split, path) pairs with a hash each, and a total order of upload times
Slots == Splits \X MPaths
Inputs == {s \in SUBSET Slots : Cardinality(s) >= 1 /\ Cardinality(s) <= MaxVersions}

Perms(S) == {f \in [1..Cardinality(S) -> S] : \A i, j \in 1..Cardinality(S) : i # j => f[i] # f[j]}

\* constructive sampling (the sets Inputs and Perms are far too large to build beyond the exhaustive bound)
RECURSIVE RandPerm(_)
RandPerm(S) == IF S = {} THEN <<>> ELSE LET pick(x) == <<x>> \o RandPerm(S \ {x}) IN pick(RandomElement(S))
RECURSIVE RandSet(_)
RandSet(n) == IF n = 0 THEN {} ELSE {RandomElement(Slots)} \cup RandSet(n - 1)   \* (a comprehension would draw once)
RandSlots(dummy) == RandSet(RandomElement(1..MaxVersions))   \* (a constant definition would be evaluated once)

Build(slots, hashOf, tsOrder) ==
  {[split |-> tsOrder[i][1], path |-> tsOrder[i][2], hash |-> hashOf[tsOrder[i]], ts |-> i] : i \in DOMAIN tsOrder}

GInit == case = [none |-> TRUE] /\ stage = "pick"

\* completed splits that uploaded no file at all take part in the commit and contribute nothing
Emit(V, mode, order) ==
  LET used == {v.split : v \in V}
      unused == Splits \ used
  IN \E em \in (IF Sample THEN {RandomElement(SUBSET unused)} ELSE {{}} \cup {{s} : s \in unused}) :
       case' = [versions |-> V, mode |-> mode, order |-> order, expected |-> MergeOp(V, mode), empties |-> em,
                single |-> Cardinality(used) = 1 /\ em = {}]

Pick ==
  /\ stage = "pick"
  /\ IF Sample
       THEN \E slots \in {RandSlots(stage)} :
              \E hashOf \in {[s \in slots |-> RandomElement(Hashes)]} :
                \E tsOrder \in {RandPerm(slots)} :
                  \E mode \in {RandomElement(Modes)} :
                    \E order \in {RandPerm({s[1] : s \in slots})} :
                      Emit(Build(slots, hashOf, tsOrder), mode, order)
       ELSE \E slots \in Inputs :
              \E hashOf \in [slots -> Hashes] :
                \E tsOrder \in Perms(slots) :
                  \E mode \in Modes :
                    \E order \in Perms({s[1] : s \in slots}) :
                      Emit(Build(slots, hashOf, tsOrder), mode, order)
  /\ stage' = "done"

GSpec == GInit /\ [][Pick]_<<case, stage>>

Dump == stage = "done" =>
          Serialize(<<case>>, OutFile,
                    [format |-> "NDJSON", charset |-> "UTF-8",
                     openOptions |-> <<"WRITE", "CREATE", "APPEND">>])

\* ---- properties of the specification itself, checked on every generated case
OrderIndependent ==
  stage = "done" =>
     \* exhaustive over the arrival orders within the enumeration bound; for sampled (larger) cases the
     \* chosen order, its reverse and two more random ones
     \A order \in (IF Sample THEN {case.order, Reverse(case.order), RandPerm({v.split : v \in case.versions}),
                                     RandPerm({v.split : v \in case.versions})}
                            ELSE Perms({v.split : v \in case.versions})) :
        MergeFold(case.versions, case.mode, order) = case.expected
MainSameInAllModes ==
  stage = "done" =>
     \A m \in Modes : ~MergeOp(case.versions, m).fails => MergeOp(case.versions, m).main = Main(case.versions)
IgnoreAddsNothing == stage = "done" => MergeOp(case.versions, "ignore").extras = {}
IdenticalNeverConflict ==
  stage = "done" =>
     \A x \in case.expected.extras :
        \E w \in case.expected.main : w.path = x.path /\ w.hash # x.hash
=============================================================================
