----------------------------- MODULE Gen_Merge -----------------------------
(* Enumerates merge inputs (which split uploaded which content for which    *)
(* path, in which order of upload times), conflict modes and arrival orders *)
(* of the splits' file lists; emits the result Merge!MergeOp defines.       *)
EXTENDS Merge, Json, IOUtils, SequencesExt

CONSTANTS OutFile, MaxVersions, Sample
VARIABLES case, stage

\* an input: a set of (split, path) pairs with a hash each, and a total order of upload times
Slots == Splits \X MPaths
Inputs == {s \in SUBSET Slots : Cardinality(s) >= 1 /\ Cardinality(s) <= MaxVersions}

Perms(S) == {f \in [1..Cardinality(S) -> S] : \A i, j \in 1..Cardinality(S) : i # j => f[i] # f[j]}

Build(slots, hashOf, tsOrder) ==
  {[split |-> tsOrder[i][1], path |-> tsOrder[i][2], hash |-> hashOf[tsOrder[i]], ts |-> i] : i \in DOMAIN tsOrder}

GInit == case = [none |-> TRUE] /\ stage = "pick"

\* completed splits that uploaded no file at all take part in the commit and contribute nothing
Emit(V, mode, order) ==
  LET used == {v.split : v \in V}
      unused == Splits \ used
  IN \E em \in (IF Sample THEN {RandomElement(SUBSET unused)} ELSE {{}} \cup {{s} : s \in unused}) :
       case' = [versions |-> V, mode |-> mode, order |-> order, expected |-> MergeOp(V, mode), empties |-> em,
                single |-> Cardinality(used) = 1 /\ em = {}]

Pick ==
  /\ stage = "pick"
  /\ IF Sample
       THEN \E slots \in {RandomElement(Inputs)} :
              \E hashOf \in {[s \in slots |-> RandomElement(Hashes)]} :
                \E tsOrder \in {RandomElement(Perms(slots))} :
                  \E mode \in {RandomElement(Modes)} :
                    \E order \in {RandomElement(Perms({s[1] : s \in slots}))} :
                      Emit(Build(slots, hashOf, tsOrder), mode, order)
       ELSE \E slots \in Inputs :
              \E hashOf \in [slots -> Hashes] :
                \E tsOrder \in Perms(slots) :
                  \E mode \in Modes :
                    \E order \in Perms({s[1] : s \in slots}) :
                      Emit(Build(slots, hashOf, tsOrder), mode, order)
  /\ stage' = "done"

GSpec == GInit /\ [][Pick]_<<case, stage>>

Dump == stage = "done" =>
          Serialize(<<case>>, OutFile,
                    [format |-> "NDJSON", charset |-> "UTF-8",
                     openOptions |-> <<"WRITE", "CREATE", "APPEND">>])

\* ---- properties of the specification itself, checked on every generated case
OrderIndependent ==
  stage = "done" =>
     \A order \in Perms({v.split : v \in case.versions}) :
        MergeFold(case.versions, case.mode, order) = case.expected
MainSameInAllModes ==
  stage = "done" =>
     \A m \in Modes : ~MergeOp(case.versions, m).fails => MergeOp(case.versions, m).main = Main(case.versions)
IgnoreAddsNothing == stage = "done" => MergeOp(case.versions, "ignore").extras = {}
IdenticalNeverConflict ==
  stage = "done" =>
     \A x \in case.expected.extras :
        \E w \in case.expected.main : w.path = x.path /\ w.hash # x.hash
=============================================================================
