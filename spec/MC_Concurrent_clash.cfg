\* Teeth: two uploads that (wrongly) share one bundle id. The properties must notice.
SPECIFICATION MCSpec
CONSTANTS
  E = 1
  Trees <- TreesSmall
  PreSeq <- PreSmall
  Order <- OrderNone
  Clients = {"c1", "c2"}
  Kinds = {"upload"}
  BundleName <- ClashBundle
INVARIANTS DisciplineOK NoFailure EachResultAsAlone VisibleIsSomeResult
CHECK_DEADLOCK TRUE
