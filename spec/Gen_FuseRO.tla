---------------------------- MODULE Gen_FuseRO ----------------------------
(* Behaviour generation for binding (A): a bundle (the upload history) and  *)
(* a program of mount operations, every operation carrying the result the   *)
(* specification defines for it in the bundle:                              *)
(*   lookup(node = parent, name)   found, kind, size       (LookupOp/AttrOp) *)
(*   getattr(node)                 kind, size                       (AttrOp) *)
(*   readdir(node = dir, k, cap)   children = ChildrenOp as {name, kind},   *)
(*                                 n = their number; the harness consumes k *)
(*                                 entries, then resumes at the offset of   *)
(*                                 the k-th with room for cap entries per   *)
(*                                 call (cap = 0: one large buffer)         *)
(*   read(node = file, off, len)   from, n = ReadRange (cells), size        *)
(* One finished behaviour = one NDJSON line                                 *)
(*   {conc, leafcells, files: [{p, size, tag}], prog: [step]}.              *)
(*                                                                          *)
(* Rand = FALSE (BFS): every bundle of 0..MaxFiles entries over the         *)
(* path pool (entries in pool order: each set of entries once), every size, *)
(* tag and concretisation, each with the COMPLETE operation table           *)
(* (FullProgram: every lookup of every name under every node, every         *)
(* getattr, every readdir(dir, k, cap), every read(file, off, len) up to    *)
(* past EOF).                                                               *)
(* Rand = TRUE (tlc -simulate): one random choice per step.  A file is      *)
(* added below an existing directory (siblings, nesting) through 0..MaxChain*)
(* new directories; then one directory receives BulkMin..BulkMax extra      *)
(* files f1..fn (many siblings); then MaxOps random operations of the kinds *)
(* in Kinds.                                                                *)
EXTENDS FuseRO, SequencesExt, Json, IOUtils, TLC

CONSTANTS MaxOps, MaxChain, MaxTries, MaxTotal, BulkMin, BulkMax, Concs, Caps, Kinds, Rand, OutFile

VARIABLES files,   \* the upload: sequence of [p, size, tag]
          prog,    \* the program so far
          stage,   \* start -> tree -> bulk -> prog -> done
          tries,   \* random: attempts to add a file; BFS: pool index of the last entry
          conc,    \* concretisation of cells the harness is to use
          want     \* random: number of entries aimed at

gvars == <<b, files, prog, stage, tries, conc, want>>

\* RandomElement is re-evaluated at every occurrence: bind it once
Pick(S) == IF Rand THEN {RandomElement(S)} ELSE S

GInit == /\ Init
         /\ files = <<>> /\ prog = <<>> /\ stage = "start" /\ tries = 0 /\ conc = "" /\ want = 0

----------------------------------------------------------------------------
(* steps: one record shape for all operations *)

Blank == [op |-> "", node |-> <<>>, name |-> "", found |-> FALSE, kind |-> "", size |-> 0,
          k |-> 0, cap |-> 0, children |-> {}, off |-> 0, len |-> 0, from |-> 0, n |-> 0]

LastOf(p) == p[Len(p)]

LookupStep(parent, nm) ==
  LET r == LookupOp(b, parent, nm)
      a == AttrOp(b, r.node) IN
  [Blank EXCEPT !.op = "lookup", !.node = parent, !.name = nm, !.found = r.found,
                !.kind = IF r.found THEN a.kind ELSE "",
                !.size = IF r.found THEN a.size ELSE 0]

GetattrStep(nd) ==
  LET a == AttrOp(b, nd) IN
  [Blank EXCEPT !.op = "getattr", !.node = nd, !.kind = a.kind, !.size = a.size]

ReaddirStep(d, k, cap) ==
  [Blank EXCEPT !.op = "readdir", !.node = d, !.k = k, !.cap = cap,
                !.children = {[name |-> LastOf(c), kind |-> AttrOp(b, c).kind] : c \in ChildrenOp(b, d)},
                !.n = Cardinality(ChildrenOp(b, d))]

ReadStep(f, off, len) ==
  LET r == ReadRange(b, f, off, len) IN
  [Blank EXCEPT !.op = "read", !.node = f, !.off = off, !.len = len,
                !.from = r.from, !.n = r.n, !.size = b[f].size]

FileRec(p, f) == [p |-> p, size |-> f.size, tag |-> f.tag]

BulkName(i) == "f" \o ToString(i)

NoName == "zz"      \* a name no entry has

----------------------------------------------------------------------------
(* BFS: every bundle within the bound, complete operation table *)

PoolSeq == SetToSeq(PathPool)

FullProgram ==
  SetToSeq({LookupStep(nd, nm) : nd \in Nodes(b), nm \in Names \cup {NoName}})
  \o SetToSeq({GetattrStep(nd) : nd \in Nodes(b)})
  \o SetToSeq(UNION {{ReaddirStep(d, k, cap) : k \in 0..Cardinality(ChildrenOp(b, d)), cap \in Caps} : d \in Dirs(b)})
  \o SetToSeq(UNION {{ReadStep(f, off, len) : off \in 0..(b[f].size + 1), len \in 0..(b[f].size + 2)} : f \in Files(b)})

BfsStart == /\ stage = "start"
            /\ \E c \in Concs : conc' = c
            /\ stage' = "tree"
            /\ UNCHANGED <<b, files, prog, tries, want>>

BfsAdd == /\ stage = "tree"
          /\ Len(files) < MaxFiles
          /\ \E i \in (tries + 1)..Len(PoolSeq) : \E s \in Sizes : \E t \in Tags :
               /\ AddFile(PoolSeq[i], [size |-> s, tag |-> t])
               /\ files' = Append(files, FileRec(PoolSeq[i], [size |-> s, tag |-> t]))
               /\ tries' = i
          /\ UNCHANGED <<prog, stage, conc, want>>

BfsProg == /\ stage = "tree"       \* the empty bundle included
           /\ prog' = FullProgram
           /\ stage' = "done"
           /\ UNCHANGED <<b, files, tries, conc, want>>

----------------------------------------------------------------------------
(* random walks *)

RndStart == /\ stage = "start"
            /\ \E c \in Pick(Concs) : conc' = c
            /\ \E w \in Pick(1..MaxFiles) : want' = w
            /\ stage' = "tree"
            /\ UNCHANGED <<b, files, prog, tries>>

RndAdd ==
  /\ stage = "tree"
  /\ \E parent \in Pick(Dirs(b)) : \E c \in Pick(0..MaxChain) : \E chain \in Pick([1..c -> Names]) :
     \E nm \in Pick(Names) : \E s \in Pick(Sizes) : \E t \in Pick(Tags) :
       LET p == parent \o chain \o <<nm>>
           f == [size |-> s, tag |-> t]
           ok == CanAdd(b, p) /\ Len(p) <= MaxDepth
           cnt == Len(files) + (IF ok THEN 1 ELSE 0) IN
       /\ IF ok THEN AddFile(p, f) /\ files' = Append(files, FileRec(p, f))
                ELSE UNCHANGED <<b, files>>
       /\ tries' = tries + 1
       /\ stage' = IF cnt >= want \/ tries + 1 >= MaxTries THEN "bulk" ELSE "tree"
  /\ UNCHANGED <<prog, conc, want>>

BulkRoom == MinOf(BulkMax, MaxTotal - Len(files))

RndBulk ==
  /\ stage = "bulk"
  /\ IF BulkRoom < BulkMin \/ BulkRoom = 0
       THEN UNCHANGED <<b, files>>
       ELSE \E d \in Pick({x \in Dirs(b) : Len(x) < MaxDepth}) : \E n \in Pick(BulkMin..BulkRoom) :
              LET new == {Append(d, BulkName(i)) : i \in 1..n}
                  fl(i) == [size |-> i % 3, tag |-> 1] IN
              /\ b' = [q \in (DOMAIN b) \cup new |->
                         IF q \in DOMAIN b THEN b[q]
                         ELSE fl(CHOOSE i \in 1..n : q = Append(d, BulkName(i)))]
              /\ files' = files \o [i \in 1..n |-> FileRec(Append(d, BulkName(i)), fl(i))]
  /\ stage' = "prog"
  /\ UNCHANGED <<prog, tries, conc, want>>

\* a name for a lookup under parent: mostly an existing child, else anything
RndName(parent, coin) ==
  IF coin > 0 /\ ChildrenOp(b, parent) # {}
    THEN {LastOf(c) : c \in Pick(ChildrenOp(b, parent))}
    ELSE Pick(Names \cup {NoName, BulkName(1)})

RndOp ==
  /\ stage = "prog"
  /\ Len(prog) < MaxOps
  /\ \E kind \in Pick(Kinds) :    \* 1-3 lookup, 4 getattr, 5-6 readdir, 7-8 read
       \E st \in
         CASE kind \in {1, 2, 3} ->
                UNION {UNION {{LookupStep(parent, nm) : nm \in RndName(parent, coin)} : coin \in Pick(0..2)}
                       : parent \in Pick(Nodes(b))}
           [] kind = 4 -> {GetattrStep(nd) : nd \in Pick(Nodes(b))}
           [] kind \in {5, 6} ->
                UNION {UNION {{ReaddirStep(d, k, cap) : cap \in Pick(Caps)}
                              : k \in Pick(0..Cardinality(ChildrenOp(b, d)))} : d \in Pick(Dirs(b))}
           [] OTHER ->
                IF Files(b) = {} THEN {GetattrStep(Root)}
                ELSE UNION {UNION {{ReadStep(f, off, len) : len \in Pick(0..(b[f].size + 2))}
                                   : off \in Pick(0..(b[f].size + 1))} : f \in Pick(Files(b))} :
         prog' = Append(prog, st)
  /\ UNCHANGED <<b, files, stage, tries, conc, want>>

RndDone == /\ stage = "prog"
           /\ Len(prog) >= MaxOps
           /\ stage' = "done"
           /\ UNCHANGED <<b, files, prog, tries, conc, want>>

----------------------------------------------------------------------------
GNext == IF Rand THEN RndStart \/ RndAdd \/ RndBulk \/ RndOp \/ RndDone
                 ELSE BfsStart \/ BfsAdd \/ BfsProg

GSpec == GInit /\ [][GNext]_gvars

Dump == stage = "done" =>
          Serialize(<<[conc |-> conc, leafcells |-> L, files |-> files, prog |-> prog]>>, OutFile,
                    [format |-> "NDJSON", charset |-> "UTF-8",
                     openOptions |-> <<"WRITE", "CREATE", "APPEND">>])
=============================================================================
