---------------------------- MODULE Gen_Tracker ----------------------------
(* Behaviour generation for binding (A): write sequences, every step       *)
(* carrying what the specification defines for every probe offset after    *)
(* the write:                                                              *)
(*   o, n : the write (offset, length)                                     *)
(*   m    : ModifiedOp per probe offset 0..N+1 (1 = modified, 0 = base)    *)
(*   c    : ContigBound per probe offset 0..N+1 (0 = Unbounded)            *)
(* BFS mode (Rand = FALSE) enumerates every sequence of exactly MaxW       *)
(* writes once; every shorter sequence is a prefix of one of them and the  *)
(* harness compares after every step, so all sequences of <= MaxW writes   *)
(* are covered.  Simulation mode (Rand = TRUE, tlc -simulate) draws each    *)
(* write at random: one successor per step.  A finished history is written *)
(* as one NDJSON line.                                                     *)
EXTENDS Tracker, Sequences, Json, IOUtils, TLC

CONSTANTS MaxW, Rand, OutFile
VARIABLES hist, stage

gvars == <<written, hist, stage>>

GInit == Init /\ hist = <<>> /\ stage = "run"

StepRec(o, n, w) ==
  [o |-> o, n |-> n,
   m |-> [p \in 1..(N + 2) |-> IF ModifiedOp(w, p - 1) THEN 1 ELSE 0],
   c |-> [p \in 1..(N + 2) |-> ContigBound(w, p - 1)]]

GWrite(o, n) ==
  /\ Write(o, n)
  /\ hist' = Append(hist, StepRec(o, n, written \cup Cover(o, n)))

\* RandomElement is re-evaluated at every occurrence: bind it once
Pick(S) == IF Rand THEN {RandomElement(S)} ELSE S

GNext == /\ stage = "run"
         /\ IF Len(hist) < MaxW
              THEN (\E o \in Pick(Offs) : \E n \in Pick(Lens) : GWrite(o, n)) /\ UNCHANGED stage
              ELSE stage' = "done" /\ UNCHANGED <<written, hist>>

GSpec == GInit /\ [][GNext]_gvars

Dump == stage = "done" =>
          Serialize(<<hist>>, OutFile,
                    [format |-> "NDJSON", charset |-> "UTF-8",
                     openOptions |-> <<"WRITE", "CREATE", "APPEND">>])
=============================================================================
