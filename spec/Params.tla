------------------------------- MODULE Params -------------------------------
(* C21  Sidecar parameters survive environment-variable encoding.            *)
(*                                                                           *)
(* The env-var format of the sidecar (pkg/sidecar/param/params.go, decoded   *)
(* by deserialize_dict in hack/fuse-demo/wrap_datamon.sh):                   *)
(*   s[1] = item separator, s[2] = key/value separator, neither may be ".";  *)
(*   the rest is a list of items separated by the item separator; empty      *)
(*   items are dropped; an item without key/value separator is a flag; an    *)
(*   item with one is key = text before the first separator, value = text    *)
(*   between the first and the second one (cut -f 2); a later item           *)
(*   overwrites an earlier one with the same key.                            *)
(*                                                                           *)
(* A string is a sequence of one-character strings (characters are opaque    *)
(* tokens; only equality is used).                                           *)
(*                                                                           *)
(* A *unit* is the parameter list that goes into one environment variable: a *)
(* sequence of fields                                                        *)
(*   [name, key, kind, val, on, opt, sig]                                    *)
(* kind = "flag": given iff on;  kind = "val": given iff val # <<>>.         *)
(* key = <<>> marks a parameter of the API for which no option name is       *)
(* documented: any key that is not a documented one is accepted for it.      *)
(* opt = TRUE marks a given field whose value is the type's zero value       *)
(* (boolean false, port 0): it may be encoded or left out.                   *)
EXTENDS Naturals, Sequences, FiniteSets

Dot == "."

-----------------------------------------------------------------------------
(* generic string helpers *)

Occurs(c, s) == \E i \in 1..Len(s) : s[i] = c

RECURSIVE SplitFrom(_, _, _)
\* the maximal pieces of s[from..] between occurrences of c (empty pieces included)
SplitFrom(s, c, from) ==
  LET idx == { i \in from..Len(s) : s[i] = c }
  IN IF idx = {} THEN <<SubSeq(s, from, Len(s))>>
     ELSE LET i == CHOOSE x \in idx : \A y \in idx : x <= y
          IN <<SubSeq(s, from, i-1)>> \o SplitFrom(s, c, i+1)
SplitOn(s, c) == SplitFrom(s, c, 1)

RECURSIVE Join(_, _)
Join(items, c) ==
  IF items = <<>> THEN <<>>
  ELSE IF Len(items) = 1 THEN items[1]
  ELSE items[1] \o <<c>> \o Join(Tail(items), c)

Digits == <<"0", "1", "2", "3", "4", "5", "6", "7", "8", "9">>
RECURSIVE Dec(_)
Dec(n) == IF n < 10 THEN <<Digits[n+1]>> ELSE Dec(n \div 10) \o <<Digits[(n % 10) + 1]>>

-----------------------------------------------------------------------------
(* the documented format: reference decoder *)

WellFormed(s) == Len(s) >= 2 /\ s[1] # Dot /\ s[2] # Dot
ItemSep(s) == s[1]
KvSep(s)   == s[2]
Body(s)    == SubSeq(s, 3, Len(s))

Items(s) == SelectSeq(SplitOn(Body(s), ItemSep(s)), LAMBDA it : it # <<>>)

RECURSIVE SplitEach(_, _)
\* every item cut at the key/value separator (a tuple, evaluated once)
SplitEach(its, kv) ==
  IF its = <<>> THEN <<>> ELSE <<SplitOn(its[1], kv)>> \o SplitEach(Tail(its), kv)

\* Decode(s): function from keys to [flag, val]; precondition WellFormed(s)
\* key = field 1; an item with a separator has value = field 2 (only field 2
\* is kept), an item without one is a flag; the last item of a key wins
Decode(s) ==
  LET parts == SplitEach(Items(s), KvSep(s))
      n     == Len(parts)
      keys  == { parts[i][1] : i \in 1..n }
      Last(k) == CHOOSE i \in 1..n :
                   /\ parts[i][1] = k
                   /\ \A j \in (i+1)..n : parts[j][1] # k
      Entry(p) == IF Len(p) > 1 THEN [flag |-> FALSE, val |-> p[2]]
                               ELSE [flag |-> TRUE,  val |-> <<>>]
  IN [k \in keys |-> Entry(parts[Last(k)])]

-----------------------------------------------------------------------------
(* what must come back: the non-empty parameters that were given + flags *)

IsGiven(f) == IF f.kind = "flag" THEN f.on ELSE f.val # <<>>
Given(U) == SelectSeq(U, IsGiven)
EntryOf(f) == IF f.kind = "flag" THEN [flag |-> TRUE, val |-> <<>>]
                                 ELSE [flag |-> FALSE, val |-> f.val]
AllKeys(U) == { U[i].key : i \in DOMAIN U } \ {<<>>}

\* Expected(U) as a dictionary, for units all of whose fields have a key
Expected(U) ==
  LET g == Given(U)
  IN [k \in { g[i].key : i \in DOMAIN g } |->
        EntryOf(g[CHOOSE i \in DOMAIN g : g[i].key = k])]

Injective(f) == \A a, b \in DOMAIN f : f[a] = f[b] => a = b

\* dec = Expected(U), generalised to fields without documented key and to
\* optional zero-valued fields
Matches(dec, U) ==
  LET g      == Given(U)
      named  == { i \in DOMAIN g : g[i].key # <<>> }
      unn    == DOMAIN g \ named
      extras == DOMAIN dec \ AllKeys(U)
  IN /\ <<>> \notin DOMAIN dec
     /\ \A i \in named : ~g[i].opt => g[i].key \in DOMAIN dec
     /\ \A i \in named : g[i].key \in DOMAIN dec => dec[g[i].key] = EntryOf(g[i])
     /\ (DOMAIN dec \cap AllKeys(U)) \subseteq { g[i].key : i \in named }
     /\ Cardinality(extras) = Cardinality(unn)
     /\ \E f \in [unn -> extras] :
          /\ Injective(f)
          /\ \A i \in unn : dec[f[i]] = [flag |-> FALSE, val |-> g[i].val]

\* no separator occurrence inside any key or value; separators not "."
Unambiguous(s, U) ==
  /\ Len(s) >= 2
  /\ LET is == s[1]
         kv == s[2]
         g  == Given(U)
     IN /\ is # Dot /\ kv # Dot
        /\ (\E i \in DOMAIN g : g[i].kind = "val") => is # kv
        /\ \A i \in DOMAIN g :
             /\ ~Occurs(is, g[i].key) /\ ~Occurs(kv, g[i].key)
             /\ g[i].kind = "val" => (~Occurs(is, g[i].val) /\ ~Occurs(kv, g[i].val))

-----------------------------------------------------------------------------
(* the shipped shell decoder's own constraints: the key/value separator is   *)
(* passed unquoted to `grep -q` (a basic regular expression) and `cut -d`    *)
(* (one single-byte delimiter): it must be one byte (code point < 128), not  *)
(* blank, and none of  $ . [ \ ^  (characters that are not literal when a    *)
(* basic regular expression consists of them alone).  Stated on the code     *)
(* point of the separator.                                                   *)
ShellSafe(cp) == cp \in 33..127 /\ cp \notin {36, 46, 91, 92, 94}
(* ... and it takes the variables from the lines of `export`, which it splits *)
(* with `cut -d '=' -f 2`: a separator equal to '=' - the encoder's choice,  *)
(* unlike the characters of the values - is cut away with all that follows.  *)
EnvLineSafe(cp) == cp # 61

-----------------------------------------------------------------------------
(* reference encoder (for model-checking the codec itself) *)

ItemOf(f, kv) == IF f.kind = "flag" THEN f.key ELSE f.key \o <<kv>> \o f.val
Raw(U, is, kv) ==
  LET g == Given(U)
  IN <<is, kv>> \o Join([i \in DOMAIN g |-> ItemOf(g[i], kv)], is)

Free(c, U) ==
  /\ c # Dot
  /\ \A i \in DOMAIN U : IsGiven(U[i]) => (~Occurs(c, U[i].key) /\ ~Occurs(c, U[i].val))

\* cands: sequence of distinct candidate separators, in order of preference
Encode(U, cands) ==
  LET free == SelectSeq(cands, LAMBDA c : Free(c, U))
  IN IF Len(free) < 2 THEN [ok |-> FALSE, s |-> <<>>]
                      ELSE [ok |-> TRUE,  s |-> Raw(U, free[1], free[2])]

(* as-is transcription of params.go: the separators are the first two        *)
(* candidates that occur in no VALUE; option names are not consulted and     *)
(* there is no check afterwards except "value contains a separator", which   *)
(* cannot fire.  Predictions only, never a verdict.                          *)
FreeAsIs(c, U) == \A i \in DOMAIN U : ~Occurs(c, U[i].val)
EncodeAsIs(U, cands) ==
  LET free == SelectSeq(cands, LAMBDA c : FreeAsIs(c, U))
  IN IF Len(free) < 2 THEN [ok |-> FALSE, s |-> <<>>]
                      ELSE [ok |-> TRUE,  s |-> Raw(U, free[1], free[2])]

-----------------------------------------------------------------------------
(* the sidecar's option names (FUSE ones are what wrap_datamon.sh reads) *)

F(n, k, kd, sg) == [name |-> n, key |-> k, kind |-> kd, sig |-> sg]

FuseGlobalFields == <<
  F("SleepInsteadOfExit", <<"S">>, "flag", ""),
  F("CoordPoint",        <<"c">>, "val", ""),
  F("ConfigBucketName",  <<"b">>, "val", ""),
  F("ContextName",       <<"a">>, "val", "") >>

FuseBundleFields == <<
  F("SrcPath",      <<"s","p">>, "val", ""),
  F("SrcRepo",      <<"s","r">>, "val", ""),
  F("SrcLabel",     <<"s","l">>, "val", ""),
  F("SrcBundle",    <<"s","b">>, "val", ""),
  F("DestPath",     <<"d","p">>, "val", ""),
  F("DestRepo",     <<"d","r">>, "val", ""),
  F("DestMessage",  <<"d","m">>, "val", ""),
  F("DestLabel",    <<"d","l">>, "val", ""),
  F("DestBundleID", <<"d","i","f">>, "val", "") >>

PGGlobalFields == <<
  F("SleepInsteadOfExit",      <<"S">>, "flag", ""),
  F("CoordPoint",              <<"c">>, "val", ""),
  F("IgnorePGVersionMismatch", <<"V">>, "bool", ""),
  F("ContributorName",         <<>>, "val", "params/pg-contributor-not-encoded"),
  F("ContributorEmail",        <<>>, "val", "params/pg-contributor-not-encoded") >>

PGDbFields == <<
  F("Port",         <<"p">>, "int", ""),
  F("DestMessage",  <<"m">>, "val", ""),
  F("DestLabel",    <<"l">>, "val", ""),
  F("DestRepo",     <<"r">>, "val", ""),
  F("SrcLabel",     <<"s","l">>, "val", ""),
  F("SrcRepo",      <<"s","r">>, "val", ""),
  F("SrcBundle",    <<"s","b">>, "val", ""),
  F("DestBundleID", <<>>, "val", "params/pg-dest-bundle-id-not-encoded") >>

True_  == <<"t","r","u","e">>
False_ == <<"f","a","l","s","e">>

\* the unit of a table and a record of logged field values
\* (strings as character sequences, flags/booleans as BOOLEAN, ports as Nat)
UnitOfLazy(fields, rec) ==
  [i \in DOMAIN fields |->
     LET f == fields[i]
         x == rec[f.name]
     IN CASE f.kind = "flag" -> [name |-> f.name, key |-> f.key, kind |-> "flag", val |-> <<>>,
                                 on |-> x, opt |-> FALSE, sig |-> f.sig]
          [] f.kind = "bool" -> [name |-> f.name, key |-> f.key, kind |-> "val",
                                 val |-> IF x THEN True_ ELSE False_,
                                 on |-> FALSE, opt |-> ~x, sig |-> f.sig]
          [] f.kind = "int"  -> [name |-> f.name, key |-> f.key, kind |-> "val", val |-> Dec(x),
                                 on |-> FALSE, opt |-> (x = 0), sig |-> f.sig]
          [] OTHER           -> [name |-> f.name, key |-> f.key, kind |-> "val", val |-> x,
                                 on |-> FALSE, opt |-> FALSE, sig |-> f.sig]]

\* (SelectSeq turns the function into a tuple of evaluated records)
UnitOf(fields, rec) == SelectSeq(UnitOfLazy(fields, rec), LAMBDA f : TRUE)

FuseGlobalVar == <<"d","m","_","f","u","s","e","_","o","p","t","s">>
FuseBundlePfx == <<"d","m","_","f","u","s","e","_","b","d","_">>
PGGlobalVar   == <<"d","m","_","p","g","_","o","p","t","s">>
PGDbPfx       == <<"d","m","_","p","g","_","d","b","_">>

PlainChars ==
    { "a", "b", "c", "d", "e", "f", "g", "h", "i", "j", "k", "l", "m", "n", "o", "p",
      "q", "r", "s", "t", "u", "v", "w", "x", "y", "z", "/", "-", "_" }
IsPlain(s) == \A i \in 1..Len(s) : s[i] \in PlainChars
=============================================================================
