SPECIFICATION Spec
CONSTANTS
  Splits = {"s1", "s2"}
  Runners = {"u1", "u2", "u3"}
  RunnerSplit <- MCRunnerSplit
  Committers = {"k1", "k2"}
  Cancelers = {"x1"}
  MaxRetry = 1
  FixedCommit = TRUE
INVARIANTS AtMostOneBundle AtMostOneSuccessfulCommit RefusedAfterTerminal BundleFromRecordedRuns CommitOkMeansDone
PROPERTIES TerminalStable DoneSplitImmutable
CHECK_DEADLOCK FALSE
