\* quick tier: 3 clients, one tree shared by every writer (identical content everywhere),
\* two index files per bundle (E = 1), assignments up to renaming of the clients.
\* thorough tier (c15.py substitutes constants): (a) TreesSmall, every assignment (OrderNone);
\* (b) TreesBig / PreBig with two entries per index file; (c) four clients (Order4), two entries per index file.
SPECIFICATION MCSpec
CONSTANTS
  E = 1
  Trees <- TreesOne
  PreSeq <- PreSmall
  Order <- Order3
  Clients = {"c1", "c2", "c3"}
  Kinds = {"upload", "split", "download", "label"}
  BundleName <- OwnBundle
INVARIANTS DisciplineOK VisibleComplete LabelsResolve DoneDiamondHasBundle DoneSplitComplete
           NoFailure EachResultAsAlone VisibleIsSomeResult PreExistingUntouched AnyOrder
PROPERTIES WriteOnce VisibleImmutable
CHECK_DEADLOCK TRUE
