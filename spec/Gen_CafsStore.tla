--------------------------- MODULE Gen_CafsStore ---------------------------
(* History generation for CafsStore.  A history is a sequence of steps       *)
(*   put / delete / clear / lose (mutations of the store),                    *)
(*   read (style "seq": Get + Read to EOF, "at": GetAt + one ReadAt),          *)
(*   has (opt "plain" | "roots" | "gather"), keys, rootkeys (queries),         *)
(* every step carrying the value the AS-IS specification defines (mutations   *)
(* carry the blob set afterwards).  Read steps carry `want`: whether the      *)
(* DESIRED behaviour (Delete removes only what no other stored object needs)  *)
(* would have made the read succeed; it is computed from an ideal store       *)
(* (iblobs, iobjs) that evolves next to the as-is one under the repaired      *)
(* Delete.                                                                    *)
(*                                                                            *)
(* Two ways of running it:                                                    *)
(*  - BFS (Walk = FALSE): every sequence of at most MaxLen mutation steps     *)
(*    (and read steps, for a shared instance) over the objects GObjs, each    *)
(*    exactly once, each followed by the full observation of the final state  *)
(*    (keys, rootkeys, has x option for every key, a read of every object);   *)
(*  - tlc -simulate (Walk = TRUE): random walks of MaxLen steps of all kinds  *)
(*    over the whole pool, followed by the same observation.                  *)
(* Keys and objects are written as indexes into `table` / `pool` of the       *)
(* header file (OutFile.hdr), written once per run.                           *)
EXTENDS CafsStore, SequencesExt, Json, IOUtils

CONSTANTS MaxLen, OutFile,
          Walk,      \* BOOLEAN
          GObjs,     \* objects the BFS acts on
          Loss       \* BFS: lose steps enabled
VARIABLES hist, stage,
          iblobs, iobjs      \* the ideal store (repaired Delete)

GPool == << <<1, 2, 3, 4>>, <<1, 2, 3, 5>>, <<1, 2, 3>>, <<1, 2, 3, 1, 2, 3>>, <<>>, <<7>>,
            <<1, 2, 3, 1, 2, 3, 4>>, <<9, 9, 9, 1, 2, 3>> >>

gvars == <<vars, hist, stage, iblobs, iobjs>>

KeyTable == SetToSeq(AllKeys)
KIdxTab == [k \in AllKeys |-> CHOOSE i \in DOMAIN KeyTable : KeyTable[i] = k]
KIdx(k) == KIdxTab[k]
IdxSet(S) == {KIdx(k) : k \in S}
IdxSeq(s) == [i \in DOMAIN s |-> KIdx(s[i])]
\* the keys of the objects the generation acts on
ActKeys == IF Walk THEN AllKeys ELSE UNION {BlobsOf(o) : o \in GObjs}
ActObjs == IF Walk THEN Objs ELSE GObjs

R(S) == RandomElement(S)
Log(r) == hist' = Append(hist, r)

GInit == /\ Init /\ hist = <<>> /\ stage = "run"
         /\ iblobs = {} /\ iobjs = {}

IdealSame == UNCHANGED <<iblobs, iobjs>>

\* ---------------------------------------------------------------- steps
GPut(o) ==
  /\ PutObj(o)
  /\ iblobs' = iblobs \cup BlobsOf(o) /\ iobjs' = iobjs \cup {o}
  /\ Log([op |-> "put", c |-> o, found |-> PutFound(o), blobs |-> IdxSet(blobs')])

GDelete(o) ==
  /\ DeleteObj(o)
  \* ideal: fails like the real one when the root blob is absent, otherwise removes what only o needs
  /\ IF RootKey(o) \in iblobs
       THEN /\ iblobs' = iblobs \ (BlobsOf(o) \ UNION {BlobsOf(p) : p \in iobjs \ {o}})
            /\ iobjs' = iobjs \ {o}
       ELSE IdealSame
  /\ Log([op |-> "delete", c |-> o, res |-> DeleteRes(o), blobs |-> IdxSet(blobs')])

GClear ==
  /\ Clear
  /\ iblobs' = {} /\ iobjs' = {}
  /\ Log([op |-> "clear", blobs |-> {}])

GLose(k) ==
  /\ k \in blobs
  /\ blobs' = blobs \ {k} /\ UNCHANGED <<objs, mode, kc, lc>>
  /\ iblobs' = iblobs \ {k} /\ UNCHANGED iobjs
  /\ Log([op |-> "lose", k |-> KIdx(k), blobs |-> IdxSet(blobs')])

\* want: the desired behaviour makes this read succeed; instore: the as-is store holds the whole object
ReadStep(o, s) == [op |-> "read", c |-> o, style |-> s, res |-> ReadRes(o, s),
                   want |-> ReadableOp(iblobs, o), instore |-> ReadableOp(blobs, o)]
GRead(o, s) ==
  /\ ReadObj(o, s) /\ IdealSame
  /\ Log(ReadStep(o, s))

HasStep(k, opt) ==
  [op |-> "has", k |-> KIdx(k), opt |-> opt,
   has |-> IF opt = "plain" THEN HasOp(blobs, k) ELSE HasRootOp(blobs, k),
   missing |-> IF opt = "gather" THEN IdxSeq(IncompleteOp(blobs, k)) ELSE <<>>]
KeysStep == [op |-> "keys", keys |-> IdxSet(KeysOp(blobs))]
RootKeysStep == [op |-> "rootkeys", keys |-> IdxSet(RootKeysOp(blobs))]

GQuery(step) == /\ UNCHANGED vars /\ IdealSame /\ Log(step)

Opts == {"plain", "roots", "gather"}

\* ---------------------------------------------------------------- the final observation
HasAll(k) == <<HasStep(k, "plain"), HasStep(k, "roots"), HasStep(k, "gather")>>
\* sequential reads of distinct objects do not influence each other (a read adds its own object
\* to the keys cache only); ReadAt is pure in a fresh instance only
ReadAll(o) == IF mode = "fresh" THEN <<ReadStep(o, "seq"), ReadStep(o, "at")>> ELSE <<ReadStep(o, "seq")>>
RECURSIVE HasSteps(_), ReadSteps(_)
HasSteps(s) == IF s = <<>> THEN <<>> ELSE HasAll(Head(s)) \o HasSteps(Tail(s))
ReadSteps(s) == IF s = <<>> THEN <<>> ELSE ReadAll(Head(s)) \o ReadSteps(Tail(s))
Observation ==
  <<KeysStep, RootKeysStep>> \o HasSteps(SetToSeq(ActKeys)) \o ReadSteps(SetToSeq(ActObjs))

GEnd == /\ stage = "run"
        /\ stage' = "done"
        /\ hist' = hist \o Observation
        /\ UNCHANGED vars /\ IdealSame

\* ---------------------------------------------------------------- next-state relations
\* BFS: mutations and reads only; every prefix is a history of its own
BStep == \/ \E o \in GObjs : GPut(o)
         \/ \E o \in GObjs : GDelete(o)
         \/ GClear
         \/ \E k \in blobs : Loss /\ GLose(k)
         \* a read changes nothing but the caches of a shared instance: in fresh mode the reads of the
         \* final observation (of this history and of its prefixes) say everything
         \/ \E o \in GObjs, s \in {"seq", "at"} : mode = "shared" /\ GRead(o, s)

\* walks: ONE random successor per state (the kind of step is drawn first, by weight); puts are more
\* frequent than deletes so that the store holds several objects
WStep ==
  \E n \in {R(1..41)}, o \in {R(Objs)}, po \in {R(objs \cup {1})}, k \in {R(AllKeys)},
     bk \in {R(blobs \cup {RootKey(1)})}, rk \in {R({RootKey(x) : x \in Objs})},
     s \in {R({"seq", "at"})}, opt \in {R(Opts)}, ropt \in {R(Opts \ {"plain"})} :
       IF n <= 9 THEN GPut(o)
       ELSE IF n <= 14 THEN GDelete(o)
       ELSE IF n <= 17 THEN GDelete(po)
       ELSE IF n = 18 THEN GClear
       ELSE IF n <= 20 THEN (IF bk \in blobs THEN GLose(bk) ELSE GPut(o))
       ELSE IF n <= 26 THEN GRead(o, s)
       ELSE IF n <= 30 THEN GRead(po, s)
       ELSE IF n <= 35 THEN GQuery(HasStep(k, opt))
       ELSE IF n <= 37 THEN GQuery(HasStep(rk, ropt))
       ELSE IF n <= 39 THEN GQuery(KeysStep)
       ELSE GQuery(RootKeysStep)

GNext == /\ stage = "run"
         /\ \/ /\ Len(hist) < MaxLen
               /\ (IF Walk THEN WStep ELSE BStep)
               /\ UNCHANGED stage
            \/ /\ (Walk => Len(hist) >= MaxLen)
               /\ GEnd

GSpec == GInit /\ [][GNext]_gvars

\* the header (key table, pool) is written once, when TLC starts; histories refer to it by index
JsonOpts == [format |-> "NDJSON", charset |-> "UTF-8", openOptions |-> <<"WRITE", "CREATE", "APPEND">>]
ASSUME Serialize(<<[table |-> KeyTable, pool |-> Pool]>>, OutFile \o ".hdr", JsonOpts)

Dump == stage = "done" => Serialize(<<[mode |-> mode, steps |-> hist]>>, OutFile, JsonOpts)

\* ---- checked while generating
\* the ideal store never loses an object to the deletion of another one: what it holds is exactly
\* what the stored objects need, minus what was lost
IdealExact == iblobs \subseteq UNION {BlobsOf(o) : o \in iobjs}
=============================================================================
