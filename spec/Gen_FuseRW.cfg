SPECIFICATION GSpec
CONSTANTS
  Names = {"a", "b"}
  MaxOps = 2
  MinOps = 3
  Rand = FALSE
  PreludeId = 0
  OutFile = "beh.ndjson"
  MaxDepth = 2
  Offs = {0, 1}
  Lens = {1, 2}
  Sizes = {0, 1, 3}
  FileParents = TRUE
INVARIANTS TreeWellFormed CountsNonNegative InoIffHeld LiveInodesDistinct HeldPinsParent
CONSTRAINT Dump
CHECK_DEADLOCK FALSE
