SPECIFICATION Spec
CONSTANTS
  L = 3
  Pool <- MCPoolQuick
  Modes = {"fresh"}
  Lossy = TRUE
  Repaired = TRUE
INVARIANTS TypeOK ReadableReads FreshReadsExact KeysExact RootKeysExact IncompleteExact StoreExact
PROPERTIES PutMakesReadable DeleteKeepsOthers
CHECK_DEADLOCK FALSE
