SPECIFICATION MCSpec
CONSTANTS
  Clients = {a1, a2, a3}
  Lookback = 1
  TPS = 2
  MaxPerList = 1000
  NoPay <- MCNoPay
  MaxAdds = 1
  MaxClock = 4
  TickSteps = {1, 3}
  Nonces = {0, 1}
  Maxes = {1, 2, 1000}
  MaxAddSecs = 1
  WithReader = FALSE
INVARIANTS TypeOK TokensUnique LaterSecondSortsAfter IssuedStored GenBehindClock
PROPERTIES AppendOnly GenMonotone
CHECK_DEADLOCK FALSE
