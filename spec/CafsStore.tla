----------------------------- MODULE CafsStore -----------------------------
(* The maintenance side of the content-addressable store (pkg/cafs.Fs        *)
(* beyond Put/Get): Has (plain, HasOnlyRoots, HasGatherIncomplete), Keys,    *)
(* RootKeys, Delete, Clear, in ONE blob store holding several objects that   *)
(* share leaves (deduplication), and what reads see afterwards.              *)
(*                                                                           *)
(* The layout (leaf keys, root key, root blob) is that of Cafs.tla: a        *)
(* content is a sequence of cells, a leaf holds L cells, a key is the        *)
(* abstract record of what the BLAKE2b tree mode hashes.  Two objects share  *)
(* a leaf iff they have the same cells at the same leaf index.               *)
(*                                                                           *)
(* The specification is AS-IS: every action and result operator says what    *)
(* the code does (pkg/cafs/cafs.go), including what is not desirable:        *)
(*  - Delete(root) deletes every leaf listed by the root blob, then the      *)
(*    root: leaves shared with other objects disappear with it;              *)
(*  - a store Delete of an absent blob is an error: Delete of an object      *)
(*    that lost a leaf stops there, having deleted the leaves before it;     *)
(*  - "is a root" is decided by parsing the blob and requiring at least one  *)
(*    leaf key: the root of the EMPTY object is never reported as a root;    *)
(*  - one Fs instance caches root -> leaf keys (filled by Put and by         *)
(*    readers) and leaf buffers (filled by ReadAt); neither Delete nor       *)
(*    Clear invalidates them.                                                *)
(* The DESIRED properties (DeleteKeepsOthers, RootKeysAll) are stated next   *)
(* to the as-is ones and refuted by TLC in configurations of their own; the  *)
(* repaired Delete (DeleteObjRefcounted) is specified and satisfies them.    *)
EXTENDS Naturals, Sequences, FiniteSets, TLC

CONSTANTS L,        \* cells per leaf
          Pool,     \* sequence of contents (sequences of cells); objects are named by their index
          Modes,    \* subset of {"fresh", "shared"}: every read by an Fs instance of its own (nothing cached)
                    \* / one instance for all calls (its caches live as long as the history)
          Lossy,    \* BOOLEAN: blobs may disappear (incomplete objects)
          Repaired  \* BOOLEAN: Delete is DeleteObjRefcounted instead of the as-is DeleteObj

VARIABLES blobs,    \* set of blob keys present in the store
          objs,     \* indexes of the objects put and not deleted (successfully) since
          mode,     \* "fresh" | "shared"
          kc,       \* shared mode: objects whose leaf keys are in the instance's keys cache
          lc        \* shared mode: leaf keys whose data is in the instance's leaf cache

vars == <<blobs, objs, mode, kc, lc>>

\* ------------------------------------------------------------------ layout
\* the layout operators of Cafs.tla; its writer state is not used here
Lay == INSTANCE Cafs WITH L <- L, MaxN <- 0, Conc <- {}, Chunks <- {},
         content <- <<>>, cc <- 0, delivered <- 0, pending <- 0, buf <- 0, started <- 0,
         inflight <- {}, flushed <- <<>>, blobs <- <<>>, phase <- "done", res <- <<>>

Objs == DOMAIN Pool
\* constant tables (TLC evaluates them once)
LeafKeysTab == [o \in Objs |-> Lay!LeafKeys(Pool[o])]
RootKeyTab == [o \in Objs |-> Lay!RootKey(Pool[o])]
BlobsTab == [o \in Objs |-> Lay!BlobsOf(Pool[o])]
LeafKeys(o) == LeafKeysTab[o]
RootKey(o) == RootKeyTab[o]
BlobsOf(o) == BlobsTab[o]
LeafSet(o) == BlobsOf(o) \ {RootKey(o)}
AllKeys == UNION {BlobsTab[o] : o \in Objs}
AllLeaves == UNION {BlobsTab[o] \ {RootKeyTab[o]} : o \in Objs}

\* the bytes of a blob: a leaf holds its cells, a root blob the leaf keys followed by the root key
BlobData(k) == IF k.depth = 1 THEN Append(k.data, k) ELSE k.data

\* LeavesForHash(k): the blob of k parsed as a root blob of k: defined iff k is present and
\* its blob ends with k itself (ASSUMPTION: the bytes of a leaf never look like a root blob)
ParsesAsRoot(bl, k) == k \in bl /\ k.depth = 1
LeavesOfRoot(k) == k.data          \* sequence of leaf keys

\* ------------------------------------------------------------------ result operators
HasOp(bl, k) == k \in bl
\* Has with HasOnlyRoots: present, parses as a root AND lists at least one leaf
HasRootOp(bl, k) == ParsesAsRoot(bl, k) /\ Len(LeavesOfRoot(k)) > 0
\* Has with HasGatherIncomplete: the leaves of the root that are absent, in order
RECURSIVE Filter(_, _)
Filter(s, bl) == IF s = <<>> THEN <<>>
                 ELSE (IF Head(s) \in bl THEN <<>> ELSE <<Head(s)>>) \o Filter(Tail(s), bl)
IncompleteOp(bl, k) == IF HasRootOp(bl, k) THEN Filter(LeavesOfRoot(k), bl) ELSE <<>>

KeysOp(bl) == bl
RootKeysOp(bl) == {k \in bl : HasRootOp(bl, k)}

\* an object can be read back from the store alone
ReadableOp(bl, o) == BlobsOf(o) \subseteq bl

\* index of the first leaf of o satisfying ~ok, or 0
FirstBad(o, ok(_)) ==
  LET bad == {i \in DOMAIN LeafKeys(o) : ~ok(LeafKeys(o)[i])}
  IN IF bad = {} THEN 0 ELSE CHOOSE i \in bad : \A j \in bad : i <= j

\* what one read of object o gives: "noget" (Get/GetAt fails: leaf keys cannot be resolved),
\* "noread" (a leaf cannot be fetched), "ok" (the content comes back)
KeysResolvable(o) == (mode = "shared" /\ o \in kc) \/ RootKey(o) \in blobs
SeqAvail(k) == k \in blobs                          \* Read does not use the leaf cache
AtAvail(k) == k \in blobs \/ (mode = "shared" /\ k \in lc)
ReadRes(o, style) ==
  IF ~KeysResolvable(o) THEN "noget"
  ELSE IF style = "seq" THEN (IF FirstBad(o, SeqAvail) = 0 THEN "ok" ELSE "noread")
  ELSE (IF FirstBad(o, AtAvail) = 0 THEN "ok" ELSE "noread")

\* ------------------------------------------------------------------ actions
Init == /\ blobs = {} /\ objs = {} /\ kc = {} /\ lc = {}
        /\ mode \in Modes

PutFound(o) == RootKey(o) \in blobs
PutObj(o) ==
  /\ blobs' = blobs \cup BlobsOf(o)
  /\ objs' = objs \cup {o}
  /\ kc' = IF mode = "shared" THEN kc \cup {o} ELSE kc
  /\ UNCHANGED <<mode, lc>>

\* AS-IS Delete: resolve the leaf keys from the root blob in the store (error if absent), delete
\* every leaf in order (error at the first absent one), then the root
DeleteRes(o) == IF RootKey(o) \notin blobs THEN "err"
                ELSE IF FirstBad(o, SeqAvail) # 0 THEN "err" ELSE "ok"
DeleteBlobs(o) ==
  IF RootKey(o) \notin blobs THEN blobs
  ELSE LET m == FirstBad(o, SeqAvail)
       IN IF m = 0 THEN blobs \ BlobsOf(o)
          ELSE blobs \ {LeafKeys(o)[i] : i \in 1..(m-1)}
DeleteObj(o) ==
  /\ blobs' = DeleteBlobs(o)
  /\ objs' = IF DeleteRes(o) = "ok" THEN objs \ {o} ELSE objs
  /\ UNCHANGED <<mode, kc, lc>>

\* REPAIRED Delete: remove the root and the leaves no OTHER stored object needs
NeededByOthers(o) == UNION {BlobsOf(p) : p \in objs \ {o}}
DeleteObjRefcounted(o) ==
  /\ blobs' = blobs \ (BlobsOf(o) \ NeededByOthers(o))
  /\ objs' = objs \ {o}
  /\ UNCHANGED <<mode, kc, lc>>

Del(o) == IF Repaired THEN DeleteObjRefcounted(o) ELSE DeleteObj(o)

Clear ==
  /\ blobs' = {} /\ objs' = {}
  /\ UNCHANGED <<mode, kc, lc>>

\* a blob disappears (environment): the objects using it become incomplete
LoseBlob(k) ==
  /\ Lossy /\ k \in blobs
  /\ blobs' = blobs \ {k}
  /\ UNCHANGED <<objs, mode, kc, lc>>

\* reads change the caches of a shared instance only
ReadObj(o, style) ==
  /\ kc' = IF mode = "shared" /\ ReadRes(o, style) # "noget" THEN kc \cup {o} ELSE kc
  /\ lc' = IF mode = "shared" /\ style = "at" /\ ReadRes(o, style) # "noget"
             THEN LET m == FirstBad(o, AtAvail)
                      upto == IF m = 0 THEN Len(LeafKeys(o)) ELSE m - 1
                  IN lc \cup {LeafKeys(o)[i] : i \in 1..upto}
             ELSE lc
  /\ UNCHANGED <<blobs, objs, mode>>

Next == \/ \E o \in Objs : PutObj(o) \/ Del(o)
        \/ Clear
        \/ \E k \in blobs : LoseBlob(k)
        \/ \E o \in Objs, s \in {"seq", "at"} : ReadObj(o, s)

Spec == Init /\ [][Next]_vars

\* ------------------------------------------------------------------ properties
TypeOK == /\ blobs \subseteq AllKeys /\ objs \subseteq Objs
          /\ mode \in {"fresh", "shared"}
          /\ kc \subseteq Objs /\ lc \subseteq AllLeaves
          /\ (mode = "fresh" => kc = {} /\ lc = {})

\* after Put(o), o is readable (whatever was lost or deleted before), by both read styles
PutMakesReadable ==
  [][\A o \in Objs : PutObj(o) => /\ ReadableOp(blobs', o)
                                  /\ \A k \in BlobsOf(o) : HasOp(blobs', k)
                                  /\ IncompleteOp(blobs', RootKey(o)) = <<>>]_vars
\* ... and says so: a readable object is read "ok" by both styles
ReadableReads ==
  \A o \in Objs : ReadableOp(blobs, o) => ReadRes(o, "seq") = "ok" /\ ReadRes(o, "at") = "ok"
\* in a fresh instance nothing else is read "ok"
FreshReadsExact ==
  mode = "fresh" => \A o \in Objs, s \in {"seq", "at"} : (ReadRes(o, s) = "ok") <=> ReadableOp(blobs, o)

\* Keys lists the blobs present, each of which belongs to some object that was put (no garbage)
KeysExact == /\ KeysOp(blobs) = {k \in AllKeys : HasOp(blobs, k)}
             /\ KeysOp(blobs) \subseteq UNION {BlobsOf(o) : o \in objs}

\* RootKeys: the root of every stored NON-EMPTY object whose root blob is present is listed, no
\* leaf is listed, and (as-is) the root of the empty object is not
RootKeysExact ==
  /\ \A o \in Objs : (RootKey(o) \in blobs /\ Pool[o] # <<>>) => RootKey(o) \in RootKeysOp(blobs)
  /\ RootKeysOp(blobs) \cap AllLeaves = {}
  /\ RootKeysOp(blobs) \subseteq {RootKey(o) : o \in objs}
  /\ \A o \in Objs : Pool[o] = <<>> => RootKey(o) \notin RootKeysOp(blobs)
\* HasGatherIncomplete reports no leaf iff the object is readable
IncompleteExact ==
  \A o \in Objs : HasRootOp(blobs, RootKey(o)) =>
       ((IncompleteOp(blobs, RootKey(o)) = <<>>) <=> ReadableOp(blobs, o))

\* DESIRED: every stored object's root is listed by RootKeys (refuted: the empty object)
RootKeysAll == \A o \in Objs : RootKey(o) \in blobs => RootKey(o) \in RootKeysOp(blobs)

\* DESIRED: deleting one object leaves every other stored object readable
DeleteKeepsOthers ==
  [][\A o \in Objs : Del(o) => \A p \in objs \ {o} : ReadableOp(blobs, p) => ReadableOp(blobs', p)]_vars

\* with the repaired Delete and no losses the store is exactly the union of the stored objects
StoreExact == (Repaired /\ ~Lossy) => blobs = UNION {BlobsOf(o) : o \in objs}
\* DESIRED, for a shared instance: what is read "ok" is in the store (refuted as-is: caches survive Delete)
NoStaleRead == \A o \in Objs, s \in {"seq", "at"} : ReadRes(o, s) = "ok" => ReadableOp(blobs, o)
=============================================================================
