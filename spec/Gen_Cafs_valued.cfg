SPECIFICATION GSpec
CONSTANTS
  L = 3
  MaxN = 14
  Conc = {1, 2}
  Chunks = {0, 2}
  MaxPuts = 3
  EndEarly = FALSE
  Family = "valued"
  OutFile = "cafs_beh.ndjson"
INVARIANTS PutExact LeavesAreContent KeyFunctional FoundIffStoredBefore
PROPERTIES WriteOnce
CONSTRAINT Dump
CHECK_DEADLOCK FALSE
