SPECIFICATION GSpec
CONSTANTS
  Keys <- GKeys
  LPrefixes <- GPrefixes
  Vals = {1, 2, 3}
  Counts = {1, 2, 3, 9}
  MaxLen = 12
  OutFile = "beh.ndjson"
CONSTRAINT Dump
CHECK_DEADLOCK FALSE
