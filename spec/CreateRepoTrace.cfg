SPECIFICATION TSpec
CONSTANTS
  Keys = {}
  LPrefixes = {}
  Vals = {}
  Counts = {}
INVARIANT AtMostOneWinner
CONSTRAINT HighWater
POSTCONDITION PostCond
CHECK_DEADLOCK FALSE
