------------------------------ MODULE MC_Paths ------------------------------
(* C20, the specification itself: every object over the abstract domain is   *)
(* one state (kind, f); the invariants state the round trip, the absence of   *)
(* collisions, prefix isolation, reserved-path recognition and the safety of  *)
(* the name alphabets.  Names: every string up to MaxNameLen over one         *)
(* representative per character class; ids: KSUID tokens and the extreme      *)
(* literals; indexes: 0, 1, 999, 1000, 2^63, 2^64-1.                          *)
EXTENDS Paths

CONSTANTS MaxNameLen,     \* valid names: all strings up to this length over the class representatives
          MaxAnyLen       \* arbitrary names (valid or not): all strings up to this length
VARIABLES kind, f

Strings(alpha, n) == UNION { [1..k -> alpha] : k \in 1..n }

\* one representative per class of the documented alphabets
RepoAlpha == {"a", "Z", "7", "-", "<L>", "<N>", "<H>"}
LabelAlpha == RepoAlpha \cup {"_", "<C>"}
\* ... and of everything else (separators, hostile classes)
AnyAlpha == LabelAlpha \cup {"/", ".", " ", ":", "#", "<M>", "<S>", "<Z>", "<O>", "<D>", "<BAD>", "<LF>", "<NUL>"}

MinKsuid == S("000000000000000000000000000")
SomeKsuid == S("1Jbb3SicFGoKB7JQJZdCCwdBQwE")
Ids == {<<"<K1>">>, <<"<K2>">>, MinKsuid, MaxKsuid}
Indexes == {S("0"), S("1"), S("999"), S("1000"), S("9223372036854775808"), S("18446744073709551615")}

\* names that look like pieces of the grammar
Decoys == {S("splits"), S("bundles"), S("label"), S("repo"), S("r1"), S("r10"), S("r1-x"), S("bundle-files-0")}
Repos == Strings(RepoAlpha, MaxNameLen) \cup Decoys
Labels == Strings(LabelAlpha, MaxNameLen) \cup Decoys \cup {S("a_b"), S("split-done")}
SplitIds == {<<"<K1>">>, <<"<K3>">>, S("s1"), S("splits"), S("split-done"), S("a_b"), SomeKsuid}
RelPaths == {S("a"), S("d/a"), S("sp ace/x"), <<"<L>">>, S(".datamon"), S("a.yaml")}

Dom(x) ==
  CASE x = "repo" -> Repos
    [] x = "label" -> Labels
    [] x \in {"bundle", "diamond"} -> Ids
    [] x = "generation" -> {<<"<K2>">>, MaxKsuid}
    [] x = "split" -> SplitIds
    [] x = "index" -> Indexes
    [] x = "context" -> Strings(RepoAlpha, 1) \cup Decoys
    [] x = "path" -> RelPaths
DomK(k, x) == IF x \in FieldsOf(k) THEN (IF k = "pLabels" /\ x = "label" THEN Dom(x) \cup {<<>>} ELSE Dom(x))
              ELSE {<<>>}
CasesOfR(k, R) ==
  [repo : R, label : DomK(k, "label"), bundle : DomK(k, "bundle"), diamond : DomK(k, "diamond"),
   split : DomK(k, "split"), generation : DomK(k, "generation"), index : DomK(k, "index"),
   context : DomK(k, "context"), path : DomK(k, "path")]
CasesOf(k) == CasesOfR(k, DomK(k, "repo"))

ObjectKinds == ArchiveKinds \cup ContextKinds \cup ConsumableKinds \cup ReservedKinds \cup PurgeKinds
AllKinds == ObjectKinds \cup PrefixKinds

\* Two levels, so that TLC's workers share the evaluation: the initial states fix
\* the kind and the repository ("pick"), their successors are the objects.
VARIABLE stage
vars == <<stage, kind, f>>
Init ==
  /\ stage = "pick"
  /\ \/ kind \in AllKinds /\ \E r \in DomK(kind, "repo") : f = [NoFields EXCEPT !.repo = r]
     \/ kind \in {"nameRepo", "nameLabel"} /\ \E c \in AnyAlpha : f = [NoFields EXCEPT !.repo = <<c>>]
     \/ kind = "ALL" /\ f = NoFields
Next ==
  /\ stage = "pick" /\ stage' = "case" /\ kind' = kind
  /\ \/ kind \in AllKinds /\ f' \in CasesOfR(kind, {f.repo})
     \/ kind = "nameRepo" /\ \E n \in Strings(AnyAlpha, MaxAnyLen) :
                               n[1] = f.repo[1] /\ f' = [NoFields EXCEPT !.repo = n]
     \/ kind = "nameLabel" /\ \E n \in Strings(AnyAlpha, MaxAnyLen) :
                               n[1] = f.repo[1] /\ f' = [NoFields EXCEPT !.label = n]
     \/ kind = "ALL" /\ f' = f
Spec == Init /\ [][Next]_vars
Case == stage = "case"

SampleRepos == {S("r1"), S("r10"), S("r1-x"), S("splits"), <<"-">>}

\* ---- per-object invariants
InvParseInvertsBuild == (Case /\ kind \in AllKinds) => ParseInvertsBuild(kind, f)
InvReservedAreGenerated == (Case /\ kind \in AllKinds) => ReservedAreGenerated(kind, f)
\* candidates: the repositories whose name is a prefix or an extension of this one, and the sample
Related(r) == { SubSeq(r, 1, k) : k \in 1..Len(r) } \cup { r \o <<c>> : c \in RepoAlpha }
InvPrefixIsolation ==
  (Case /\ kind \in AllKinds) => \A r \in Related(f.repo) \cup SampleRepos : PrefixIsolation(kind, f, r)
InvValidCase == (Case /\ kind \in AllKinds) => ValidCase(kind, f)       \* the domain is made of valid values only
InvNames ==
  /\ (Case /\ kind = "nameRepo") => ValidNamesNeverContainSeparators("repo", f.repo)
  /\ (Case /\ kind = "nameLabel") => ValidNamesNeverContainSeparators("label", f.label)
  \* a repository name is a label name
  /\ (Case /\ kind = "nameRepo") => (ValidName("repo", f.repo) => ValidName("label", f.repo))

\* ---- global invariants, evaluated in the single state kind = "ALL"
NsCases(ns) ==
  UNION { { [kind |-> k, f |-> g] : g \in CasesOf(k) } : k \in { k2 \in ObjectKinds : Namespace(k2) = ns } }
\* NoCollision for every pair of objects of a namespace <=> as many paths as objects
InvNoCrossKindCollision ==
  (Case /\ kind = "ALL") =>
    \A ns \in {"metadata", "config", "consumable", "purge"} :
       Cardinality({ Build(c.kind, c.f) : c \in NsCases(ns) }) = Cardinality(NsCases(ns))
\* the operator form on a hostile sample (prefix-related names, decoys, every kind)
InvNoCollisionSample ==
  (Case /\ kind \in ObjectKinds) =>
    \A k2 \in { k \in ObjectKinds : Namespace(k) = Namespace(kind) } :
      \A r2 \in {S("r1"), S("r10"), f.repo} :
        LET f2 == Project(k2, [f EXCEPT !.repo = r2])
        IN  NoCollision(kind, f, k2, f2)
InvGeneratedExamples ==
  (Case /\ kind = "ALL") =>
    /\ ~GeneratedPath(S(".datamonrc")) /\ ~GeneratedPath(S("a/.datamon/x")) /\ ~GeneratedPath(S("..conflicts"))
    /\ ~GeneratedPath(S(".conflictsx")) /\ ~GeneratedPath(S("x")) /\ ~GeneratedPath(<<>>)
    /\ GeneratedPath(S("./.datamon/x")) /\ GeneratedPath(S("/.datamon")) /\ GeneratedPath(S(".conflicts"))
    /\ GeneratedPath(S(".checkpoints/x")) /\ GeneratedPath(S(".datamon")) /\ GeneratedPath(S(".datamon/"))
    /\ \A p \in {S(".datamonrc"), S("./.datamon/x"), S("/.datamon"), S(".conflicts"), S("..conflicts"), S(".datamon/")} :
         CleanPath(p)
    /\ \A p \in {S("//.datamon"), S(".//.conflicts"), S("a/../.datamon"), S("./"), S("/"), <<>>, S("a//b")} :
         ~CleanPath(p)
InvKsuidExamples ==
  (Case /\ kind = "ALL") =>
    /\ IsKsuid(MinKsuid) /\ IsKsuid(MaxKsuid) /\ IsKsuid(SomeKsuid) /\ IsKsuid(<<"<K1>">>)
    /\ ~IsKsuid(S("aWgEPTl1tmebfsQzFP4bxwgy80W")) /\ ~IsKsuid(S("1Jbb3SicFGoKB7JQJZdCCwdBQw"))
    /\ ~IsKsuid(S("1Jbb3SicFGoKB7JQJZdCCwdBQwE0")) /\ ~IsKsuid(<<>>) /\ ~IsKsuid(S("1Jbb3SicFGoKB7JQJZdCCwdBQw-"))
    /\ ValidIndex(Max64) /\ ~ValidIndex(S("18446744073709551616")) /\ ~ValidIndex(S("01")) /\ ~ValidIndex(<<>>)
    /\ AboveMaxInt64(S("9223372036854775808")) /\ ~AboveMaxInt64(MaxI64) /\ ~AboveMaxInt64(S("1000"))
=============================================================================
