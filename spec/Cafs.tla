------------------------------- MODULE Cafs -------------------------------
(* The content-addressable store (pkg/cafs): the writer state machine at   *)
(* the granularity of the code (Write calls of arbitrary size filling a     *)
(* leaf buffer, at most C concurrent leaf flushes completing in any order,  *)
(* Flush assembling the leaf keys and writing the root blob), the blob      *)
(* layout, and the read operators.                                          *)
(*                                                                          *)
(* Content is a sequence of cells; a leaf holds L cells.  With identity     *)
(* content (cell i has value i) any loss, duplication or reordering is      *)
(* visible in the data itself.  Keys are abstract records carrying what     *)
(* the BLAKE2b tree layout hashes: node offset, last-node flag, data.       *)
EXTENDS Naturals, Sequences, FiniteSets, TLC

CONSTANTS L,        \* cells per leaf
          MaxN,     \* maximal content length in cells
          Conc,     \* set of flush concurrency levels
          Chunks    \* allowed sizes of a Write call, 0 stands for "all that remains"

VARIABLES content,  \* the sequence of cells being stored
          cc,       \* flush concurrency of this writer
          delivered,\* cells handed to Write so far
          pending,  \* cells of the current Write call not yet copied (0: Write returned)
          buf,      \* cells in the leaf buffer
          started,  \* number of full leaves handed to a flush goroutine
          inflight, \* leaf indexes being flushed
          flushed,  \* leaf indexes in completion order
          blobs,    \* function: key -> data, the blob store
          phase,    \* "write" | "done"
          res       \* result of Put once done

wvars == <<content, cc, delivered, pending, buf, started, inflight, flushed, blobs, phase, res>>

Min(a, b) == IF a < b THEN a ELSE b
N == Len(content)

\* ---------------------------------------------------------------- layout
Cells(lo, hi) == IF hi < lo THEN <<>> ELSE SubSeq(content, lo, hi)

\* full leaf i (1-based): node offset i, never flagged last
FullLeafKey(c, i) == [depth |-> 0, off |-> i, last |-> FALSE, data |-> SubSeq(c, (i-1)*L + 1, i*L)]
\* trailing partial leaf after f full leaves: node offset f, flagged last
PartialLeafKey(c, f) == [depth |-> 0, off |-> f, last |-> TRUE, data |-> SubSeq(c, f*L + 1, Len(c))]

NFull(c) == Len(c) \div L
HasPartial(c) == Len(c) % L # 0

\* the leaf keys of a content, in order
LeafKeys(c) == [i \in 1..(NFull(c) + (IF HasPartial(c) THEN 1 ELSE 0)) |->
                  IF i <= NFull(c) THEN FullLeafKey(c, i) ELSE PartialLeafKey(c, NFull(c))]
\* the root key hashes the concatenated leaf keys (depth 1, offset 0, last)
RootKey(c) == [depth |-> 1, off |-> 0, last |-> TRUE, data |-> LeafKeys(c)]
\* the root blob: the leaf keys followed by the root key itself
RootBlob(c) == Append(LeafKeys(c), RootKey(c))

\* every blob a Put of c must leave in the store
BlobsOf(c) == {RootKey(c)} \cup {LeafKeys(c)[i] : i \in DOMAIN LeafKeys(c)}
BlobData(k) == k.data

\* ---------------------------------------------------------------- reads
\* what a random-access read of len cells at cell offset off must return
ReadAtOp(c, off, len) ==
  IF off >= Len(c) THEN <<>> ELSE SubSeq(c, off + 1, Min(off + len, Len(c)))
\* what a sequential read with a buffer of b cells may return at position pos:
\* any non-empty prefix of the remaining bytes that fits, EOF exactly at the end
ReadAllowed(c, pos, b, got, eof) ==
  /\ Len(got) <= b
  /\ got = SubSeq(c, pos + 1, pos + Len(got))
  /\ eof => pos + Len(got) = Len(c)
  /\ (Len(got) = 0 /\ b > 0) => eof

\* ---------------------------------------------------------------- writer

WriteReturned == pending = 0 /\ buf < L

ChunkSize(k) == IF k = 0 THEN N - delivered ELSE k

Deliver(k) ==
  /\ phase = "write" /\ WriteReturned
  /\ ChunkSize(k) >= 1 /\ ChunkSize(k) <= N - delivered
  /\ pending' = ChunkSize(k)
  /\ delivered' = delivered + ChunkSize(k)
  /\ UNCHANGED <<content, cc, buf, started, inflight, flushed, blobs, phase, res>>

\* the copy loop moves what fits into the buffer
Fill ==
  /\ pending > 0 /\ buf < L
  /\ LET c == Min(pending, L - buf)
     IN buf' = buf + c /\ pending' = pending - c
  /\ UNCHANGED <<content, cc, delivered, started, inflight, flushed, blobs, phase, res>>

\* a full buffer is handed to a flush goroutine as soon as a slot is free
StartFlush ==
  /\ buf = L /\ Cardinality(inflight) < cc
  /\ started' = started + 1
  /\ inflight' = inflight \cup {started + 1}
  /\ buf' = 0
  /\ UNCHANGED <<content, cc, delivered, pending, flushed, blobs, phase, res>>

Store(bl, k) == IF k \in DOMAIN bl THEN bl ELSE (k :> BlobData(k)) @@ bl

FlushDone(i) ==
  /\ i \in inflight
  /\ inflight' = inflight \ {i}
  /\ flushed' = Append(flushed, [count |-> i, key |-> FullLeafKey(content, i)])
  /\ blobs' = Store(blobs, FullLeafKey(content, i))
  /\ UNCHANGED <<content, cc, delivered, pending, buf, started, phase, res>>

\* Flush: waits for every flush goroutine, stores the partial leaf, assembles
\* the leaf keys BY INDEX, stores the root blob unless it is there already
Finish ==
  /\ phase = "write" /\ WriteReturned /\ delivered = N /\ inflight = {}
  /\ LET \* the code places each reported key at the index it was flushed under
         full == [i \in 1..Len(flushed) |->
                    (CHOOSE j \in DOMAIN flushed : flushed[j].count = i)]
         fullKeys == [i \in 1..Len(flushed) |-> flushed[full[i]].key]
         partial == [depth |-> 0, off |-> Len(fullKeys), last |-> TRUE,
                     data |-> SubSeq(content, delivered - buf + 1, delivered)]
         keys == IF buf > 0 THEN Append(fullKeys, partial) ELSE fullKeys
         withPartial == IF buf > 0 THEN Store(blobs, partial) ELSE blobs
         root == [depth |-> 1, off |-> 0, last |-> TRUE, data |-> keys]
         found == root \in DOMAIN blobs
     IN /\ blobs' = IF found THEN withPartial
                    ELSE (root :> Append(keys, root)) @@ withPartial
        /\ res' = [written |-> delivered, key |-> root, keys |-> keys, found |-> found]
  /\ phase' = "done"
  /\ UNCHANGED <<content, cc, delivered, pending, buf, started, inflight, flushed>>

WNext == \/ \E k \in Chunks : Deliver(k)
         \/ Fill \/ StartFlush
         \/ \E i \in inflight : FlushDone(i)
         \/ Finish

\* ---------------------------------------------------------------- properties
\* leaves in flight or stored are exactly chunks of the content
InflightAreChunks == \A i \in inflight : i <= started /\ i * L <= delivered - pending
\* once done: the result and the store are exactly what the layout says,
\* whatever the chunking, the concurrency and the completion order were
PutExact ==
  phase = "done" =>
     /\ res.written = N
     /\ res.key = RootKey(content)
     /\ res.keys = LeafKeys(content)
     /\ BlobsOf(content) \subseteq DOMAIN blobs
     /\ \A k \in BlobsOf(content) \ {RootKey(content)} : blobs[k] = k.data
     /\ blobs[RootKey(content)] = RootBlob(content)
\* concatenating the leaves gives back the content
RECURSIVE Concat(_)
Concat(ks) == IF ks = <<>> THEN <<>> ELSE Head(ks).data \o Concat(Tail(ks))
LeavesAreContent == phase = "done" => Concat(res.keys) = content
\* blobs are write-once
BlobsWriteOnce == [][\A k \in DOMAIN blobs : k \in DOMAIN blobs' /\ blobs'[k] = blobs[k]]_wvars
\* every leaf is flushed exactly once
FlushedOnce == \A i, j \in DOMAIN flushed : flushed[i].count = flushed[j].count => i = j
=============================================================================
