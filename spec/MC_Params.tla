----------------------------- MODULE MC_Params -----------------------------
(* The reference codec of Params.tla checked on itself, exhaustively over a  *)
(* small alphabet: every parameter list with two keyed values (one key a     *)
(* prefix of the other), and one flag, values of length <= MaxVal.           *)
(*   RoundTrip            Decode(Encode(U)) = Expected(U) whenever Encode    *)
(*                        succeeds, and the output is Unambiguous            *)
(*   EncodeFailsOnlyIfStuck  Encode fails only if fewer than two candidates  *)
(*                        are free                                           *)
(*   UnambiguousSufficient / UnambiguousNecessary: for ANY choice of         *)
(*                        separators, the raw encoding decodes to Expected   *)
(*                        iff it is Unambiguous (so the second conjunct of   *)
(*                        the oracle adds no demand of its own)              *)
(*   MatchesIsEquality    Matches(dec, U) is dec = Expected(U) when every    *)
(*                        field has a documented key and none is optional    *)
(*   AsIsRoundTrip        (separate cfg, expected to FAIL) the algorithm of  *)
(*                        params.go transcribed: a prediction, not a verdict *)
EXTENDS Params, TLC

CONSTANTS MaxVal

Alphabet == {":", ";", "S", "a", "b", "."}
\* order of preference = code-point order, as in params.go; "." is never free
Cands == <<":", ";", "S", "a", "b">>
CodeOf == (":" :> 58) @@ (";" :> 59) @@ ("S" :> 83) @@ ("a" :> 97) @@ ("b" :> 98) @@ ("." :> 46)

Vals == UNION { [1..n -> Alphabet] : n \in 0..MaxVal }

VARIABLES unit, stage
vars == <<unit, stage>>

Fld(n, k, kd, v, o) == [name |-> n, key |-> k, kind |-> kd, val |-> v, on |-> o, opt |-> FALSE, sig |-> ""]

\* two levels, so that the enumeration is spread over TLC's workers; the
\* invariants are evaluated in the states of both levels
MCInit == /\ stage = 0
          /\ \E v1 \in Vals :
               unit = << Fld("flag", <<"S">>, "flag", <<>>, FALSE),
                         Fld("one",  <<"a">>, "val", v1, FALSE),
                         Fld("two",  <<"a","b">>, "val", <<>>, FALSE) >>
MCNext == /\ stage = 0
          /\ stage' = 1
          /\ \E v2 \in Vals, o \in BOOLEAN :
               unit' = [unit EXCEPT ![1].on = o, ![3].val = v2]
MCSpec == MCInit /\ [][MCNext]_vars

RoundTrip ==
  LET e == Encode(unit, Cands)
  IN e.ok => /\ WellFormed(e.s)
             /\ Decode(e.s) = Expected(unit)
             /\ Matches(Decode(e.s), unit)
             /\ Unambiguous(e.s, unit)
             /\ ShellSafe(CodeOf[KvSep(e.s)])
             /\ EnvLineSafe(CodeOf[KvSep(e.s)])

EncodeFailsOnlyIfStuck ==
  ~Encode(unit, Cands).ok => Cardinality({ i \in 1..Len(Cands) : Free(Cands[i], unit) }) < 2

UnambiguousSufficient ==
  \A is, kv \in Alphabet :
    LET s == Raw(unit, is, kv)
    IN Unambiguous(s, unit) => (WellFormed(s) /\ Decode(s) = Expected(unit))

UnambiguousNecessary ==
  \A is, kv \in Alphabet :
    LET s == Raw(unit, is, kv)
    IN (WellFormed(s) /\ Decode(s) = Expected(unit)) => Unambiguous(s, unit)

MatchesIsEquality ==
  \A is, kv \in Alphabet \ {Dot} :
    LET s == Raw(unit, is, kv)
    IN Matches(Decode(s), unit) <=> (Decode(s) = Expected(unit))

AsIsRoundTrip ==
  LET e == EncodeAsIs(unit, Cands)
  IN e.ok => (WellFormed(e.s) /\ Decode(e.s) = Expected(unit))
=============================================================================
