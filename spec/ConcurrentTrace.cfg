SPECIFICATION TSpec
CONSTANTS
  E = 1000
INVARIANTS DisciplineOK VisibleComplete LabelsResolve DoneDiamondHasBundle DoneSplitComplete
PROPERTIES TWriteOnce TVisibleImmutable
CONSTRAINT HighWater
POSTCONDITION PostCond
CHECK_DEADLOCK FALSE
