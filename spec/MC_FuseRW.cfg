SPECIFICATION MCSpec
CONSTANTS
  Names = {"a", "b"}
  MaxNodes = 2
  MaxCnt = 2
  Offs = {0}
  Lens = {1}
  Sizes = {0, 2}
  InodePool = {2, 3}
INVARIANTS TypeOK TreeWellFormed CountsNonNegative InoIffHeld LiveInodesDistinct HeldPinsParent OpsSane CommitSane
PROPERTIES InodeStable
CHECK_DEADLOCK FALSE
