------------------------------ MODULE Tracker ------------------------------
(* The write-range tracker of a file opened on top of a base file            *)
(* (pkg/filetracker): which offsets have been written since the file was     *)
(* opened (they are served from the mutable store) and which still come from *)
(* the base file.                                                            *)
(*                                                                           *)
(* Abstract state: the bitmap of written offsets.  One action per API call:  *)
(* Write(off, len) = trackWrite.  The read side (getRangeToRead(off, len))   *)
(* is a pair of result operators of the state: ModifiedOp(w, off) and        *)
(* ContigBound(w, off), the distance from off to the next boundary between   *)
(* modified and unmodified data; the contiguous length the code returns must *)
(* lie in 1..min(len, ContigBound).                                          *)
(*                                                                           *)
(* The code represents the same information as start/end markers in a radix  *)
(* tree; Starts/Ends/ModifiedByMarkers below define that representation as a *)
(* function of the bitmap and MarkersFaithful states that it loses nothing.  *)
EXTENDS Naturals, FiniteSets

CONSTANTS MaxOff,   \* writes start at 0..MaxOff
          MaxLen    \* and have length 1..MaxLen

VARIABLE written    \* set of offsets covered by some write so far

N == MaxOff + MaxLen - 1      \* the last offset a write can cover
Offs == 0..MaxOff
Lens == 1..MaxLen
Probes == 0..(N + 1)          \* N+1: an offset beyond every write

Cover(off, len) == off..(off + len - 1)

----------------------------------------------------------------------------
(* Result operators *)

ModifiedOp(w, off) == off \in w

\* distances at which the modified/unmodified status differs from that at off
Differs(w, off) == {d \in 1..(N + 2) : ((off + d) \in w) # (off \in w)}

Unbounded == 0   \* "no boundary ahead": unmodified data up to the end of the file

\* distance from off to the next modified/unmodified boundary
ContigBound(w, off) ==
  IF Differs(w, off) = {} THEN Unbounded
  ELSE CHOOSE d \in Differs(w, off) : \A e \in Differs(w, off) : d <= e

\* is a contiguous length c returned for a read of len bytes at off acceptable?
ContigOK(w, off, len, c) ==
  /\ 1 <= c /\ c <= len
  /\ ContigBound(w, off) # Unbounded => c <= ContigBound(w, off)

----------------------------------------------------------------------------
(* The marker representation used by the code, as a function of the bitmap *)

Starts(w) == {x \in w : x = 0 \/ (x - 1) \notin w}
Ends(w)   == {x + 1 : x \in {y \in w : (y + 1) \notin w}}

ModifiedByMarkers(w, off) ==
  Cardinality({s \in Starts(w) : s <= off}) > Cardinality({e \in Ends(w) : e <= off})

----------------------------------------------------------------------------
Init == written = {}

Write(off, len) == written' = written \cup Cover(off, len)

Next == \E off \in Offs, len \in Lens : Write(off, len)

Spec == Init /\ [][Next]_written

----------------------------------------------------------------------------
(* Properties *)

TypeOK == written \subseteq 0..N

\* the range [off, off+ContigBound) is uniform, and it is maximal
BoundSound ==
  \A off \in Probes :
    LET b == ContigBound(written, off) IN
    IF b = Unbounded
      THEN \A x \in off..(N + 1) : ~ModifiedOp(written, x)
      ELSE /\ \A d \in 0..(b - 1) : ModifiedOp(written, off + d) = ModifiedOp(written, off)
           /\ ModifiedOp(written, off + b) # ModifiedOp(written, off)

\* start/end markers encode the bitmap exactly: strictly alternating, never
\* a start and an end at the same offset (adjacent ranges are merged)
MarkersFaithful ==
  /\ Starts(written) \cap Ends(written) = {}
  /\ Cardinality(Starts(written)) = Cardinality(Ends(written))
  /\ \A off \in Probes : ModifiedByMarkers(written, off) = ModifiedOp(written, off)

\* the result of two writes does not depend on their order; a write repeated
\* changes nothing
After(w, off, len) == w \cup Cover(off, len)
WritesCommute ==
  \A o1 \in Offs, o2 \in Offs, l1 \in Lens, l2 \in Lens :
     After(After(written, o1, l1), o2, l2) = After(After(written, o2, l2), o1, l1)
WriteIdempotent ==
  \A o \in Offs, l \in Lens :
     After(After(written, o, l), o, l) = After(written, o, l)

\* a write never un-modifies anything and modifies nothing but its own range
WriteExact ==
  [][/\ written \subseteq written'
     /\ \E off \in Offs, len \in Lens : written' \ written \subseteq Cover(off, len)
                                         /\ Cover(off, len) \subseteq written']_written
=============================================================================
