SPECIFICATION TSpec
CONSTRAINT HighWater
POSTCONDITION PostCond
CHECK_DEADLOCK FALSE
