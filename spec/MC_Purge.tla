------------------------------ MODULE MC_Purge ------------------------------
EXTENDS Purge
\* three files: f1 and f2 share leaf l12; f3 stands alone
MCRootOf == [f \in {"f1", "f2", "f3"} |-> CASE f = "f1" -> "r1" [] f = "f2" -> "r2" [] OTHER -> "r3"]
MCLeavesOf == [f \in {"f1", "f2", "f3"} |-> CASE f = "f1" -> {"l1", "l12"} [] f = "f2" -> {"l12", "l2"} [] OTHER -> {"l3"}]
\* bundles: b1 = {f1}, b2 = {f1, f2} (dedup across bundles), b3 = {f3}, b4 = {f3} (same content as b3: re-use of an orphan)
MCBundleDefs == [b \in {"b1", "b2", "b3", "b4"} |->
                   CASE b = "b1" -> {"f1"} [] b = "b2" -> {"f1", "f2"} [] b = "b3" -> {"f3"} [] OTHER -> {"f3"}]
\* at most five uploads / deletions / builds in a behaviour
Bounded == clock <= 5
BoundedQuick == clock <= 4
=============================================================================
