---------------------------- MODULE MC_Concurrent ----------------------------
(* Bounded exhaustive model for C15: N clients, each running ONE operation  *)
(* as a little program of store calls (one step = one store call that       *)
(* matters: every metadata write, every content write and the reads that    *)
(* carry staleness: the "is this content already stored?" check, the reads  *)
(* of a download).  Which operation a client runs is chosen in the initial  *)
(* state (every assignment of operations to clients is explored):           *)
(*   upload   of a tree into an own bundle                                  *)
(*   split    upload of a tree into an own diamond, then commit of it       *)
(*   download of the pre-existing bundle p0                                 *)
(*   label    an own label := p0                                            *)
(* Names are DISJOINT (bundle, diamond, label of client c are c), content   *)
(* OVERLAPS (all trees draw on the same content keys, p0 included).         *)
(* Checked: the store discipline and state properties of Concurrent.tla,    *)
(* NoFailure, EachResultAsAlone (result and own portion of the stores are   *)
(* what the operation produces alone), AnyOrder (the final abstract state   *)
(* is the one reached by running the operations alone one after the other,  *)
(* in every order), progress (no deadlock before every client is done).     *)
EXTENDS Concurrent

CONSTANTS Clients,     \* client names
          Kinds,       \* kinds of operations a client may run
          Trees,       \* the trees an upload / split upload may carry (sets of [p, h] entries)
          PreSeq,      \* the entries of the pre-existing bundle p0, in index file order
          Order        \* << >>: every assignment of operations to clients; else a sequence of the clients:
                       \* only assignments that are non-decreasing along it (the clients are interchangeable,
                       \* every other assignment is a renaming of one of these) -- quick tier

VARIABLES prog,        \* client -> operation (constant along a behaviour)
          pc, loc, result

mcvars == <<meta, vmeta, blob, verdict, prog, pc, loc, result>>

\* ---------------------------------------------------------------- bounded data
En(p, h) == [p |-> p, h |-> h]
\* overlapping content: keys "s" and "t" occur everywhere, under the same and under different paths
TreesOne == { {En("a", "s"), En("b", "t")} }
TreesSmall == TreesOne \cup { {En("a", "t")} }
TreesBig == TreesSmall \cup { {En("a", "s"), En("b", "s")} }        \* the same content twice in one tree
PreSmall == <<En("a", "s"), En("b", "t")>>
PreBig == <<En("a", "s"), En("b", "t"), En("c", "t")>>
PreSet == {PreSeq[i] : i \in DOMAIN PreSeq}
Pre == "p0"

\* the bundle id a client's operation produces: its own (MC_Concurrent_clash.cfg overrides this
\* to demonstrate that the properties do notice two clients sharing a bundle id)
OwnBundle(c) == c
ClashBundle(c) == "shared"
CONSTANT BundleName(_)

OpOf(c, kind, tree) ==
  [kind |-> kind, b |-> IF kind \in {"upload", "split"} THEN BundleName(c) ELSE Pre, d |-> c, n |-> c,
   entries |-> tree, bulk |-> 0, hashes |-> {e.h : e \in tree}]
ProgsOf(c) ==
  {OpOf(c, k, t) : k \in Kinds \cap {"upload", "split"}, t \in Trees} \cup {OpOf(c, k, {}) : k \in Kinds \cap {"download", "label"}}

OrderNone == << >>
Order3 == <<"c1", "c2", "c3">>
Order4 == <<"c1", "c2", "c3", "c4">>
KindRank(k) == CASE k = "upload" -> 1 [] k = "split" -> 2 [] k = "download" -> 3 [] OTHER -> 4
Rank(op) == KindRank(op.kind) * 100 + Cardinality(op.entries) * 10 + Cardinality(op.hashes)
Ordered(f) == \A i, j \in DOMAIN Order : i < j => Rank(f[Order[i]]) <= Rank(f[Order[j]])

NoEntry == En("", "")
Loc0(op) == [todo |-> op.entries,   \* files still to store / blobs still to fetch
             cur |-> NoEntry,       \* file in flight
             found |-> FALSE,       \* its content was already stored when checked
             buf |-> {},            \* packed files not yet in a file list
             nf |-> 0,              \* file lists written (upload: index files; split: split lists; download: index files read)
             rem |-> {},            \* commit: entries still to write
             nb |-> 0,              \* commit: index files written
             cnt |-> 0,             \* download: number of index files according to the descriptor
             got |-> {}]            \* download: files delivered

NPre == CeilDiv(Len(PreSeq), E)
ChunkOf(seq, i) == {seq[j] : j \in {j \in DOMAIN seq : j > i * E /\ j <= (i + 1) * E}}
InitMeta == [k \in {KDesc(Pre)} \cup {KIdx(Pre, i) : i \in Below(NPre)} |->
               IF k.k = "desc" THEN DescVal(Pre, NPre) ELSE ListVal(ChunkOf(PreSeq, k.i))]

MCInit ==
  /\ meta = InitMeta /\ vmeta = << >> /\ blob = {e.h : e \in PreSet} /\ verdict = "ok"
  /\ prog \in {f \in [Clients -> UNION {ProgsOf(c) : c \in Clients}] : (\A c \in Clients : f[c] \in ProgsOf(c)) /\ Ordered(f)}
  /\ pc = [c \in Clients |-> CASE prog[c].kind = "upload" -> "pick"
                               [] prog[c].kind = "split" -> "drun"
                               [] prog[c].kind = "download" -> "rdesc"
                               [] OTHER -> "label"]
  /\ loc = [c \in Clients |-> Loc0(prog[c])]
  /\ result = [c \in Clients |-> [ok |-> FALSE, files |-> {}]]

Set(f, c, v) == [f EXCEPT ![c] = v]
Goto(c, l) == pc' = Set(pc, c, l)
Finish(c, ok, files) == pc' = Set(pc, c, "done") /\ result' = Set(result, c, [ok |-> ok, files |-> files])
Reads == UNCHANGED cvars

\* ---------------------------------------------------------------- storing files (upload and split upload)
Uploading(c) == prog[c].kind \in {"upload", "split"}
ListStore(c) == IF prog[c].kind = "upload" THEN "meta" ELSE "vmeta"
ListKey(c, i) == IF prog[c].kind = "upload" THEN KIdx(prog[c].b, i) ELSE KSList(c, "s", c, i)

\* "is this content stored already?" (cafs: GetAttr before writing a blob)
Pick(c) ==
  /\ pc[c] = "pick" /\ loc[c].todo # {}
  /\ \E e \in loc[c].todo :
       loc' = Set(loc, c, [loc[c] EXCEPT !.todo = @ \ {e}, !.cur = e, !.found = (e.h \in blob)])
  /\ Goto(c, "put") /\ Reads /\ UNCHANGED <<prog, result>>
\* ... then it is written, or (if it was found) only refreshed: the check and the write are two calls
StoreContent(c) ==
  /\ pc[c] = "put"
  /\ IF loc[c].found THEN Reads ELSE PutBlob(loc[c].cur.h)
  /\ LET buf == loc[c].buf \cup {loc[c].cur}
     IN /\ loc' = Set(loc, c, [loc[c] EXCEPT !.buf = buf, !.cur = NoEntry])
        /\ Goto(c, IF Cardinality(buf) = E THEN "flush" ELSE "pick")
  /\ UNCHANGED <<prog, result>>
\* a file list: when E files are packed, and for the rest at the end
Flush(c) ==
  /\ \/ pc[c] = "flush"
     \/ pc[c] = "pick" /\ loc[c].todo = {} /\ loc[c].buf # {}
  /\ LET k == ListKey(c, loc[c].nf)
     IN /\ Put(ListStore(c), k, ListVal(loc[c].buf), TRUE)
        /\ IF PutRes(ListStore(c), k, TRUE) = "ok"
             THEN /\ loc' = Set(loc, c, [loc[c] EXCEPT !.buf = {}, !.nf = @ + 1])
                  /\ Goto(c, "pick") /\ UNCHANGED result
             ELSE Finish(c, FALSE, {}) /\ UNCHANGED loc
  /\ UNCHANGED prog
\* upload: the descriptor, last
PutDesc(c) ==
  /\ prog[c].kind = "upload" /\ pc[c] = "pick" /\ loc[c].todo = {} /\ loc[c].buf = {}
  /\ Put("meta", KDesc(prog[c].b), DescVal(prog[c].b, loc[c].nf), TRUE)
  /\ Finish(c, PutRes("meta", KDesc(prog[c].b), TRUE) = "ok", {})
  /\ UNCHANGED <<prog, loc>>

\* ---------------------------------------------------------------- split upload into an own diamond, then commit
Marker(c, from, k, v, to) ==
  /\ pc[c] = from
  /\ Put("vmeta", k, v, TRUE)
  /\ IF PutRes("vmeta", k, TRUE) = "ok" THEN Goto(c, to) /\ UNCHANGED result ELSE Finish(c, FALSE, {})
  /\ UNCHANGED <<prog, loc>>
DiamondRunning(c) == Marker(c, "drun", KDRun(c), MarkVal("initialized", "", "", 0), "srun")
\* CreateSplit: ready check (the diamond is not terminated), then the running marker
SplitRunning(c) == ~Has("vmeta", KDDone(c)) /\ Marker(c, "srun", KSRun(c, "s"), MarkVal("running", "", "", 0), "pick")
SplitDone(c) ==
  /\ prog[c].kind = "split" /\ loc[c].todo = {} /\ loc[c].buf = {}
  /\ Marker(c, "pick", KSDone(c, "s"), MarkVal("done", "", c, loc[c].nf), "collect")
\* Commit: ready check, the done splits and their file lists are read back (all write-once by now)
Collect(c) ==
  /\ pc[c] = "collect"
  /\ IF Has("vmeta", KDDone(c)) \/ ~Has("vmeta", KSDone(c, "s"))
       THEN Finish(c, FALSE, {}) /\ UNCHANGED loc
       ELSE LET sd == vmeta[KSDone(c, "s")]
                es == UNION {vmeta[KSList(c, "s", sd.gen, i)].entries : i \in ListsOf(c, "s", sd.gen)}
            IN loc' = Set(loc, c, [loc[c] EXCEPT !.rem = es]) /\ Goto(c, "cidx") /\ UNCHANGED result
  /\ Reads /\ UNCHANGED prog
\* the merged entries are written E at a time (any E of them: the order is not part of the result)
CommitIdx(c) ==
  /\ pc[c] = "cidx" /\ loc[c].rem # {}
  /\ \E es \in SUBSET loc[c].rem :
       /\ Cardinality(es) = (IF Cardinality(loc[c].rem) < E THEN Cardinality(loc[c].rem) ELSE E)
       /\ LET k == KIdx(prog[c].b, loc[c].nb)
          IN /\ Put("meta", k, ListVal(es), TRUE)
             /\ IF PutRes("meta", k, TRUE) = "ok"
                  THEN loc' = Set(loc, c, [loc[c] EXCEPT !.rem = @ \ es, !.nb = @ + 1]) /\ UNCHANGED <<pc, result>>
                  ELSE Finish(c, FALSE, {}) /\ UNCHANGED loc
  /\ UNCHANGED prog
CommitDesc(c) ==
  /\ pc[c] = "cidx" /\ loc[c].rem = {}
  /\ Put("meta", KDesc(prog[c].b), DescVal(prog[c].b, loc[c].nb), TRUE)
  /\ IF PutRes("meta", KDesc(prog[c].b), TRUE) = "ok" THEN Goto(c, "ddone") /\ UNCHANGED result ELSE Finish(c, FALSE, {})
  /\ UNCHANGED <<prog, loc>>
\* diamond-done, after the bundle is visible (as the code does it)
DiamondDone(c) ==
  /\ pc[c] = "ddone"
  /\ Put("vmeta", KDDone(c), MarkVal("done", prog[c].b, "", 0), TRUE)
  /\ Finish(c, PutRes("vmeta", KDDone(c), TRUE) = "ok", {})
  /\ UNCHANGED <<prog, loc>>

\* ---------------------------------------------------------------- download of the pre-existing bundle
ReadDesc(c) ==
  /\ pc[c] = "rdesc"
  /\ IF Visible(prog[c].b)
       THEN /\ loc' = Set(loc, c, [loc[c] EXCEPT !.cnt = meta[KDesc(prog[c].b)].count])
            /\ Goto(c, "ridx") /\ UNCHANGED result
       ELSE Finish(c, FALSE, {}) /\ UNCHANGED loc
  /\ Reads /\ UNCHANGED prog
ReadIdx(c) ==
  /\ pc[c] = "ridx"
  /\ LET k == KIdx(prog[c].b, loc[c].nf)
     IN IF loc[c].nf = loc[c].cnt THEN Goto(c, "rblob") /\ UNCHANGED <<loc, result>>
        ELSE IF Has("meta", k)
          THEN loc' = Set(loc, c, [loc[c] EXCEPT !.todo = @ \cup meta[k].entries, !.nf = @ + 1]) /\ UNCHANGED <<pc, result>>
          ELSE Finish(c, FALSE, {}) /\ UNCHANGED loc
  /\ Reads /\ UNCHANGED prog
ReadBlob(c) ==
  /\ pc[c] = "rblob"
  /\ IF loc[c].todo = {} THEN Finish(c, TRUE, loc[c].got) /\ UNCHANGED loc
     ELSE \E e \in loc[c].todo :
            IF e.h \in blob
              THEN loc' = Set(loc, c, [loc[c] EXCEPT !.todo = @ \ {e}, !.got = @ \cup {e}]) /\ UNCHANGED <<pc, result>>
              ELSE Finish(c, FALSE, loc[c].got) /\ UNCHANGED loc
  /\ Reads /\ UNCHANGED prog

\* ---------------------------------------------------------------- label set (overwrite allowed: by design)
SetLabel(c) ==
  /\ pc[c] = "label"
  /\ Put("vmeta", KLabel(prog[c].n), LabelVal(prog[c].b), FALSE)
  /\ Finish(c, TRUE, {})
  /\ UNCHANGED <<prog, loc>>

AllDone == \A c \in Clients : pc[c] = "done"
Step(c) ==
  \/ Uploading(c) /\ (Pick(c) \/ StoreContent(c) \/ Flush(c))
  \/ PutDesc(c)
  \/ DiamondRunning(c) \/ SplitRunning(c) \/ SplitDone(c) \/ Collect(c) \/ CommitIdx(c) \/ CommitDesc(c) \/ DiamondDone(c)
  \/ ReadDesc(c) \/ ReadIdx(c) \/ ReadBlob(c)
  \/ SetLabel(c)
MCNext == (\E c \in Clients : Step(c)) \/ (AllDone /\ UNCHANGED mcvars)
MCSpec == MCInit /\ [][MCNext]_mcvars

\* ---------------------------------------------------------------- properties
\* the state the operations start from, abstractly
InitAbs == [bundles |-> (Pre :> BundleAlone(PreSet, 0, {e.h : e \in PreSet})), labels |-> << >>, diamonds |-> << >>]

\* all complete, successfully
NoFailure == \A c \in Clients : pc[c] = "done" => result[c].ok
\* each result is what the operation would have produced alone -- the value it returns, and the
\* part of the stores under its own names
EachResultAsAlone ==
  \A c \in Clients : pc[c] = "done" => result[c] = ResultAlone(InitAbs, prog[c]) /\ PortionOK(prog[c])
\* what is visible at any time is a complete result of one of the operations, never a mixture
VisibleIsSomeResult ==
  \A b \in VisibleBundles \ {Pre} :
     \E c \in Clients : prog[c].b = b /\ Uploading(c) /\ BundleRead(b) = BundleAlone(prog[c].entries, 0, prog[c].hashes)
PreExistingUntouched == Pre \in VisibleBundles /\ BundleRead(Pre) = InitAbs.bundles[Pre]

\* the operations commute: the final state is the state obtained by running them alone in ANY order,
\* and in any such order every operation returns what it returned concurrently
Orders == {o \in [1..Cardinality(Clients) -> Clients] : \A i, j \in DOMAIN o : o[i] = o[j] => i = j}
RECURSIVE Fold(_, _, _)
Fold(a, o, n) == IF n = 0 THEN a ELSE AloneEffect(Fold(a, o, n - 1), prog[o[n]])
AnyOrder ==
  AllDone => \A o \in Orders :
               /\ Abs = Fold(InitAbs, o, Cardinality(Clients))
               /\ \A i \in DOMAIN o : result[o[i]] = ResultAlone(Fold(InitAbs, o, i - 1), prog[o[i]])
=============================================================================
