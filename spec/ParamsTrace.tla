---------------------------- MODULE ParamsTrace ----------------------------
(* Binding (B) for C21.  Every event of the log is one call of the REAL      *)
(* encoder (param.FUSEParamsToEnvVars / param.PGParamsToEnvVars):            *)
(*   [op |-> "encode", id, kind |-> "fuse"|"pg", route,                      *)
(*    g |-> the global parameters, units |-> <<bundle / database params>>,   *)
(*    err |-> the call (or the builder API before it) returned an error,     *)
(*    out |-> << [name, val, cp] >> the environment variables returned]      *)
(* strings are sequences of one-character strings; cp is the value once      *)
(* more, as code points (used for the single-byte test of ShellSafe only).   *)
(*                                                                           *)
(* The event conforms iff                                                    *)
(*     err  \/  for every variable:  Decode(out) = Expected(in)              *)
(*                                   /\ Unambiguous(out) /\ ShellSafe(kvsep) *)
(* Events are independent of each other (the state machine is one step       *)
(* long): a non-conforming event does not stop the validation, its verdict   *)
(* (a set of signatures computed here, never in the harness) is appended to  *)
(* VerdictFile and the position moves on.  Acceptance of the run = the       *)
(* position reached the end of the log; the verdict of the check = no        *)
(* verdict line.                                                             *)
EXTENDS Params, Json, IOUtils, TLC, TLCExt

CONSTANTS VerdictFile

VARIABLE l

TraceLog == ndJsonDeserialize("trace.ndjson")
Ev == TraceLog[l]

-----------------------------------------------------------------------------
GlobalFields(k) == IF k = "fuse" THEN FuseGlobalFields ELSE PGGlobalFields
UnitFields(k)   == IF k = "fuse" THEN FuseBundleFields ELSE PGDbFields
GlobalVar(k)    == IF k = "fuse" THEN FuseGlobalVar ELSE PGGlobalVar
UnitPfx(k)      == IF k = "fuse" THEN FuseBundlePfx ELSE PGDbPfx

GlobalUnit(e) == UnitOf(GlobalFields(e.kind), e.g)
UnitAt(e, i)  == UnitOf(UnitFields(e.kind), e.units[i])
VarName(e, i) == UnitPfx(e.kind) \o e.units[i].Name
\* units whose name is shared with another unit compete for one variable
DupName(e, i) == \E j \in DOMAIN e.units : j # i /\ e.units[j].Name = e.units[i].Name
Checked(e)    == { i \in DOMAIN e.units : ~DupName(e, i) }

ExpectedVars(e) == {GlobalVar(e.kind)} \cup { VarName(e, i) : i \in DOMAIN e.units }
OutVars(e)      == { e.out[j].name : j \in DOMAIN e.out }
OutVar(e, n)    == e.out[CHOOSE j \in DOMAIN e.out : e.out[j].name = n]

VarOK(o, U) ==
  /\ WellFormed(o.val)
  /\ Matches(Decode(o.val), U)
  /\ Unambiguous(o.val, U)
  /\ ShellSafe(o.cp[2])
  /\ EnvLineSafe(o.cp[1]) /\ EnvLineSafe(o.cp[2])

\* the property
Conforms(e) ==
  \/ e.err
  \/ /\ OutVars(e) = ExpectedVars(e)
     /\ VarOK(OutVar(e, GlobalVar(e.kind)), GlobalUnit(e))
     /\ \A i \in Checked(e) : VarOK(OutVar(e, VarName(e, i)), UnitAt(e, i))

-----------------------------------------------------------------------------
(* Guard against a vacuous pass (an encoder that refuses everything): a      *)
(* parameter set that satisfies the validation rules stated by the builder   *)
(* API, uses only parameters that have an option name, and whose values are  *)
(* made of lower-case letters, "/", "-", "_" must be encoded.                *)
Set(x) == x # <<>>
FuseUnitValid(u) ==
  /\ Set(u.Name)
  /\ ~(Set(u.SrcLabel) /\ Set(u.SrcBundle))
  /\ (Set(u.DestLabel) \/ Set(u.DestBundleID)) => (Set(u.DestRepo) /\ Set(u.DestMessage))
PGUnitValid(u) ==
  /\ Set(u.Name) /\ u.Port > 0
  /\ Set(u.DestRepo) /\ Set(u.DestMessage)
  /\ ~(Set(u.SrcLabel) /\ Set(u.SrcBundle))
  /\ ~Set(u.DestBundleID)
StringFields(fields) == { fields[i].name : i \in { j \in DOMAIN fields : fields[j].kind = "val" } }
AllPlain(e) ==
  /\ \A n \in StringFields(GlobalFields(e.kind)) : IsPlain(e.g[n])
  /\ \A i \in DOMAIN e.units :
       /\ IsPlain(e.units[i].Name)
       /\ \A n \in StringFields(UnitFields(e.kind)) : IsPlain(e.units[i][n])
MustEncode(e) ==
  /\ AllPlain(e)
  /\ \A i \in DOMAIN e.units : ~DupName(e, i)
  /\ IF e.kind = "fuse"
       THEN /\ Set(e.g.CoordPoint) /\ Set(e.g.ConfigBucketName) /\ Set(e.g.ContextName)
            /\ \A i \in DOMAIN e.units : FuseUnitValid(e.units[i])
       ELSE /\ Set(e.g.CoordPoint)
            /\ ~Set(e.g.ContributorName) /\ ~Set(e.g.ContributorEmail)
            /\ \A i \in DOMAIN e.units : PGUnitValid(e.units[i])

-----------------------------------------------------------------------------
(* classification of a non-conforming variable: root causes first *)
Flag(b, sig) == IF b THEN {sig} ELSE {}

VarSigs(o, U) ==
  IF Len(o.val) < 2 THEN {"params/malformed-header"}
  ELSE
  LET s   == o.val
      is  == s[1]
      kv  == s[2]
      g   == Given(U)
      dec == Decode(s)
      cause ==
        Flag(is = Dot \/ kv = Dot, "params/separator-is-dot")
        \cup Flag(is = kv /\ \E i \in DOMAIN g : g[i].kind = "val", "params/separators-equal")
        \cup Flag(\E i \in DOMAIN g : Occurs(is, g[i].key) \/ Occurs(kv, g[i].key),
                  "params/separator-in-option-name")
        \cup Flag(\E i \in DOMAIN g : g[i].kind = "val" /\ (Occurs(is, g[i].val) \/ Occurs(kv, g[i].val)),
                  "params/separator-in-value")
      \* given parameters without documented key whose value is under no key at all
      Lost(f) == /\ IsGiven(f) /\ f.key = <<>>
                 /\ ~\E k \in DOMAIN dec \ AllKeys(U) : dec[k] = [flag |-> FALSE, val |-> f.val]
      \* (named only when no separator problem explains the event)
      lost == IF cause # {} THEN {} ELSE { U[i].sig : i \in { j \in DOMAIN U : Lost(U[j]) } }
      \* anything else wrong once the lost parameters are set aside
      Ured == [i \in DOMAIN U |-> IF Lost(U[i]) THEN [U[i] EXCEPT !.val = <<>>] ELSE U[i]]
      rest == Flag(cause = {} /\ ~(WellFormed(s) /\ Matches(dec, Ured)), "params/decode-mismatch")
  IN cause \cup lost \cup rest \cup Flag(~ShellSafe(o.cp[2]), "params/shell-unsafe-kv-separator")
     \cup Flag(~(EnvLineSafe(o.cp[1]) /\ EnvLineSafe(o.cp[2])), "params/separator-is-equals-sign")

Sigs(e) ==
  IF e.err THEN Flag(MustEncode(e), "params/plain-set-rejected")
  ELSE
  LET names == Flag(OutVars(e) # ExpectedVars(e), "params/env-var-names-wrong")
      VS(n, U) == IF n \in OutVars(e) THEN VarSigs(OutVar(e, n), U) ELSE {}
  IN names \cup VS(GlobalVar(e.kind), GlobalUnit(e))
           \cup UNION { VS(VarName(e, i), UnitAt(e, i)) : i \in Checked(e) }

\* Conforms decides; Sigs only names the reason
Verdict(e) ==
  IF Conforms(e) /\ ~(e.err /\ MustEncode(e)) THEN {}
  ELSE LET sg == Sigs(e) IN IF sg = {} THEN {"params/nonconforming"} ELSE sg

\* recorded, never a verdict: two units with the same name share one variable
Obs(e) == Flag(\E i \in DOMAIN e.units : DupName(e, i), "duplicate-unit-name-one-variable")

-----------------------------------------------------------------------------
TInit == l = 1

Report(e, v, o) ==
  Serialize(<<[id |-> e.id, sigs |-> v, obs |-> o]>>, VerdictFile,
            [format |-> "NDJSON", charset |-> "UTF-8", openOptions |-> <<"WRITE", "CREATE", "APPEND">>])

IsEv(op) == l <= Len(TraceLog) /\ Ev.op = op /\ l' = l + 1

\* one action: the verdict is computed once per event
TEncode == /\ IsEv("encode")
           /\ LET v == Verdict(Ev)
                  o == Obs(Ev)
              IN (v # {} \/ o # {}) => Report(Ev, v, o)

TNext == TEncode
TSpec == TInit /\ [][TNext]_l

HighWater == TLCSet(1, l)
Accepted == TLCGet(1) = Len(TraceLog) + 1
ReportPos == PrintT(<<"trace-position", TLCGet(1), "of", Len(TraceLog)>>)
PostCond == ReportPos /\ Accepted
=============================================================================
