SPECIFICATION MCSpec
CONSTANTS
  Keys <- MCKeys
  LPrefixes <- MCPrefixes
  Vals = {1, 2}
  Counts = {1, 2, 3, 9}
INVARIANTS TypeOK PagingExact ListingSorted ListingExact ExclusiveWinner
PROPERTIES ExclusiveNeverReplaces
