SPECIFICATION GSpec
CONSTANTS
  Repos = {"r1", "r10", "r1-x"}
  Paths <- GPaths
  Contents = {"e", "s", "t", "m"}
  Labels <- GLabels
  E = 1000
  Bulks = {0}
  MaxLen = 10
  MaxBundles = 5
  OutFile = "meta_beh.ndjson"
  WithCrash = TRUE
  WithRepoOps = TRUE
  WithSquash = TRUE
  LabelW = 2
  Script = "none"
  Ops = {"label", "delete", "diff", "download", "keys", "update"}
INVARIANTS TypeOK VisibleComplete LabelsResolve SquashKeepsLatest
CONSTRAINT Dump
CHECK_DEADLOCK FALSE
