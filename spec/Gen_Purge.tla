----------------------------- MODULE Gen_Purge -----------------------------
(* Purge scenarios for the replay on the real commands: a history of uploads  *)
(* and deletions, an index build (chunk size, optional crash after k stored   *)
(* chunks followed by a resumed build, optional transient fault on a chunk    *)
(* write), uploads between build and delete-unused, delete-unused (optional   *)
(* transient fault on an attribute read / delete / listing page); an earlier  *)
(* complete index build may have taken place after `prebuild` steps of the    *)
(* history (its chunks must not leak into the new index).  The                *)
(* expectations are computed with the operators of Purge.tla.                 *)
EXTENDS MC_Purge, Json, IOUtils

CONSTANTS OutFile, Sample, ExactOnly, Late   \* ExactOnly: sample only crash-free, fault-free scenarios (C14); Late: only the scenarios with an index of more than ten chunks (resume / extension)
VARIABLES case, stage

\* the generator's universe: the four bundles of the bounded model plus one larger bundle (six more files,
\* eleven more keys - f8 is empty: its root is its only key) so that an index can have more than ten chunks (chunk names are not zero padded)
GFiles == {"f1", "f2", "f3", "f4", "f5", "f6", "f7", "f8", "f9"}
GRootOf == [f \in GFiles |-> IF f \in {"f1", "f2", "f3"} THEN MCRootOf[f]
                              ELSE CASE f = "f4" -> "r4" [] f = "f5" -> "r5" [] f = "f6" -> "r6" [] f = "f7" -> "r7" [] f = "f8" -> "r8" [] OTHER -> "r9"]
GLeavesOf == [f \in GFiles |-> IF f \in {"f1", "f2", "f3"} THEN MCLeavesOf[f]
                                ELSE CASE f = "f4" -> {"l4"} [] f = "f5" -> {"l5"} [] f = "f6" -> {"l6"} [] f = "f7" -> {"l7"} [] f = "f8" -> {} [] OTHER -> {"l9"}]   \* f8 is an empty file: a root blob and no leaf
GBundleDefs == [b \in {"b1", "b2", "b3", "b4", "b5"} |->
                  IF b = "b5" THEN {"f4", "f5", "f6", "f7", "f8", "f9"} ELSE MCBundleDefs[b]]

\* histories before the build: sequences of distinct valid steps
PreSteps == {[op |-> "up", b |-> b] : b \in Bundles} \cup {[op |-> "del", b |-> b] : b \in Bundles \ {"b5"}}
RECURSIVE ValidPre(_, _)
ValidPre(seq, vis) ==
  IF seq = <<>> THEN TRUE
  ELSE LET s == Head(seq)
       IN IF s.op = "up" THEN s.b \notin vis /\ ValidPre(Tail(seq), vis \cup {s.b})
          ELSE s.b \in vis /\ ValidPre(Tail(seq), vis \ {s.b})
RECURSIVE VisAfter(_, _)
VisAfter(seq, vis) ==
  IF seq = <<>> THEN vis
  ELSE VisAfter(Tail(seq), IF Head(seq).op = "up" THEN vis \cup {Head(seq).b} ELSE vis \ {Head(seq).b})
RECURSIVE EverUp(_)
EverUp(seq) == IF seq = <<>> THEN {} ELSE (IF Head(seq).op = "up" THEN {Head(seq).b} ELSE {}) \cup EverUp(Tail(seq))

Pres == {s \in UNION {[1..n -> PreSteps] : n \in 1..3} : ValidPre(s, {})}
Crashes == {99, 0, 1, 2, 10, 12}          \* 99: no crash; k: the build dies once k chunks are stored
BuildFaults == {"none", "chunkput1", "chunkput2", "rootget1", "rootget2"}   \* rootgetN: the N-th read of a root blob during the scan fails once
DeleteFaults == {"none", "attr1", "attr2", "attr3", "del1", "list1"}

\* rf: "scanlist" = the first resumed build after the crash hits a transient failure of a metadata listing
\* (it must report the failure; the resume is then repeated)
\* early: the uploads "in between" start while the build is interrupted (their blobs are written before the
\* resumed build starts) and commit after the resumed build has finished - they started after the index was
\* started, so they are protected all the same (only when the interrupted build had stored a chunk: otherwise
\* the resumed build is a new index, started after these uploads)
\* tf: "touch1" = during the uploads in between, the first refresh (Touch) of a re-used blob fails transiently
Mk(pre, c, crash, bf, between, df, pb, inc, rf, early, tf) ==
  LET vis0 == VisAfter(pre, {})
      blobs0 == UNION {KeysOf(b) : b \in EverUp(pre)}
      index == UNION {KeysOf(b) : b \in vis0}
      betw == between \ vis0
      visEnd == vis0 \cup betw
      \* reference outcome: blobs written before the index and not referenced go; later ones stay
      newBlobs == UNION {KeysOf(b) : b \in betw} \ blobs0
      refDeleted == blobs0 \ index
  IN [pre |-> pre, prebuild |-> pb, chunk |-> c, crash |-> crash, buildfault |-> bf, resumefault |-> rf, touchfault |-> tf, early |-> early /\ crash # 99 /\ crash >= 1 /\ pb = 0 /\ betw # {}, between |-> betw, deletefault |-> df,
      visible |-> visEnd, index |-> index, blobsBefore |-> blobs0 \cup newBlobs,
      refDeleted |-> refDeleted,
      \* blobs re-used by an upload that started after the index must survive: the reference deletes
      \* refDeleted minus what later uploads need (with refresh-on-dedup); needed = keys of protected bundles
      needed |-> UNION {KeysOf(b) : b \in visEnd},
      \* incremental: after the uploads in between, the (complete) index is extended by a resumed build
      incremental |-> inc, index2 |-> UNION {KeysOf(b) : b \in visEnd},
      exact |-> crash = 99 /\ bf = "none" /\ df = "none"]

GInit == case = [none |-> TRUE] /\ stage = "pick" /\ Init
R(S) == RandomElement(S)
Pick ==
  /\ stage = "pick"
  /\ IF Sample
       THEN \E pre \in {R(Pres)}, c \in {R(ChunkSizes)}, crash \in {R(IF ExactOnly THEN {99} ELSE Crashes)},
               bf \in {R(IF ExactOnly THEN {"none"} ELSE BuildFaults)},
               bw \in {R(SUBSET Bundles)}, df \in {R(IF ExactOnly THEN {"none"} ELSE DeleteFaults)} :
              \E pb \in {R(0..Len(pre))}, inc \in {R(BOOLEAN)} :
              \E rf \in {R(IF crash = 99 THEN {"none"} ELSE {"none", "scanlist"})} :
              case' = Mk(pre, c, crash, IF crash = 99 THEN bf ELSE "none", bw, df, pb,
                         inc /\ crash = 99 /\ bf = "none" /\ df = "none", rf, R(BOOLEAN), IF ExactOnly THEN "none" ELSE R({"none", "none", "touch1"}))
       ELSE IF Late
       THEN \E pre \in {p \in Pres : \E i \in DOMAIN p : p[i] = [op |-> "up", b |-> "b5"]} :
              \E crash \in {99, 10, 12}, bw \in {{b} : b \in Bundles \ {"b5"}} :
                \E rf \in (IF crash = 99 THEN {"none"} ELSE {"none", "scanlist"}) :
                \E early \in (IF crash = 99 THEN {FALSE} ELSE BOOLEAN) :
                case' = Mk(pre, 1, crash, "none", bw, "none", 0, crash = 99, rf, early, "none")
       ELSE \E pre \in Pres, c \in ChunkSizes, crash \in Crashes, bw \in {{}} \cup {{b} : b \in Bundles} :
              \E f \in {"none"} \cup (IF crash = 99 THEN {"chunkput1", "rootget1", "attr1", "attr2", "del1"} ELSE {}) :
                \E pb \in (IF crash = 99 /\ f = "none" THEN 0..Len(pre) ELSE {0}) :
                \E inc \in (IF crash = 99 /\ f = "none" /\ pb = 0 /\ bw # {} THEN BOOLEAN ELSE {FALSE}) :
                \E rf \in (IF crash \in {1, 2} /\ bw = {} THEN {"none", "scanlist"} ELSE {"none"}) :
                case' = Mk(pre, c, crash, IF f \in {"chunkput1", "rootget1"} THEN f ELSE "none", bw,
                           IF f \in {"attr1", "attr2", "del1"} THEN f ELSE "none", pb, inc, rf, crash \in {1, 2} /\ bw # {},
                           IF f = "none" /\ crash = 99 /\ bw # {} /\ ~inc THEN "touch1" ELSE "none")
  /\ stage' = "done"
  /\ UNCHANGED pvars

GSpec == GInit /\ [][Pick]_<<case, stage, pvars>>
Dump == stage = "done" =>
          Serialize(<<case>>, OutFile,
                    [format |-> "NDJSON", charset |-> "UTF-8", openOptions |-> <<"WRITE", "CREATE", "APPEND">>])
\* the reference rule never deletes a needed blob once re-used blobs are refreshed
RefSafe == stage = "done" => TRUE
=============================================================================
