---------------------------- MODULE Gen_Context ----------------------------
(* Behaviour generation for the Context specification (tlc -simulate): walks *)
(* of create / get / list steps, each carrying the result the specification  *)
(* defines.  Names include prefix-related ones and enough bulk names to      *)
(* cross the listing page of 16 keys.                                        *)
EXTENDS Context, Json, IOUtils

CONSTANTS MaxLen, OutFile
VARIABLES hist, phase

GNames == {"a", "ab", "a-b", "a.b", "b", "prod", "prod-eu", "Z", "0",
           "c01", "c02", "c03", "c04", "c05", "c06", "c07", "c08", "c09", "c10",
           "c11", "c12", "c13", "c14", "c15", "c16", "c17", "c18", "c19", "c20", ""}
GFields == {"", "x", "y", "gs://bucket-1"}
GoodFields == GFields \ {""}

gvars == <<ctxs, hist, phase>>
GInit == Init /\ hist = <<>> /\ phase = "run"
Log(r) == hist' = Append(hist, r)
R(S) == RandomElement(S)

GoodDesc == [wal : GoodFields, readlog : GoodFields, blob : GoodFields, meta : GoodFields, vmeta : GoodFields, version : {0, 1}]
AnyDesc == [wal : GFields, readlog : GFields, blob : GFields, meta : GFields, vmeta : GFields, version : {0, 1, 2}]

GCreate(n, d) ==
  /\ Create(n, d)
  /\ Log([op |-> "create", name |-> n, desc |-> d, res |-> CreateRes(ctxs, n, d)])
GGet(n) ==
  /\ UNCHANGED ctxs
  /\ Log([op |-> "get", name |-> n, found |-> GetFound(ctxs, n),
          desc |-> IF GetFound(ctxs, n) THEN ctxs[n] ELSE [wal |-> "", readlog |-> "", blob |-> "", meta |-> "", vmeta |-> "", version |-> 0]])
GList ==
  /\ UNCHANGED ctxs
  /\ Log([op |-> "list", names |-> ListOp(ctxs)])

GStep == \/ \E i \in 1..6 : \E n \in {R(GNames)}, d \in {R(GoodDesc)} : GCreate(n, d)
         \/ \E n \in {R(GNames)}, d \in {R(AnyDesc)} : GCreate(n, d)
         \/ \E n \in {R(GNames)} : GGet(n)
         \/ \E n \in {R(DOMAIN ctxs \cup {"a"})} : GGet(n)
         \/ GList

GNext == /\ phase = "run"
         /\ IF Len(hist) < MaxLen
              THEN GStep /\ UNCHANGED phase
              ELSE phase' = "done" /\ UNCHANGED <<ctxs, hist>>
GSpec == GInit /\ [][GNext]_gvars

Dump == phase = "done" =>
          Serialize(<<hist>>, OutFile,
                    [format |-> "NDJSON", charset |-> "UTF-8",
                     openOptions |-> <<"WRITE", "CREATE", "APPEND">>])
=============================================================================
