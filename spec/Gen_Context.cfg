SPECIFICATION GSpec
CONSTANTS
  Names <- GNames
  Fields <- GFields
  Versions = {0, 1, 2}
  MaxLen = 40
  OutFile = "beh.ndjson"
CONSTRAINT Dump
CHECK_DEADLOCK FALSE
