SPECIFICATION GSpec
CONSTANTS
  MaxOff = 4
  MaxLen = 3
  MaxW = 3
  Rand = FALSE
  OutFile = "beh.ndjson"
CONSTRAINT Dump
CHECK_DEADLOCK FALSE
