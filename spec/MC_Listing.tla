---------------------------- MODULE MC_Listing ----------------------------
(* Exhaustive check of the scan over every content within the bounds and     *)
(* every page size; AsIsExact records the defect of the unrepaired scan.     *)
EXTENDS Listing
VARIABLE objs
Contents == UNION {[1..k -> ObjSpecs] : k \in 0..MaxObjs}
\* (enumerated per length: TLC builds a UNION eagerly and gives up above a million elements)
Init == \E k \in 0..MaxObjs : objs \in [1..k -> ObjSpecs]
Next == UNCHANGED objs
Spec == Init /\ [][Next]_objs
Exact == ListingExact(objs)
AsIsExact == \A n \in PageSizes : ListedAsIs(objs, n) = Reference(objs)
=============================================================================
