------------------------ MODULE ObjectStoreTrace ------------------------
(* Binding (B) for ObjectStore: a recorded sequence of store calls with    *)
(* their results is accepted iff every call is the ObjectStore action with  *)
(* the logged arguments AND the logged result is the one the specification  *)
(* defines in the state reached so far.  Used for the exclusive-writer race *)
(* (candidate linearization: winners first) and for any sequential trace.   *)
EXTENDS ObjectStore, Json, TLCExt

VARIABLE l

TraceLog == ndJsonDeserialize("trace.ndjson")

TInit == Init /\ l = 1

Ev == TraceLog[l]
IsEv(op) == l <= Len(TraceLog) /\ Ev.op = op /\ l' = l + 1

TPut == /\ IsEv("put")
        /\ Ev.res = PutRes(store, Ev.key, Ev.excl)
        /\ Put(Ev.key, Ev.val, Ev.excl)
TDel == IsEv("del") /\ Delete(Ev.key)
TGet == /\ IsEv("get")
        /\ Ev.found = (Ev.key \in DOMAIN store)
        /\ Ev.found => Ev.val = store[Ev.key]
        /\ UNCHANGED store
THas == /\ IsEv("has")
        /\ Ev.found = (Ev.key \in DOMAIN store)
        /\ UNCHANGED store

TNext == TPut \/ TDel \/ TGet \/ THas
TSpec == TInit /\ [][TNext]_<<store, l>>

HighWater == TLCSet(1, l)
Accepted == TLCGet(1) = Len(TraceLog) + 1
\* the position reached is printed so that a rejection can be located
ReportPos == PrintT(<<"trace-position", TLCGet(1), "of", Len(TraceLog)>>)
PostCond == ReportPos /\ Accepted
=============================================================================
