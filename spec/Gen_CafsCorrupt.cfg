SPECIFICATION CSpec
CONSTANTS
  L = 3
  MaxN = 7
  Conc = {1}
  Chunks = {0}
  Lens = {1, 2, 3, 4, 6, 7}
  OutFile = "corrupt.ndjson"
INVARIANT OracleSane
CONSTRAINT Dump
CHECK_DEADLOCK FALSE
