SPECIFICATION TSpec
CONSTANTS
  Keys = {}
  LPrefixes = {}
  Vals = {}
  Counts = {}
CONSTRAINT HighWater
POSTCONDITION PostCond
CHECK_DEADLOCK FALSE
