------------------------------ MODULE FuseRO ------------------------------
(* What a read-only mount of a bundle shows (pkg/fuse: fs.go, fs_ro_ops.go,  *)
(* bundle_read.go, fs_common.go).                                            *)
(*                                                                           *)
(* Abstract state: the bundle, a function from file paths (non-empty         *)
(* sequences of name components) to a file [size, tag].  The content of a    *)
(* file is a sequence of cells; cell i of a file with tag t has the value    *)
(* <<t, i>> (identity content: any loss, duplication, reordering or mix-up   *)
(* of files is visible; two files with the same tag share a prefix, hence    *)
(* leaf blobs).  A leaf holds L cells.                                       *)
(*                                                                           *)
(* The only mutation is the upload (AddFile per entry).  Everything the      *)
(* mount answers is a result operator of the state:                          *)
(*   Nodes       entries + the directories they imply (root included)        *)
(*   LookupOp    (parent path, name) -> found / node                         *)
(*   AttrOp      node -> kind (dir/file), size (files)                       *)
(*   ChildrenOp  dir -> set of child nodes                                   *)
(*   ReadDirOp   (listing, offset, capacity) -> slice of the listing, each   *)
(*               entry with the offset to resume after it; a listing is any  *)
(*               repetition-free enumeration of ChildrenOp (the order is the *)
(*               implementation's business)                                  *)
(*   ReadOp      (file, off, len) -> cells off .. min(off+len, size)-1       *)
EXTENDS Naturals, Sequences, FiniteSets

CONSTANTS L,          \* cells per leaf
          Names,      \* name components (bounded models and properties)
          MaxDepth,   \* bounded models: longest path
          MaxFiles,   \*                 most files
          Sizes,      \*                 file sizes in cells
          Tags,       \*                 content tags
          MaxCap      \* ReadDirResumable: largest per-call capacity tried

VARIABLE b            \* the bundle

Root == <<>>

Cut(p, k) == SubSeq(p, 1, k)                       \* the first k components
StrictPrefixesOf(p) == {Cut(p, k) : k \in 0..(Len(p) - 1)}
MinOf(x, y) == IF x <= y THEN x ELSE y

Files(bb) == DOMAIN bb
Dirs(bb)  == {Root} \cup UNION {StrictPrefixesOf(p) : p \in Files(bb)}
Nodes(bb) == Files(bb) \cup Dirs(bb)

\* a path can be added as a file: it is no node yet and does not pass through a file
CanAdd(bb, p) ==
  /\ Len(p) >= 1
  /\ p \notin Nodes(bb)
  /\ \A q \in StrictPrefixesOf(p) : q \notin Files(bb)

WellFormed(bb) ==
  /\ \A p \in Files(bb) : Len(p) >= 1
  /\ Files(bb) \cap Dirs(bb) = {}

----------------------------------------------------------------------------
(* Result operators *)

LookupOp(bb, parent, name) ==
  LET n == Append(parent, name) IN
  IF parent \in Dirs(bb) /\ n \in Nodes(bb)
    THEN [found |-> TRUE, node |-> n]
    ELSE [found |-> FALSE, node |-> Root]

\* the size of a directory is not defined by the bundle (reported as 0 here)
AttrOp(bb, n) ==
  IF n \in Files(bb) THEN [kind |-> "file", size |-> bb[n].size]
                     ELSE [kind |-> "dir", size |-> 0]

ChildrenOp(bb, d) ==
  IF d \notin Dirs(bb) THEN {}
  ELSE {n \in Nodes(bb) : Len(n) = Len(d) + 1 /\ Cut(n, Len(d)) = d}

IsListing(bb, d, ls) ==
  /\ Len(ls) = Cardinality(ChildrenOp(bb, d))
  /\ {ls[i] : i \in 1..Len(ls)} = ChildrenOp(bb, d)

\* one ReadDir call: at most cap entries after the first off ones
ReadDirOp(ls, off, cap) ==
  [i \in 1..(MinOf(off + cap, Len(ls)) - off) |-> [node |-> ls[off + i], next |-> off + i]]

ContentOf(f) == [i \in 1..f.size |-> <<f.tag, i - 1>>]

ReadOp(bb, n, off, len) ==
  LET c == ContentOf(bb[n]) IN
  IF off >= Len(c) THEN <<>> ELSE SubSeq(c, off + 1, MinOf(off + len, Len(c)))

\* the same, as a range of cell indices: [from, from + n)
ReadRange(bb, n, off, len) ==
  [from |-> off, n |-> Len(ReadOp(bb, n, off, len))]

----------------------------------------------------------------------------
(* The upload *)

Init == b = <<>>

AddFile(p, f) ==
  /\ CanAdd(b, p)
  /\ b' = [q \in (DOMAIN b) \cup {p} |-> IF q = p THEN f ELSE b[q]]

PathPool == UNION {[1..k -> Names] : k \in 1..MaxDepth}

Next == /\ Cardinality(DOMAIN b) < MaxFiles
        /\ \E p \in PathPool, s \in Sizes, t \in Tags : AddFile(p, [size |-> s, tag |-> t])

Spec == Init /\ [][Next]_b

----------------------------------------------------------------------------
(* Properties *)

TypeOK == WellFormed(b) /\ \A p \in Files(b) : b[p].size \in Nat

\* the node reached from the root by looking up the components of p one by one
RECURSIVE WalkFrom(_, _, _)
WalkFrom(bb, at, rest) ==
  IF rest = <<>> THEN [found |-> TRUE, node |-> at]
  ELSE LET r == LookupOp(bb, at, Head(rest)) IN
       IF r.found THEN WalkFrom(bb, r.node, Tail(rest)) ELSE r

AllNames == Names \cup UNION {{p[i] : i \in 1..Len(p)} : p \in Files(b)} \cup {"no such name"}

TreeIsExactlyBundle ==
  \* every entry is reached from the root, as a file of its size
  /\ \A p \in Files(b) : /\ WalkFrom(b, Root, p) = [found |-> TRUE, node |-> p]
                         /\ AttrOp(b, p) = [kind |-> "file", size |-> b[p].size]
  \* every directory exists because some entry lies below it, and is reached too
  /\ \A d \in Dirs(b) : /\ AttrOp(b, d).kind = "dir"
                        /\ WalkFrom(b, Root, d) = [found |-> TRUE, node |-> d]
                        /\ d # Root => \E p \in Files(b) : d \in StrictPrefixesOf(p)
                        /\ d # Root => ChildrenOp(b, d) # {}
  \* lookups and listings describe the same tree, and nothing but the nodes
  /\ \A n \in Nodes(b) :
        /\ ChildrenOp(b, n) = {LookupOp(b, n, nm).node : nm \in {x \in AllNames : LookupOp(b, n, x).found}}
        /\ ChildrenOp(b, n) \subseteq Nodes(b)
        /\ n \in Files(b) => ChildrenOp(b, n) = {} /\ \A nm \in AllNames : ~LookupOp(b, n, nm).found
  \* every node but the root is the child of exactly one directory
  /\ \A n \in Nodes(b) \ {Root} :
        {d \in Nodes(b) : n \in ChildrenOp(b, d)} = {Cut(n, Len(n) - 1)}
  /\ \A d \in Nodes(b) : Root \notin ChildrenOp(b, d)

\* all repetition-free enumerations of a finite set
RECURSIVE Orderings(_)
Orderings(S) ==
  IF S = {} THEN {<<>>}
  ELSE UNION {{<<x>> \o r : r \in Orderings(S \ {x})} : x \in S}

\* the nodes returned by calls i, i+1, .. each resumed at the last offset returned
RECURSIVE Resumed(_, _, _, _)
Resumed(ls, off, caps, i) ==
  IF off >= Len(ls) \/ i > Len(caps) THEN <<>>
  ELSE LET r == ReadDirOp(ls, off, caps[i]) IN
       [j \in 1..Len(r) |-> r[j].node] \o Resumed(ls, r[Len(r)].next, caps, i + 1)

\* for every listing, every starting offset and every way of cutting the rest
\* into calls, the calls return exactly the rest of the listing: together with
\* what was consumed before, every child exactly once
ReadDirResumable ==
  \A d \in Dirs(b) : \A ls \in Orderings(ChildrenOp(b, d)) :
    /\ IsListing(b, d, ls)
    /\ \A start \in 0..Len(ls) :
         \A caps \in [1..(Len(ls) - start) -> 1..MaxCap] :
            Resumed(ls, start, caps, 1) = SubSeq(ls, start + 1, Len(ls))

MaxSize == IF Sizes = {} THEN 0 ELSE CHOOSE s \in Sizes : \A u \in Sizes : u <= s

ReadExact ==
  \A p \in Files(b) : \A off \in 0..(MaxSize + 1), len \in 0..(MaxSize + 2) :
    LET r == ReadOp(b, p, off, len)
        size == b[p].size
        want == IF off >= size THEN 0 ELSE MinOf(len, size - off) IN
    /\ Len(r) = want
    /\ \A i \in 1..Len(r) : r[i] = <<b[p].tag, off + i - 1>>
    /\ ReadRange(b, p, off, len) = [from |-> off, n |-> want]
    \* two adjacent reads are one read
    /\ \A l2 \in 0..2 : r \o ReadOp(b, p, off + len, l2) = ReadOp(b, p, off, len + l2)

\* an upload of one more entry adds the entry and the directories it implies, nothing else
UploadExact ==
  [][\E p \in PathPool : /\ Nodes(b') = Nodes(b) \cup {p} \cup StrictPrefixesOf(p)
                         /\ \A q \in Files(b) : q \in Files(b') /\ b'[q] = b[q]]_b
=============================================================================
