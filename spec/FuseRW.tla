------------------------------- MODULE FuseRW -------------------------------
(* A mutable mount (pkg/fuse fsMutable) as the kernel sees it: a POSIX       *)
(* directory tree driven by the FUSE operations                             *)
(*   Create, MkDir, Write, SetSize, Rename, Unlink, RmDir, Lookup, Forget   *)
(* together with the kernel's side of the protocol (lookup counts).          *)
(*                                                                           *)
(* State                                                                     *)
(*   kind  : node -> "dir" | "file"   every node ever allocated (Root = 0)   *)
(*   links : set of <<parent, name, child>>  the directory entries            *)
(*   data  : node -> sequence of content cells; cell = id of the write that  *)
(*           last stored it, 0 = a hole / a byte produced by extending       *)
(*   cnt   : node -> the kernel's lookup count (fuse_inode::nlookup)         *)
(*   ino   : node -> the inode number the kernel holds for the node, 0 when  *)
(*           it holds none (cnt = 0).  Inode numbers are ABSTRACT: the file  *)
(*           system chooses them.  The specification only requires           *)
(*             - live entries have distinct inodes        (InodeOK, 1st part) *)
(*             - the number reported for a node does not change while the    *)
(*               kernel holds a reference to it           (InodeOK, 2nd part) *)
(*                                                                           *)
(* Every action takes the OBSERVED values as parameters: the outcome res     *)
(* ("ok" or an errno name) and, for replies that carry an entry, the inode   *)
(* number i.  An action is enabled iff the kernel may send the operation     *)
(* (KernelMay) and the observation is one the specification admits           *)
(* (res \in Allowed(o), InodeOK).  A failing operation changes nothing.      *)
(*                                                                           *)
(* Allowed(o) is a singleton where POSIX / Linux are unambiguous and a set   *)
(* where implementations legitimately differ or where several error          *)
(* conditions hold at once (any of them may be reported).                    *)
EXTENDS Integers, Sequences, FiniteSets, TLC

CONSTANTS Names          \* entry names (strings)

VARIABLES kind, links, data, cnt, ino
vars == <<kind, links, data, cnt, ino>>

Root == 0
None == -1
RootIno == 1             \* fuseops.RootInodeID

Nodes == DOMAIN kind
Fresh == Cardinality(DOMAIN kind)      \* nodes are numbered 0, 1, 2, ... and never reused

----------------------------------------------------------------------------
(* Tree operators; L is a set of links so that they can be applied to the   *)
(* next state as well.                                                       *)

ChildL(L, p, a) == IF \E l \in L : l[1] = p /\ l[2] = a
                   THEN (CHOOSE l \in L : l[1] = p /\ l[2] = a)[3] ELSE None
KidsL(L, p)   == {l[3] : l \in {m \in L : m[1] = p}}
LinkedL(L, n) == n = Root \/ \E l \in L : l[3] = n
LinkOfL(L, n) == CHOOSE l \in L : l[3] = n

Child(p, a) == ChildL(links, p, a)
Kids(p)     == KidsL(links, p)
Linked(n)   == LinkedL(links, n)
Known(n)    == n = Root \/ cnt[n] > 0

\* ancestors-or-self of a linked node (the tree is acyclic: TreeWellFormed)
RECURSIVE AncL(_, _)
AncL(L, n) == IF n = Root \/ ~LinkedL(L, n) THEN {n} ELSE {n} \cup AncL(L, LinkOfL(L, n)[1])
Anc(n) == AncL(links, n)
Depth(n) == Cardinality(Anc(n)) - 1

\* path of a linked node below the root, "d/a"
RECURSIVE PathL(_, _)
PathL(L, n) == LET l == LinkOfL(L, n)
               IN IF l[1] = Root THEN l[2] ELSE PathL(L, l[1]) \o "/" \o l[2]

\* nodes reachable from the root in at most k steps
RECURSIVE Down(_, _)
Down(S, k) == IF k = 0 THEN S ELSE Down(S \cup {l[3] : l \in {m \in links : m[1] \in S}}, k - 1)

----------------------------------------------------------------------------
(* Operations.  One record shape for all of them.                            *)
(*   create mkdir lookup unlink rmdir : parent p, name a                     *)
(*   rename                           : p, a -> q, b                         *)
(*   write                            : file n, offset x, length y, id w     *)
(*   setsize                          : file n, size x                       *)
(*   forget                           : node n, count x                      *)

Op0 == [op |-> "", p |-> None, a |-> "", q |-> None, b |-> "", n |-> None, x |-> 0, y |-> 0, w |-> 0]
OpName(k, p, a)      == [Op0 EXCEPT !.op = k, !.p = p, !.a = a]
OpRename(p, a, q, b) == [Op0 EXCEPT !.op = "rename", !.p = p, !.a = a, !.q = q, !.b = b]
OpWrite(n, x, y, w)  == [Op0 EXCEPT !.op = "write", !.n = n, !.x = x, !.y = y, !.w = w]
OpSetSize(n, x)      == [Op0 EXCEPT !.op = "setsize", !.n = n, !.x = x]
OpForget(n, x)       == [Op0 EXCEPT !.op = "forget", !.n = n, !.x = x]

NameOps == {"create", "mkdir", "lookup", "unlink", "rmdir"}

\* a parent the kernel can name: an inode it holds that is still in the tree
\* (the VFS answers ENOENT itself below a removed directory)
ParentOK(p) == p \in Nodes /\ Known(p) /\ Linked(p)

\* rename of a directory into its own subtree: the VFS answers EINVAL itself
RenameLoop(o) == LET s == Child(o.p, o.a) IN s # None /\ kind[s] = "dir" /\ s \in Anc(o.q)

(* The kernel's side of the protocol: what it may send in this state.        *)
KernelMay(o) ==
  CASE o.op \in NameOps  -> ParentOK(o.p) /\ o.a \in Names
    [] o.op = "rename"   -> ParentOK(o.p) /\ ParentOK(o.q) /\ o.a \in Names /\ o.b \in Names /\ ~RenameLoop(o)
    [] o.op \in {"write", "setsize"}
                         -> o.n \in Nodes \ {Root} /\ kind[o.n] = "file" /\ cnt[o.n] > 0 /\ o.x >= 0
                            /\ (o.op = "write" => o.y >= 1)
    [] o.op = "forget"   -> /\ o.n \in Nodes \ {Root} /\ o.x >= 1 /\ o.x <= cnt[o.n]
                            \* a cached child pins its parent: the last reference of a directory
                            \* is only dropped once the kernel holds none of its entries
                            /\ (o.x = cnt[o.n] => \A c \in Kids(o.n) : cnt[c] = 0)
    [] OTHER -> FALSE

If(c, S) == IF c THEN S ELSE {}

\* resolution of (p, a): a file as a path component is ENOTDIR, whatever follows
ResolveErrs(p, a, mustExist) ==
  IF kind[p] = "file" THEN {"ENOTDIR"}
  ELSE If(mustExist /\ Child(p, a) = None, {"ENOENT"})

Errs(o) ==
  CASE o.op \in {"create", "mkdir"} ->
         ResolveErrs(o.p, o.a, FALSE) \cup If(Child(o.p, o.a) # None, {"EEXIST"})
    [] o.op = "lookup" -> ResolveErrs(o.p, o.a, TRUE)
    [] o.op = "unlink" ->
         LET c == Child(o.p, o.a) IN
         ResolveErrs(o.p, o.a, TRUE) \cup (IF c # None /\ kind[c] = "dir" THEN {"EISDIR", "EPERM"} ELSE {})
    [] o.op = "rmdir" ->
         LET c == Child(o.p, o.a) IN
         ResolveErrs(o.p, o.a, TRUE)
           \cup (IF c # None /\ kind[c] = "file" THEN {"ENOTDIR"} ELSE {})
           \cup (IF c # None /\ kind[c] = "dir" /\ Kids(c) # {} THEN {"ENOTEMPTY"} ELSE {})
    [] o.op = "rename" ->
         LET s == Child(o.p, o.a)
             d == Child(o.q, o.b)
             oldE == ResolveErrs(o.p, o.a, TRUE)
             newE == ResolveErrs(o.q, o.b, FALSE)
             loopE == IF s # None /\ kind[s] = "dir" /\ s \in Anc(o.q) THEN {"EINVAL"} ELSE {}
             overE == IF oldE = {} /\ newE = {} /\ d # None /\ d # s
                      THEN If(kind[s] = "dir"  /\ kind[d] = "file", {"ENOTDIR"})
                           \cup If(kind[s] = "file" /\ kind[d] = "dir", {"EISDIR"})
                           \cup If(kind[d] = "dir" /\ Kids(d) # {}, {"ENOTEMPTY", "EEXIST"})
                      ELSE {}
         IN oldE \cup newE \cup loopE \cup overE
    [] OTHER -> {}      \* write, setsize, forget on a node the kernel holds: no error

Allowed(o) == IF Errs(o) = {} THEN {"ok"} ELSE Errs(o)

(* Input class of an operation: names the situation, never the data.         *)
Held(c) == IF cnt[c] > 0 THEN "-held" ELSE "-forgotten"
ClassOf(o) ==
  CASE o.op \in {"create", "mkdir"} ->
         o.op \o (IF kind[o.p] = "file" THEN "-under-file"
                  ELSE IF Child(o.p, o.a) # None THEN "-existing" ELSE "-new")
    [] o.op = "lookup" ->
         LET c == Child(o.p, o.a) IN
         IF kind[o.p] = "file" THEN "lookup-under-file"
         ELSE IF c = None THEN "lookup-missing" ELSE "lookup-" \o kind[c] \o Held(c)
    [] o.op = "unlink" ->
         LET c == Child(o.p, o.a) IN
         IF kind[o.p] = "file" THEN "unlink-under-file"
         ELSE IF c = None THEN "unlink-missing"
         ELSE IF kind[c] = "dir" THEN "unlink-dir" ELSE "unlink-file" \o Held(c)
    [] o.op = "rmdir" ->
         LET c == Child(o.p, o.a) IN
         IF kind[o.p] = "file" THEN "rmdir-under-file"
         ELSE IF c = None THEN "rmdir-missing"
         ELSE IF kind[c] = "file" THEN "rmdir-file"
         ELSE IF Kids(c) # {} THEN "rmdir-nonempty" ELSE "rmdir-empty" \o Held(c)
    [] o.op = "rename" ->
         LET s == Child(o.p, o.a)
             d == Child(o.q, o.b)
         IN IF kind[o.p] = "file" THEN "rename-src-under-file"
            ELSE IF kind[o.q] = "file" THEN "rename-dst-under-file"
            ELSE IF s = None THEN "rename-src-missing"
            ELSE IF RenameLoop(o) THEN "rename-into-self"
            ELSE IF d = s THEN "rename-same"
            ELSE "rename-" \o kind[s] \o
                 (IF d = None THEN "-to-new"
                  ELSE IF kind[d] = "file" THEN "-over-file"
                  ELSE IF Kids(d) = {} THEN "-over-emptydir" ELSE "-over-nonemptydir")
    [] o.op = "write"   -> IF Linked(o.n) THEN "write-linked" ELSE "write-orphan"
    [] o.op = "setsize" ->
         (IF o.x < Len(data[o.n]) THEN "truncate-shrink" ELSE IF o.x > Len(data[o.n]) THEN "truncate-grow" ELSE "truncate-same")
         \o (IF Linked(o.n) THEN "-linked" ELSE "-orphan")
    [] o.op = "forget"  ->
         IF o.x < cnt[o.n] THEN "forget-partial"
         ELSE "forget-last-" \o kind[o.n] \o (IF Linked(o.n) THEN "-linked" ELSE "-orphan")
    [] OTHER -> "?"

\* the node an entry reply (create, mkdir, lookup) is about, None for other operations
ReplyNode(o) ==
  CASE o.op \in {"create", "mkdir"} -> Fresh
    [] o.op = "lookup" -> Child(o.p, o.a)
    [] OTHER -> None

(* What the specification requires of a reported inode number i for node c:  *)
(* different from the number held for every other live entry, and unchanged  *)
(* while the kernel holds a reference.                                        *)
InodeOK(c, i) ==
  /\ i # 0
  /\ \A m \in Nodes : (m # c /\ Linked(m) /\ ino[m] # 0) => ino[m] # i
  /\ (c \in Nodes /\ cnt[c] > 0) => i = ino[c]

----------------------------------------------------------------------------
(* Content *)

Max2(a, b) == IF a > b THEN a ELSE b
WriteAt(s, off, len, w) ==
  [j \in 1..Max2(Len(s), off + len) |->
     IF j > off /\ j <= off + len THEN w ELSE IF j <= Len(s) THEN s[j] ELSE 0]
Resize(s, sz) == IF sz = 0 THEN <<>> ELSE [j \in 1..sz |-> IF j <= Len(s) THEN s[j] ELSE 0]

----------------------------------------------------------------------------
Init ==
  /\ kind  = (Root :> "dir")
  /\ links = {}
  /\ data  = (Root :> <<>>)
  /\ cnt   = (Root :> 1)          \* implicit, never forgotten
  /\ ino   = (Root :> RootIno)

Effect(o, i) ==
  CASE o.op \in {"create", "mkdir"} ->
         LET c == Fresh IN
         /\ InodeOK(c, i)
         /\ kind'  = (c :> (IF o.op = "mkdir" THEN "dir" ELSE "file")) @@ kind
         /\ links' = links \cup {<<o.p, o.a, c>>}
         /\ data'  = (c :> <<>>) @@ data
         /\ cnt'   = (c :> 1) @@ cnt
         /\ ino'   = (c :> i) @@ ino
    [] o.op = "lookup" ->
         LET c == Child(o.p, o.a) IN
         /\ InodeOK(c, i)
         /\ cnt' = [cnt EXCEPT ![c] = @ + 1]
         /\ ino' = [ino EXCEPT ![c] = i]
         /\ UNCHANGED <<kind, links, data>>
    [] o.op \in {"unlink", "rmdir"} ->
         /\ links' = links \ {<<o.p, o.a, Child(o.p, o.a)>>}
         /\ UNCHANGED <<kind, data, cnt, ino>>
    [] o.op = "rename" ->
         LET s == Child(o.p, o.a)
             d == Child(o.q, o.b)
         IN /\ links' = IF d = s THEN links
                        ELSE ((links \ {<<o.p, o.a, s>>}) \ If(d # None, {<<o.q, o.b, d>>})) \cup {<<o.q, o.b, s>>}
            /\ UNCHANGED <<kind, data, cnt, ino>>
    [] o.op = "write" ->
         /\ data' = [data EXCEPT ![o.n] = WriteAt(@, o.x, o.y, o.w)]
         /\ UNCHANGED <<kind, links, cnt, ino>>
    [] o.op = "setsize" ->
         /\ data' = [data EXCEPT ![o.n] = Resize(@, o.x)]
         /\ UNCHANGED <<kind, links, cnt, ino>>
    [] o.op = "forget" ->
         /\ cnt' = [cnt EXCEPT ![o.n] = @ - o.x]
         /\ ino' = IF cnt[o.n] = o.x THEN [ino EXCEPT ![o.n] = 0] ELSE ino
         /\ UNCHANGED <<kind, links, data>>

Do(o, res, i) ==
  /\ KernelMay(o)
  /\ res \in Allowed(o)
  /\ IF res = "ok" THEN Effect(o, i) ELSE UNCHANGED vars

(* The named actions *)
Create(p, a, res, i)        == Do(OpName("create", p, a), res, i)
MkDir(p, a, res, i)         == Do(OpName("mkdir", p, a), res, i)
Lookup(p, a, res, i)        == Do(OpName("lookup", p, a), res, i)
Unlink(p, a, res)           == Do(OpName("unlink", p, a), res, 0)
RmDir(p, a, res)            == Do(OpName("rmdir", p, a), res, 0)
Rename(p, a, q, b, res)     == Do(OpRename(p, a, q, b), res, 0)
Write(n, off, len, w, res)  == Do(OpWrite(n, off, len, w), res, 0)
SetSize(n, sz, res)         == Do(OpSetSize(n, sz), res, 0)
Forget(n, k)                == Do(OpForget(n, k), "ok", 0)

----------------------------------------------------------------------------
(* Result operators *)

\* what a commit of the mount must produce: the files of the visible tree
CommitL(K, L, D) == {[p |-> PathL(L, n), d |-> D[n]] : n \in {m \in DOMAIN K : K[m] = "file" /\ LinkedL(L, m)}}
CommitOp == CommitL(kind, links, data)

\* every node that is in the tree or that the kernel still holds (orphans: l = FALSE)
TreeL(K, L, D, C) ==
  {[n |-> n, k |-> K[n], l |-> LinkedL(L, n), p |-> IF LinkedL(L, n) THEN PathL(L, n) ELSE "",
    d |-> D[n], c |-> C[n]] : n \in {m \in DOMAIN K \ {Root} : LinkedL(L, m) \/ C[m] > 0}}

----------------------------------------------------------------------------
(* Properties of the reference model *)

TypeOK ==
  /\ DOMAIN kind = 0..(Fresh - 1) /\ DOMAIN data = DOMAIN kind /\ DOMAIN cnt = DOMAIN kind /\ DOMAIN ino = DOMAIN kind
  /\ \A n \in Nodes : kind[n] \in {"dir", "file"} /\ cnt[n] \in Int /\ ino[n] \in Nat
  /\ \A l \in links : l[1] \in Nodes /\ l[2] \in Names /\ l[3] \in Nodes \ {Root}
  /\ kind[Root] = "dir"

TreeWellFormed ==
  /\ \A l \in links : kind[l[1]] = "dir" /\ Linked(l[1])                    \* entries live in attached directories
  /\ \A l1, l2 \in links : (l1[1] = l2[1] /\ l1[2] = l2[2]) => l1 = l2        \* one entry per name
  /\ \A l1, l2 \in links : l1[3] = l2[3] => l1 = l2                           \* no hard links
  /\ \A l \in links : l[3] \in Down({Root}, Fresh)                            \* no cycle: all reachable from the root
  /\ \A n \in Nodes : (kind[n] = "dir" /\ ~Linked(n)) => Kids(n) = {}         \* removed directories were empty
  /\ \A n \in Nodes : kind[n] = "file" => Kids(n) = {}
  /\ \A n \in Nodes : kind[n] = "dir" => data[n] = <<>>

CountsNonNegative == \A n \in Nodes : cnt[n] >= 0

\* the kernel holds an inode number exactly for the nodes it references
InoIffHeld == \A n \in Nodes : (ino[n] # 0) <=> (cnt[n] > 0)

LiveInodesDistinct ==
  \A m, n \in Nodes : (m # n /\ Linked(m) /\ Linked(n) /\ ino[m] # 0 /\ ino[n] # 0) => ino[m] # ino[n]

\* a held entry pins its parent directory in the kernel
HeldPinsParent == \A l \in links : cnt[l[3]] > 0 => Known(l[1])

\* an operation has at least one admissible outcome, and success excludes errors
AllowedSane(o) == Allowed(o) # {} /\ ("ok" \in Allowed(o) => Allowed(o) = {"ok"})

\* the inode number of a node does not change while the kernel holds a reference
InodeStable == [][\A n \in Nodes : (cnt[n] > 0 /\ cnt'[n] > 0) => ino'[n] = ino[n]]_vars
=============================================================================
