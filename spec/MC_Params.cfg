SPECIFICATION MCSpec
CONSTANTS
  MaxVal = 2
INVARIANTS RoundTrip EncodeFailsOnlyIfStuck UnambiguousSufficient UnambiguousNecessary MatchesIsEquality
CHECK_DEADLOCK FALSE
