SPECIFICATION Spec
CONSTANTS
  L = 3
  Pool <- MCPool
  Modes = {"fresh"}
  Lossy = FALSE
  Repaired = FALSE
INVARIANTS TypeOK
PROPERTIES DeleteKeepsOthers
CHECK_DEADLOCK FALSE
