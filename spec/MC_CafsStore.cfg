SPECIFICATION Spec
CONSTANTS
  L = 3
  Pool <- MCPoolQuick
  Modes = {"fresh"}
  Lossy = TRUE
  Repaired = FALSE
INVARIANTS TypeOK ReadableReads FreshReadsExact KeysExact RootKeysExact IncompleteExact StoreExact
PROPERTIES PutMakesReadable
CHECK_DEADLOCK FALSE
