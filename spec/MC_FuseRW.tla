----------------------------- MODULE MC_FuseRW -----------------------------
(* Bounded exhaustive sanity check of the reference model FuseRW.tla: every *)
(* operation the kernel may send over Names below every directory or file    *)
(* it holds, every admissible outcome, every admissible inode number out of  *)
(* a pool that is as small as the number of nodes (so that the file system   *)
(* is forced to re-use numbers).  Nodes are never re-used by the model, so   *)
(* bounding the number of creations (MaxNodes) and the lookup count (MaxCnt) *)
(* makes the state space finite: no depth bound is needed.                   *)
EXTENDS FuseRW

CONSTANTS MaxNodes,    \* creations (create + mkdir) per behaviour
          MaxCnt,      \* lookup count per node
          Offs, Lens, Sizes,
          InodePool    \* inode numbers the file system may report

Parents == {p \in Nodes : ParentOK(p)}
Files   == {n \in Nodes \ {Root} : kind[n] = "file" /\ cnt[n] > 0}

McOps ==
  {OpName(k, p, a) : k \in NameOps, p \in Parents, a \in Names}
  \cup {OpRename(p, a, q, b) : p \in Parents, a \in Names, q \in Parents, b \in Names}
  \cup {OpWrite(n, x, y, 1) : n \in Files, x \in Offs, y \in Lens}
  \cup {OpSetSize(n, x) : n \in Files, x \in Sizes}
  \cup {OpForget(n, x) : n \in Nodes \ {Root}, x \in 1..MaxCnt}

Bounded(o) ==
  /\ o.op \in {"create", "mkdir"} => Fresh <= MaxNodes
  /\ (o.op = "lookup" /\ Child(o.p, o.a) # None) => cnt[Child(o.p, o.a)] < MaxCnt

MCNext ==
  \E o \in McOps :
    /\ Bounded(o)
    /\ \E res \in Allowed(o) :
         \E i \in (IF res = "ok" /\ ReplyNode(o) # None THEN InodePool ELSE {0}) : Do(o, res, i)

MCSpec == Init /\ [][MCNext]_vars

\* every operation the kernel may send has an admissible outcome; "ok" excludes errors
OpsSane == \A o \in McOps : KernelMay(o) => AllowedSane(o)

\* the commit operator names every linked file exactly once
CommitSane ==
  /\ \A e1, e2 \in CommitOp : e1.p = e2.p => e1 = e2
  /\ Cardinality(CommitOp) = Cardinality({n \in Nodes : kind[n] = "file" /\ Linked(n)})
=============================================================================
