SPECIFICATION Spec
CONSTANTS
  NameLen = 1
  AnyLen = 2
  Rounds = 1
  Seed = 1
  Wide = FALSE
  Fams = {"build", "parse", "gen", "name", "desc"}
  OnlyKinds = {}
  ExceptKinds = {}
  OutFile = "cases.ndjson"
CONSTRAINT Dump
CHECK_DEADLOCK FALSE
