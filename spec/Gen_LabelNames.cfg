SPECIFICATION GSpec
CONSTANTS
  Pool <- GPool
  Sample = FALSE
  MaxNames = 5
  OutFile = "labelnames.ndjson"
CONSTRAINT Dump
CHECK_DEADLOCK FALSE
