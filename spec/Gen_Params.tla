----------------------------- MODULE Gen_Params -----------------------------
(* Case generation for C21: TLC chooses parameter SETS; every string field   *)
(* is given a value CLASS (the harness instantiates classes, seeded).        *)
(*                                                                           *)
(* Mode "single" (BFS, exhaustive): every well-formed baseline set (plain    *)
(*   values) with exactly one position replaced by every class - one case    *)
(*   per line, each distinct case exactly once.                              *)
(* Mode "random" (-simulate): PerLine independent cases per line; the        *)
(*   number of units, the shape and every field's class are drawn at random  *)
(*   under a profile (calm / mixed / wild).                                  *)
(*                                                                           *)
(* Classes: empty, plain, digits, semi (contains ";" / ":"), dotty,          *)
(* optletters (made of option names: S V sp dif true ...), punct, unicode,   *)
(* lo (all of 0-9:;<=>?@), AR, SZ (all letters A-R / S-Z), sym2 (all of      *)
(* [\]^_`), az, sym3 ({|}~), lo_AR lo_AU lo_AZ lo_bt lo_tilde (every         *)
(* candidate separator from "0" up to R / U / Z / ` / ~), lo_rand (up to a   *)
(* random one), most (all printable ASCII but 2-4 candidates).               *)
EXTENDS Naturals, Sequences, FiniteSets, TLC, Json, IOUtils

CONSTANTS Mode, PerLine, OutFile
VARIABLES hist, stage

gvars == <<hist, stage>>

Classes == { "empty", "plain", "digits", "semi", "dotty", "optletters", "punct", "unicode",
             "lo", "AR", "SZ", "sym2", "az", "sym3",
             "lo_AR", "lo_AU", "lo_AZ", "lo_bt", "lo_tilde", "lo_rand", "most" }
NameClasses == { "plain", "dup", "empty", "unicode", "digits", "lo_AZ", "most" }
PortClasses == { "std", "zero", "rand", "big" }

-----------------------------------------------------------------------------
(* well-formed baselines *)
E == "empty"
P == "plain"

FuseG(sleep) == [SleepInsteadOfExit |-> sleep, CoordPoint |-> P, ConfigBucketName |-> P, ContextName |-> P]
FuseSrcLabel  == [Name |-> P, SrcPath |-> P, SrcRepo |-> P, SrcLabel |-> P, SrcBundle |-> E,
                  DestPath |-> E, DestRepo |-> E, DestMessage |-> E, DestLabel |-> E, DestBundleID |-> E]
FuseSrcBundle == [FuseSrcLabel EXCEPT !.SrcLabel = E, !.SrcBundle = P]
FuseDest      == [Name |-> P, SrcPath |-> E, SrcRepo |-> E, SrcLabel |-> E, SrcBundle |-> E,
                  DestPath |-> P, DestRepo |-> P, DestMessage |-> P, DestLabel |-> P, DestBundleID |-> P]

PGG(sleep, ignv) == [SleepInsteadOfExit |-> sleep, IgnorePGVersionMismatch |-> ignv, CoordPoint |-> P,
                     ContributorName |-> E, ContributorEmail |-> E]
PGDest == [Name |-> P, Port |-> "std", DestRepo |-> P, DestMessage |-> P, DestLabel |-> P, DestBundleID |-> E,
           SrcRepo |-> E, SrcLabel |-> E, SrcBundle |-> E]
PGSrcLabel  == [PGDest EXCEPT !.SrcRepo = P, !.SrcLabel = P, !.DestLabel = E]
PGSrcBundle == [PGDest EXCEPT !.SrcRepo = P, !.SrcBundle = P]

Case(k, r, g, us) == [kind |-> k, route |-> r, g |-> g, units |-> us]

Baselines ==
  { Case("fuse", "builder", FuseG(TRUE),  <<FuseSrcLabel, FuseDest>>),
    Case("fuse", "yaml",    FuseG(FALSE), <<FuseSrcBundle, FuseDest>>),
    Case("pg",   "builder", PGG(TRUE, FALSE), <<PGDest, PGSrcLabel>>),
    Case("pg",   "yaml",    PGG(FALSE, TRUE), <<PGSrcBundle>>) }

StringFieldsG(c) == DOMAIN c.g \ {"SleepInsteadOfExit", "IgnorePGVersionMismatch"}
ClassesOf(f) == IF f = "Name" THEN NameClasses ELSE IF f = "Port" THEN PortClasses ELSE Classes

SinglesOf(c) ==
  { [c EXCEPT !.g[f] = x] : f \in StringFieldsG(c), x \in Classes }
  \cup
  { [c EXCEPT !.units[t[1]][t[2]] = t[3]] :
      t \in { u \in (DOMAIN c.units) \X (DOMAIN c.units[1]) \X (Classes \cup NameClasses \cup PortClasses) :
                u[3] \in ClassesOf(u[2]) } }
Singles == UNION { SinglesOf(c) : c \in Baselines }

-----------------------------------------------------------------------------
(* random sets *)
R(S) == RandomElement(S)
BagCalm  == << "plain", "plain", "plain", "empty", "empty", "digits", "digits", "semi", "dotty", "punct",
               "unicode", "optletters" >>
BagMixed == << "plain", "plain", "plain", "plain", "empty", "empty", "empty", "digits", "semi", "dotty", "punct",
               "unicode", "optletters", "lo", "AR", "SZ", "sym2", "az", "sym3",
               "lo_AR", "lo_AU", "lo_AZ", "lo_bt", "lo_tilde", "lo_rand", "lo_rand", "most" >>
BagWild  == << "plain", "empty", "semi", "optletters", "unicode", "lo", "AR", "SZ", "sym2", "az", "sym3",
               "lo_AR", "lo_AU", "lo_AZ", "lo_bt", "lo_tilde", "lo_rand", "lo_rand", "lo_rand", "most" >>
BagName  == << "plain", "plain", "plain", "plain", "plain", "plain", "dup", "empty", "unicode", "digits", "lo_AZ", "most" >>
BagPort  == << "std", "std", "rand", "rand", "zero", "big" >>
Draw(bag) == bag[R(1..Len(bag))]
Bag(prof) == IF prof = "calm" THEN BagCalm ELSE IF prof = "mixed" THEN BagMixed ELSE BagWild

RandFuseUnit(b) ==
  [Name |-> Draw(BagName), SrcPath |-> Draw(b), SrcRepo |-> Draw(b), SrcLabel |-> Draw(b), SrcBundle |-> Draw(b),
   DestPath |-> Draw(b), DestRepo |-> Draw(b), DestMessage |-> Draw(b), DestLabel |-> Draw(b), DestBundleID |-> Draw(b)]
RandPGUnit(b) ==
  [Name |-> Draw(BagName), Port |-> Draw(BagPort), DestRepo |-> Draw(b), DestMessage |-> Draw(b), DestLabel |-> Draw(b),
   DestBundleID |-> Draw(b), SrcRepo |-> Draw(b), SrcLabel |-> Draw(b), SrcBundle |-> Draw(b)]
\* a required field is rarely empty, so that most sets reach the encoder
Req(b) == LET x == Draw(b) IN IF x = "empty" THEN Draw(<<"plain", "plain", "plain", "empty">>) ELSE x

RandCase(k, prof, n) ==
  LET b == Bag(prof)
  IN IF k = "fuse"
       THEN Case("fuse", R({"builder", "yaml"}),
                 [SleepInsteadOfExit |-> R(BOOLEAN), CoordPoint |-> Req(b), ConfigBucketName |-> Req(b),
                  ContextName |-> Req(b)],
                 [i \in 1..n |-> RandFuseUnit(b)])
       ELSE Case("pg", R({"builder", "yaml"}),
                 [SleepInsteadOfExit |-> R(BOOLEAN), IgnorePGVersionMismatch |-> R(BOOLEAN), CoordPoint |-> Req(b),
                  ContributorName |-> Draw(<<"empty", "empty", "empty", "plain", "unicode">>),
                  ContributorEmail |-> Draw(<<"empty", "empty", "empty", "plain", "digits">>)],
                 [i \in 1..n |-> RandPGUnit(b)])

\* a shape-preserving random case: a baseline whose non-empty fields are redrawn
\* (these pass the builder API's validation, so both routes are exercised)
Redraw(x, b) == IF x = "empty" THEN x ELSE LET y == Draw(b) IN IF y = "empty" THEN "plain" ELSE y
ShapedCase(c, prof) ==
  LET b == Bag(prof)
  IN [c EXCEPT !.route = R({"builder", "yaml"}),
               !.g = [f \in DOMAIN c.g |-> IF f \in StringFieldsG(c) THEN Redraw(c.g[f], b)
                                                                     ELSE R(BOOLEAN)],
               !.units = [i \in DOMAIN c.units |->
                            [f \in DOMAIN c.units[i] |->
                               IF f = "Name" THEN "plain" ELSE IF f = "Port" THEN Draw(<<"std", "rand", "big">>)
                               ELSE Redraw(c.units[i][f], b)]]]

\* (takes the state as a parameter: TLC evaluates a constant-level definition
\* without parameters only once, which would make every line the same)
RandLine(h) ==
  [j \in (Len(h) + 1)..(Len(h) + PerLine) |->
     IF R(1..3) = 1
       THEN ShapedCase(R(Baselines), R({"calm", "mixed", "wild"}))
       ELSE RandCase(R({"fuse", "pg"}), R({"calm", "mixed", "wild"}), R(0..3))]

-----------------------------------------------------------------------------
GInit == hist = <<>> /\ stage = "pick"

GSingle == /\ Mode = "single" /\ stage = "pick"
           /\ \E c \in Singles : hist' = <<c>>
           /\ stage' = "done"
GRandom == /\ Mode = "random" /\ stage = "pick"
           /\ hist' = RandLine(hist)
           /\ stage' = "done"
GNext == GSingle \/ GRandom
GSpec == GInit /\ [][GNext]_gvars

Dump == stage = "done" =>
          Serialize(<<hist>>, OutFile,
                    [format |-> "NDJSON", charset |-> "UTF-8",
                     openOptions |-> <<"WRITE", "CREATE", "APPEND">>])
=============================================================================
