SPECIFICATION GSpec
CONSTANTS
  L = 3
  Names = {"a", "a.b", "ü"}
  MaxDepth = 2
  MaxFiles = 2
  Sizes = {0, 4, 7}
  Tags = {1}
  MaxCap = 3
  MaxOps = 20
  MaxChain = 2
  MaxTries = 12
  MaxTotal = 6
  BulkMin = 0
  BulkMax = 3
  Concs = {"boundary"}
  Caps = {0, 1, 2}
  Kinds = {1, 2, 3, 4, 5, 6, 7, 8}
  Rand = FALSE
  OutFile = "beh.ndjson"
CONSTRAINT Dump
CHECK_DEADLOCK FALSE
