---------------------------- MODULE MC_Tracker ----------------------------
(* Bounded model: every bitmap reachable by writes within the bound; the   *)
(* result operators are sound in every state (the bitmap only: <= 2^(N+1)  *)
(* states, however long the write sequences are).                          *)
EXTENDS Tracker
=============================================================================
