--------------------------- MODULE ConcurrentTrace ---------------------------
(* Binding (B) for C15: the store calls recorded while 2..16 real           *)
(* operations (core.Upload, CreateDiamond + CreateSplit + Split.Upload +    *)
(* Diamond.Commit, core.Publish, Label.UploadDescriptor) run concurrently   *)
(* over shared stores are validated event by event against Concurrent.tla:  *)
(*  - every read returns what the specification state says (so the state    *)
(*    below IS the state of the real stores),                               *)
(*  - every write has the outcome create-if-absent semantics give it, obeys *)
(*    the store discipline (Concurrent!WriteVerdict), is issued by a        *)
(*    running operation, and everything under one bundle id comes from one  *)
(*    client,                                                               *)
(*  - when an operation ends it reports success and the part of the stores  *)
(*    under its own names is what it produces alone (Concurrent!PortionOK), *)
(*  - at the end of a workload the abstract state is the union of the       *)
(*    per-operation results,                                                *)
(*  - the invariants and action properties of Concurrent.tla hold in every  *)
(*    state of the real execution.                                          *)
(* An event that is not allowed is REPORTED ("rejected", position, workload,*)
(* event, rule) and the rest of its workload is skipped, so that one run    *)
(* reports every offending workload.                                        *)
EXTENDS Concurrent, Json, TLCExt

VARIABLES l,          \* position in the trace
          wl,         \* label of the current workload
          active,     \* clients whose operation is running
          ended,      \* clients whose operation has ended
          owner,      \* bundle id -> the client that wrote under it
          idxRead,    \* client -> index files <<bundle, i>> it has read
          deviations  \* writes to objects the specification does not describe

tvars == <<meta, vmeta, blob, verdict, l, wl, active, ended, owner, idxRead, deviations>>

TraceLog == ndJsonDeserialize("trace.ndjson")
Ev == TraceLog[l]
ToSet(q) == {q[i] : i \in DOMAIN q}
V(v) == Val(v.count, ToSet(v.hashes), ToSet(v.entries), v.bulk, v.bundle, v.state, v.gen)
Get(f, k, d) == IF k \in DOMAIN f THEN f[k] ELSE d
Running(c) == c \in active \/ c = "setup"

Fresh == /\ meta = << >> /\ vmeta = << >> /\ blob = {} /\ verdict = "ok"
         /\ active = {} /\ ended = {} /\ owner = << >> /\ idxRead = << >>
TInit == l = 1 /\ wl = "none" /\ deviations = 0 /\ Fresh

\* ---------------------------------------------------------------- what each event must satisfy
OpOfEnd(e) == [kind |-> e.kind, b |-> e.bundle, d |-> e.d, n |-> e.n,
               entries |-> ToSet(e.exp.entries), bulk |-> e.exp.bulk, hashes |-> ToSet(e.exp.hashes)]

ExpLabels(L) == [n \in {x.n : x \in L} |-> (CHOOSE x \in L : x.n = n).b]
ExpDiamonds(D) == [d \in {x.d : x \in D} |-> [state |-> "done", bundle |-> (CHOOSE x \in D : x.d = d).b]]

Judge(e) ==
  CASE e.op = "write" ->
         IF e.key.k = "other" THEN "ok"
         ELSE IF e.res \notin {"ok", "exists"} THEN "store-error"
         ELSE IF e.res # PutRes(e.store, e.key, e.excl) THEN "write-outcome-differs-from-the-store-state"
         ELSE IF ~Running(e.client) THEN "write-outside-an-operation"
         ELSE IF e.key.k \in {"idx", "desc"} /\ Get(owner, e.key.x, e.client) # e.client THEN "bundle-id-written-by-two-clients"
         ELSE IF WriteVerdict(e.store, e.key, V(e.val), e.excl) # "ok" THEN WriteVerdict(e.store, e.key, V(e.val), e.excl)
         ELSE IF e.res = "exists" THEN "create-if-absent-found-the-object-of-a-disjoint-name"
         ELSE "ok"
    [] e.op = "read" -> IF e.found = Has(e.store, e.key) THEN "ok" ELSE "read-differs-from-the-store-state"
    [] e.op = "bread" -> IF e.found = (e.h \in blob) THEN "ok" ELSE "content-read-differs-from-the-store-state"
    [] e.op = "bwrite" -> IF Running(e.client) THEN "ok" ELSE "write-outside-an-operation"
    [] e.op = "start" -> IF e.client \notin active \cup ended THEN "ok" ELSE "operation-started-twice"
    [] e.op = "end" ->
         IF e.client \notin active THEN "operation-ended-without-start"
         ELSE IF ~e.ok THEN "operation-failed"
         ELSE IF e.kind \in {"upload", "split"} /\ Get(owner, e.bundle, "") # e.client THEN "bundle-not-written-by-its-operation"
         ELSE IF ~PortionOK(OpOfEnd(e)) THEN "result-differs-from-the-operation-alone"
         ELSE IF e.kind = "download" /\ ~({<<e.bundle, i>> : i \in Below(meta[KDesc(e.bundle)].count)} \subseteq Get(idxRead, e.client, {}))
                THEN "download-did-not-read-every-index-file"
         ELSE "ok"
    [] e.op = "final" ->
         IF active # {} THEN "operation-still-running-at-the-end"
         ELSE IF VisibleBundles # ToSet(e.bundles) THEN "final-bundles-differ-from-the-union-of-results"
         ELSE IF Abs.labels # ExpLabels(ToSet(e.labels)) THEN "final-labels-differ-from-the-union-of-results"
         ELSE IF Abs.diamonds # ExpDiamonds(ToSet(e.diamonds)) THEN "final-diamonds-differ-from-the-union-of-results"
         ELSE "ok"
    [] e.op = "delete" -> "object-deleted-or-touched"
    [] e.op = "storeerror" -> "store-error"
    [] OTHER -> "unknown-event"

\* ---------------------------------------------------------------- the effect of an allowed event
Apply(e) ==
  CASE e.op = "write" ->
         /\ IF e.key.k = "other"
              THEN deviations' = deviations + 1 /\ UNCHANGED <<meta, vmeta, blob, verdict, owner>>
              ELSE /\ Put(e.store, e.key, V(e.val), e.excl)
                   /\ owner' = IF e.key.k \in {"idx", "desc"} THEN Upd(owner, e.key.x, e.client) ELSE owner
                   /\ UNCHANGED deviations
         /\ UNCHANGED <<active, ended, idxRead>>
    [] e.op = "read" ->
         /\ idxRead' = IF e.key.k = "idx" /\ e.found
                         THEN Upd(idxRead, e.client, Get(idxRead, e.client, {}) \cup {<<e.key.x, e.key.i>>}) ELSE idxRead
         /\ UNCHANGED <<meta, vmeta, blob, verdict, active, ended, owner, deviations>>
    [] e.op = "bwrite" -> PutBlob(e.h) /\ UNCHANGED <<active, ended, owner, idxRead, deviations>>
    [] e.op = "start" -> active' = active \cup {e.client} /\ UNCHANGED <<meta, vmeta, blob, verdict, ended, owner, idxRead, deviations>>
    [] e.op = "end" -> /\ active' = active \ {e.client} /\ ended' = ended \cup {e.client}
                       /\ UNCHANGED <<meta, vmeta, blob, verdict, owner, idxRead, deviations>>
    [] OTHER -> UNCHANGED <<meta, vmeta, blob, verdict, active, ended, owner, idxRead, deviations>>

\* the position of the next workload
NextReset == CHOOSE j \in (l + 1)..(Len(TraceLog) + 1) :
               /\ j = Len(TraceLog) + 1 \/ TraceLog[j].op = "reset"
               /\ \A i \in (l + 1)..(j - 1) : TraceLog[i].op # "reset"

TReset ==
  /\ l <= Len(TraceLog) /\ Ev.op = "reset"
  /\ l' = l + 1 /\ wl' = Ev.w
  /\ meta' = << >> /\ vmeta' = << >> /\ blob' = {} /\ verdict' = "ok"
  /\ active' = {} /\ ended' = {} /\ owner' = << >> /\ idxRead' = << >>
  /\ UNCHANGED deviations
TAccept ==
  /\ l <= Len(TraceLog) /\ Ev.op # "reset"
  /\ Judge(Ev) = "ok"
  /\ l' = l + 1 /\ Apply(Ev) /\ UNCHANGED wl
TRefuse ==
  /\ l <= Len(TraceLog) /\ Ev.op # "reset"
  /\ Judge(Ev) # "ok"
  /\ PrintT(<<"rejected", l, wl, Ev.op, Judge(Ev)>>)
  /\ l' = NextReset
  /\ UNCHANGED <<meta, vmeta, blob, verdict, wl, active, ended, owner, idxRead, deviations>>

TNext == TReset \/ TAccept \/ TRefuse
TSpec == TInit /\ [][TNext]_tvars

\* the action properties of Concurrent.tla, within a workload
NewWorkload == l <= Len(TraceLog) /\ Ev.op = "reset"
TWriteOnce == [][NewWorkload \/ WriteOnceStep]_tvars
TVisibleImmutable == [][NewWorkload \/ VisibleImmutableStep]_tvars

HighWater == TLCSet(1, l) /\ TLCSet(2, deviations)
ReportPos == PrintT(<<"trace-position", TLCGet(1), "of", Len(TraceLog)>>) /\ PrintT(<<"deviations", TLCGet(2)>>)
PostCond == ReportPos /\ TLCGet(1) = Len(TraceLog) + 1
=============================================================================
