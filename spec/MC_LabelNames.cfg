SPECIFICATION Spec
CONSTANTS
  Pool <- MCPool
INVARIANTS AcceptedListed PrefixExact
PROPERTIES SetAddsOnlyItself
CHECK_DEADLOCK FALSE
