------------------------------ MODULE Diamond ------------------------------
(* The diamond protocol (pkg/core diamond*.go, split*.go) over a            *)
(* create-if-absent object store, one action per store call:                *)
(*   diamond-running / diamond-done markers, split-running / split-done     *)
(*   markers, file lists per (split, generation), bundle file list and      *)
(*   bundle descriptor.                                                     *)
(* Clients: split runners (CreateSplit + Upload), committers, cancelers;    *)
(* any client may crash at any step; committers may retry.                  *)
EXTENDS Naturals, Sequences, FiniteSets, TLC

CONSTANTS Splits,       \* split ids
          Runners,      \* client ids running splits: function runner -> split id is RunnerSplit
          RunnerSplit,
          Committers, Cancelers,
          MaxRetry,     \* retries per committer
          FixedCommit   \* TRUE: the proposed repair (reserve the diamond before publishing the bundle)

Clients == Runners \cup Committers \cup Cancelers
None == [none |-> TRUE]

VARIABLES
  dDone,     \* None or [state |-> "done"|"canceled", by |-> client]        diamond-done.yaml (create-if-absent)
  sRunning,  \* [Splits -> BOOLEAN]                                          split-running.yaml
  sDone,     \* [Splits -> None or [gen |-> runner]]                         split-done.yaml (create-if-absent)
  lists,     \* set of generations (= the runner that wrote it) whose file list is complete
  bIdx,      \* set of committers whose bundle file list is written
  bDesc,     \* function: committer (bundle) -> snapshot it was built from   bundle.yaml
  pc, loc,   \* per client program counter and local variables
  retries,   \* per committer
  result     \* per client: "none" | "ok" | "refused" | "failed"

dvars == <<dDone, sRunning, sDone, lists, bIdx, bDesc, pc, loc, retries, result>>

Terminal == dDone # None

Init ==
  /\ dDone = None
  /\ sRunning = [s \in Splits |-> FALSE]
  /\ sDone = [s \in Splits |-> None]
  /\ lists = {} /\ bIdx = {} /\ bDesc = << >>
  /\ pc = [c \in Clients |-> "start"]
  /\ loc = [c \in Clients |-> [ready |-> FALSE, sawDone |-> FALSE, sawRunning |-> FALSE, snap |-> << >>, startDone |-> {}, muts |-> 0]]
  /\ retries = [c \in Committers |-> 0]
  /\ result = [c \in Clients |-> "none"]

Set(f, c, v) == [f EXCEPT ![c] = v]
Goto(c, l) == pc' = Set(pc, c, l)
Finish(c, r) == pc' = Set(pc, c, "end") /\ result' = Set(result, c, r)
Mutated(c) == loc' = Set(loc, c, [loc[c] EXCEPT !.muts = @ + 1])

\* ------------------------------------------------------------ split runner
\* CreateSplit: ready check (read diamond-done)
RReady(c) ==
  /\ pc[c] = "start" /\ c \in Runners
  /\ IF Terminal THEN Finish(c, "refused") /\ UNCHANGED loc
     ELSE Goto(c, "readdone") /\ UNCHANGED <<loc, result>>
  /\ UNCHANGED <<dDone, sRunning, sDone, lists, bIdx, bDesc, retries>>
\* read split-done
RReadDone(c) ==
  /\ pc[c] = "readdone"
  /\ IF sDone[RunnerSplit[c]] # None THEN Finish(c, "refused") ELSE Goto(c, "readrunning") /\ UNCHANGED result
  /\ UNCHANGED <<dDone, sRunning, sDone, lists, bIdx, bDesc, loc, retries>>
\* read split-running: an existing running marker is reused, else it is created
RReadRunning(c) ==
  /\ pc[c] = "readrunning"
  /\ Goto(c, IF sRunning[RunnerSplit[c]] THEN "putlist" ELSE "putrunning")
  /\ UNCHANGED <<dDone, sRunning, sDone, lists, bIdx, bDesc, loc, retries, result>>
RPutRunning(c) ==
  /\ pc[c] = "putrunning"
  /\ IF sRunning[RunnerSplit[c]]
       THEN Finish(c, "failed") /\ UNCHANGED <<sRunning, loc>>          \* create-if-absent lost the race
       ELSE sRunning' = Set(sRunning, RunnerSplit[c], TRUE) /\ Goto(c, "putlist") /\ Mutated(c) /\ UNCHANGED result
  /\ UNCHANGED <<dDone, sDone, lists, bIdx, bDesc, retries>>
\* Upload: file list under a fresh generation, then split-done (create-if-absent)
RPutList(c) ==
  /\ pc[c] = "putlist"
  /\ lists' = lists \cup {c} /\ Goto(c, "putdone") /\ Mutated(c)
  /\ UNCHANGED <<dDone, sRunning, sDone, bIdx, bDesc, retries, result>>
RPutDone(c) ==
  /\ pc[c] = "putdone"
  /\ IF sDone[RunnerSplit[c]] # None
       THEN Finish(c, "failed") /\ UNCHANGED <<sDone, loc>>
       ELSE sDone' = Set(sDone, RunnerSplit[c], [gen |-> c]) /\ Finish(c, "ok") /\ Mutated(c)
  /\ UNCHANGED <<dDone, sRunning, lists, bIdx, bDesc, retries>>

\* ------------------------------------------------------------ committer
DoneSplits == {s \in Splits : sDone[s] # None}
CReady(c) ==
  /\ pc[c] = "start" /\ c \in Committers
  /\ IF Terminal THEN Finish(c, "refused") /\ UNCHANGED loc
     ELSE /\ Goto(c, IF FixedCommit THEN "reserve" ELSE "snapshot")
          /\ loc' = Set(loc, c, [loc[c] EXCEPT !.ready = TRUE, !.startDone = DoneSplits])
          /\ UNCHANGED result
  /\ UNCHANGED <<dDone, sRunning, sDone, lists, bIdx, bDesc, retries>>
\* listing of the split markers, then their (write-once) descriptors
CSnapshot(c) ==
  /\ pc[c] = "snapshot"
  /\ LET snap == [s \in DoneSplits |-> sDone[s].gen]
     IN IF DOMAIN snap = {} THEN Finish(c, "failed") /\ UNCHANGED loc
        ELSE Goto(c, "putidx") /\ loc' = Set(loc, c, [loc[c] EXCEPT !.snap = snap]) /\ UNCHANGED result
  /\ UNCHANGED <<dDone, sRunning, sDone, lists, bIdx, bDesc, retries>>
CPutIdx(c) ==
  /\ pc[c] = "putidx"
  /\ bIdx' = bIdx \cup {c} /\ Goto(c, "putdesc") /\ Mutated(c)
  /\ UNCHANGED <<dDone, sRunning, sDone, lists, bDesc, retries, result>>
CPutDesc(c) ==
  /\ pc[c] = "putdesc"
  /\ bDesc' = (c :> loc[c].snap) @@ bDesc /\ Mutated(c)
  /\ Goto(c, IF FixedCommit THEN "end" ELSE "putdiamond")
  /\ result' = IF FixedCommit THEN Set(result, c, "ok") ELSE result
  /\ UNCHANGED <<dDone, sRunning, sDone, lists, bIdx, retries>>
\* diamond-done (create-if-absent): as the code does it, AFTER the bundle is visible
CPutDiamond(c) ==
  /\ pc[c] = "putdiamond"
  /\ IF Terminal THEN Finish(c, "failed") /\ UNCHANGED <<dDone, loc>>
     ELSE dDone' = [state |-> "done", by |-> c] /\ Finish(c, "ok") /\ Mutated(c)
  /\ UNCHANGED <<sRunning, sDone, lists, bIdx, bDesc, retries>>
\* the proposed repair: win the diamond-done marker first, publish the bundle afterwards
CReserve(c) ==
  /\ pc[c] = "reserve"
  /\ IF Terminal THEN Finish(c, "refused") /\ UNCHANGED <<dDone, loc>>
     ELSE dDone' = [state |-> "done", by |-> c] /\ Goto(c, "snapshot") /\ Mutated(c) /\ UNCHANGED result
  /\ UNCHANGED <<sRunning, sDone, lists, bIdx, bDesc, retries>>
\* a failed or crashed commit may be retried
CRetry(c) ==
  /\ c \in Committers /\ pc[c] \in {"end", "crashed"} /\ result[c] # "ok" /\ retries[c] < MaxRetry
  /\ retries' = Set(retries, c, retries[c] + 1)
  /\ pc' = Set(pc, c, "start") /\ result' = Set(result, c, "none")
  /\ loc' = Set(loc, c, [loc[c] EXCEPT !.ready = FALSE, !.snap = << >>, !.muts = 0])
  /\ UNCHANGED <<dDone, sRunning, sDone, lists, bIdx, bDesc>>

\* ------------------------------------------------------------ canceler
XRead(c) ==
  /\ pc[c] = "start" /\ c \in Cancelers
  /\ IF Terminal THEN Finish(c, "refused") ELSE Goto(c, "putcancel") /\ UNCHANGED result
  /\ UNCHANGED <<dDone, sRunning, sDone, lists, bIdx, bDesc, loc, retries>>
XPut(c) ==
  /\ pc[c] = "putcancel"
  /\ IF Terminal THEN Finish(c, "failed") /\ UNCHANGED <<dDone, loc>>
     ELSE dDone' = [state |-> "canceled", by |-> c] /\ Finish(c, "ok") /\ Mutated(c)
  /\ UNCHANGED <<sRunning, sDone, lists, bIdx, bDesc, retries>>

Crash(c) ==
  /\ pc[c] \notin {"end", "crashed"}
  /\ pc' = Set(pc, c, "crashed")
  /\ UNCHANGED <<dDone, sRunning, sDone, lists, bIdx, bDesc, loc, retries, result>>

Next ==
  \E c \in Clients :
     \/ RReady(c) \/ RReadDone(c) \/ RReadRunning(c) \/ RPutRunning(c) \/ RPutList(c) \/ RPutDone(c)
     \/ CReady(c) \/ CSnapshot(c) \/ CPutIdx(c) \/ CPutDesc(c) \/ CPutDiamond(c) \/ CReserve(c) \/ CRetry(c)
     \/ XRead(c) \/ XPut(c)
     \/ Crash(c)

Spec == Init /\ [][Next]_dvars

\* ------------------------------------------------------------ properties
Bundles == DOMAIN bDesc
\* a diamond produces at most one bundle
AtMostOneBundle == Cardinality(Bundles) <= 1
\* at most one commit reports success
AtMostOneSuccessfulCommit == Cardinality({c \in Committers : result[c] = "ok"}) <= 1
\* an operation whose ready check saw a terminal diamond wrote nothing and did not succeed
RefusedAfterTerminal == \A c \in Clients : result[c] = "refused" => loc[c].muts = 0
\* commit and cancel are exclusive, terminal markers are never replaced
TerminalStable == [][dDone # None => dDone' = dDone]_dvars
\* a completed split is never replaced by another run
DoneSplitImmutable == [][\A s \in Splits : sDone[s] # None => sDone'[s] = sDone[s]]_dvars
\* a bundle is built from exactly the runs recorded as completing each split that was
\* complete when the commit started, each with its complete file list
BundleFromRecordedRuns ==
  \A b \in Bundles :
     /\ \A s \in DOMAIN bDesc[b] : sDone[s] # None /\ bDesc[b][s] = sDone[s].gen /\ bDesc[b][s] \in lists
     /\ loc[b].startDone \subseteq DOMAIN bDesc[b] \/ retries[b] > 0
\* success of a commit implies its bundle is visible and the diamond is done
CommitOkMeansDone ==
  \A c \in Committers : result[c] = "ok" => c \in Bundles /\ dDone # None /\ dDone.state = "done"
\* a canceled diamond never gets a bundle after the cancellation... (not guaranteed: see AtMostOneBundle)
=============================================================================
