------------------------------ MODULE MC_Wal ------------------------------
(* Bounded model of the write-ahead log: every interleaving of the store    *)
(* calls of up to MaxAdds appends per client with clock ticks (sub-second    *)
(* and multi-second) and adversarial nonces (equal nonces collide, nonce 0   *)
(* is the nonce of the look-back bound).  Whenever the log changes, the      *)
(* listing operator is checked against the declarative demands of C19 for    *)
(* every stored token, synthetic tokens in every second around them and      *)
(* every max.                                                                *)
(* A tailing reader (re-lists from the last token it was given) shows what   *)
(* the look-back is for: it can still reach everything it has not seen as    *)
(* long as an append takes no longer than MaxAddSecs <= Lookback between     *)
(* reading the generator time and writing the entry (MC_Wal_reader.cfg).     *)
EXTENDS Wal

CONSTANTS MaxAdds,     \* appends per client
          MaxClock,    \* ticks
          TickSteps,   \* tick amounts
          Nonces,      \* nonces an append may draw
          Maxes,       \* listing maxima
          MaxAddSecs,  \* an append completes within that many seconds (reader property only)
          WithReader   \* BOOLEAN: include the tailing reader

VARIABLES cursor,  \* reader: token it lists from
          seen     \* reader: entries it has been given

mvars == <<clock, genTime, entries, pc, cur, issued, cursor, seen>>

Symm == Permutations(Clients)
MCNoPay == <<"none", 0>>

MCInit == Init /\ cursor = <<0, 0>> /\ seen = {}

\* after the tick no append in flight holds (or may still read) a generator
\* time older than MaxAddSecs
TickAllowed(d) ==
  \A c \in Clients : /\ (pc[c] = "put" => Sec(clock + d) - cur[c].time <= MaxAddSecs)
                      /\ (pc[c] = "attr" => Sec(clock + d) - Sec(genTime) <= MaxAddSecs)

Poll(m) ==
  /\ WithReader
  /\ LET res == ListOp(entries, cursor, m)
     IN /\ SeqSet(res) \ seen # {}          \* only polls that make progress (finite model)
        /\ seen' = seen \cup SeqSet(res)
        /\ cursor' = res[Len(res)].tok      \* "use the last entry of the previous call"
  /\ UNCHANGED wvars

MCNext ==
  \/ \E c \in Clients : cur[c].n < MaxAdds /\ Begin(c, <<c, cur[c].n + 1>>) /\ UNCHANGED <<cursor, seen>>
  \/ \E c \in Clients : (Touch(c) \/ Attr(c) \/ Return(c)) /\ UNCHANGED <<cursor, seen>>
  \/ \E c \in Clients, n \in Nonces : Put(c, n) /\ UNCHANGED <<cursor, seen>>
  \/ \E d \in TickSteps : clock + d <= MaxClock /\ (WithReader => TickAllowed(d)) /\ Tick(d)
                          /\ UNCHANGED <<cursor, seen>>
  \/ \E m \in Maxes : Poll(m)

MCSpec == MCInit /\ [][MCNext]_mvars

----------------------------------------------------------------------------
\* tokens a listing may start from: every stored token, and synthetic tokens
\* in every second around them, below and above every nonce
FromTokens == Tokens(entries) \cup {<<s, n>> : s \in 0..(Sec(MaxClock) + Lookback + 1), n \in {0, 99}}

ListNoDupOrdered ==
  \A f \in FromTokens, m \in Maxes : NoDupOrderedP(ListOp(entries, f, m))
ListIncludesWindow ==
  \A f \in FromTokens, m \in Maxes : IncludesWindowP(entries, f, m, ListOp(entries, f, m))
EntryUnchanged ==
  \A f \in FromTokens, m \in Maxes : EntryUnchangedP(entries, ListOp(entries, f, m))
\* the look-back reaches every entry of the last Lookback seconds before the token
ListReachesBack ==
  \A f \in FromTokens : \A e \in entries :
     (f[1] - Lookback <= e.tok[1]) => e \in SeqSet(ListOp(entries, f, Cardinality(entries)))
\* without the cap the listing is exactly the window, and a larger max only extends it
ListPrefixOfWindow ==
  \A f \in FromTokens :
     /\ SeqSet(ListOp(entries, f, Cardinality(entries) + 1)) = Window(entries, f)
     /\ \A m \in Maxes : LET l == ListOp(entries, f, m)
                              w == ListOp(entries, f, Cardinality(entries) + 1)
                          IN Len(l) <= Len(w) /\ l = SubSeq(w, 1, Len(l))

(* The listing properties depend on the log only.  They are checked by a    *)
(* second, exhaustive model over EVERY log with unique tokens in the token   *)
(* universe Secs x Nonces (ListSpec, MC_Wal_list.cfg); every log the process *)
(* model reaches is one of them (TypeOK, TokensUnique).                      *)
ListNext ==
  /\ \E s \in 0..Sec(MaxClock), n \in Nonces :
        /\ <<s, n>> \notin Tokens(entries)
        /\ entries' = entries \cup {[tok |-> <<s, n>>, pay |-> <<"p", s + n>>]}
  /\ UNCHANGED <<clock, genTime, pc, cur, issued, cursor, seen>>
ListSpec == MCInit /\ [][ListNext]_mvars

\* the reader can still reach everything it has not seen
MissedNothing ==
  WithReader => \A e \in entries \ seen : TokLeq(LowBound(cursor), e.tok)

TypeOK ==
  /\ clock \in 0..MaxClock /\ genTime \in 0..MaxClock
  /\ \A e \in entries : e.tok[1] \in 0..Sec(MaxClock) /\ e.tok[2] \in Nonces
  /\ \A c \in Clients : pc[c] \in {"idle", "touch", "attr", "put", "ret"}
=============================================================================
