----------------------------- MODULE Gen_Cafs -----------------------------
(* Behaviour generation for the content store (binding A).  A behaviour is  *)
(* a history of up to MaxPuts Puts into one blob store; every Put is a      *)
(* schedule of Write calls (deliver k cells) and flush completions, ending  *)
(* with Finish.  Each finished Put carries the result and the blob set the  *)
(* specification defines.  In BFS mode every distinct history is a distinct *)
(* state, so the bounded space is enumerated exactly once.                  *)
EXTENDS Cafs, Json, IOUtils

CONSTANTS MaxPuts, OutFile, Family,  \* Family: "ident" | "valued"
          EndEarly                   \* histories may end before MaxPuts puts
VARIABLES hist,    \* finished puts
          events,  \* schedule of the current put
          stage    \* "run" | "done"

gvars == <<wvars, hist, events, stage>>

Ident(n) == [i \in 1..n |-> i]

\* contents of the valued family: a base, a proper prefix of it, the base with
\* the last leaf changed, the base twice, the empty content
Base == <<1, 2, 1, 2, 2, 1, 1>>            \* 2 full leaves + 1 cell  (L = 3)
ValuedContents == { Base, SubSeq(Base, 1, 6), SubSeq(Base, 1, 3), SubSeq(Base, 1, 4),
                    <<1, 2, 1, 2, 2, 1, 2>>, Base \o Base, <<1, 2, 1>> \o <<1, 2, 1>>,
                    <<>>, <<1>>, <<2>> }
Contents == IF Family = "ident" THEN {Ident(n) : n \in 0..MaxN} ELSE ValuedContents

Fresh(c, k) ==
  /\ content = c /\ cc = k
  /\ delivered = 0 /\ pending = 0 /\ buf = 0 /\ started = 0
  /\ inflight = {} /\ flushed = <<>>
  /\ phase = "write" /\ res = [written |-> 0]

GInit == /\ \E c \in Contents, k \in Conc : Fresh(c, k)
         /\ blobs = << >>
         /\ hist = <<>> /\ events = <<>> /\ stage = "run"

Ev(r) == events' = Append(events, r)

GDeliver(k) == Deliver(k) /\ Ev([ev |-> "deliver", cells |-> ChunkSize(k)]) /\ UNCHANGED <<hist, stage>>
GInternal == (Fill \/ StartFlush) /\ UNCHANGED <<hist, events, stage>>
GFlushDone(i) == FlushDone(i) /\ Ev([ev |-> "flushdone", leaf |-> i]) /\ UNCHANGED <<hist, stage>>
GFinish ==
  /\ Finish
  /\ hist' = Append(hist, [content |-> content, cc |-> cc, events |-> events,
                            res |-> res', blobkeys |-> DOMAIN blobs'])
  /\ events' = <<>>
  /\ UNCHANGED stage

\* start the next put of the history on the same blob store
GNextPut(c, k) ==
  /\ phase = "done" /\ stage = "run" /\ Len(hist) < MaxPuts
  /\ content' = c /\ cc' = k
  /\ delivered' = 0 /\ pending' = 0 /\ buf' = 0 /\ started' = 0
  /\ inflight' = {} /\ flushed' = <<>> /\ phase' = "write" /\ res' = [written |-> 0]
  /\ UNCHANGED <<blobs, hist, events, stage>>

GEnd == /\ phase = "done" /\ stage = "run"
        /\ (IF EndEarly THEN TRUE ELSE Len(hist) = MaxPuts)
        /\ stage' = "done"
        /\ UNCHANGED <<wvars, hist, events>>

GNext == /\ stage = "run"
         /\ \/ \E k \in Chunks : GDeliver(k)
            \/ GInternal
            \/ \E i \in inflight : GFlushDone(i)
            \/ GFinish
            \/ \E c \in Contents, k \in Conc : GNextPut(c, k)
            \/ GEnd

GSpec == GInit /\ [][GNext]_gvars

Dump == stage = "done" =>
          Serialize(<<hist>>, OutFile,
                    [format |-> "NDJSON", charset |-> "UTF-8",
                     openOptions |-> <<"WRITE", "CREATE", "APPEND">>])

\* ---- properties of histories (C02), checked while generating
\* equal contents get equal keys, different contents different keys
KeyFunctional ==
  \A i, j \in DOMAIN hist :
     (hist[i].content = hist[j].content) <=> (hist[i].res.key = hist[j].res.key)
\* a Put reports a duplicate iff the same content was stored before
FoundIffStoredBefore ==
  \A j \in DOMAIN hist :
     hist[j].res.found <=> (\E i \in 1..(j-1) : hist[i].content = hist[j].content)
\* no blob is ever rewritten with different bytes, or removed
WriteOnce == [][\A k \in DOMAIN blobs : k \in DOMAIN blobs' /\ blobs'[k] = blobs[k]]_gvars
=============================================================================
