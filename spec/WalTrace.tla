----------------------------- MODULE WalTrace -----------------------------
(* Binding (B) for the write-ahead log (C19).  A trace is the sequence of   *)
(* store calls the REAL wal.Add made (Touch / GetAttr of the token generator *)
(* and the create-if-absent Put into the wal store, recorded inside the      *)
(* store's critical section), the driver's clock ticks, the begin / return   *)
(* of every Add and the results of the REAL wal.ListEntries.                 *)
(*                                                                           *)
(*  - reads (attr) must return what the specification state says, so the     *)
(*    state below IS the state of the real stores;                           *)
(*  - every put must be the Put action of Wal.tla for that client: its token *)
(*    carries the generator time the client has just read;                   *)
(*  - every returned token and every listing result is judged by the         *)
(*    properties of Wal.tla on the real state: TokensUnique,                 *)
(*    LaterSecondSortsAfter, EntryUnchangedP, NoDupOrderedP, IncludesWindowP.*)
(*                                                                           *)
(* Behaviour of the code that contradicts a property does not stop the       *)
(* validation: it is collected in `bad` as <<position, signature>> and       *)
(* printed at the end, so that one run names every kind of disagreement.     *)
(* Only a malformed trace (the environment disagreeing with itself) blocks.  *)
(*                                                                           *)
(* Tokens are <<second, nonce rank>> (seconds relative to the history's      *)
(* base time, rank of the KSUID's 128 random bits among all tokens of the    *)
(* history, 0 = all-zero bits); <<-1,-1>> = empty string, <<-2,-2>> = a      *)
(* token that was never issued.  Payloads are ids of their contents.         *)
EXTENDS Wal, Json, TLCExt

VARIABLES l,     \* position in the trace
          bad,   \* set of <<position, signature>>
          devs   \* store calls outside the program of Wal.tla (reported, no verdict)

tvars == <<clock, genTime, entries, pc, cur, issued, l, bad, devs>>

TraceLog == ndJsonDeserialize("trace.ndjson")
Ev == TraceLog[l]
IsEv(op) == l <= Len(TraceLog) /\ Ev.op = op /\ l' = l + 1

EmptyTok == <<-1, -1>>
UnknownTok == <<-2, -2>>
MaxBad == 60

Names == {"a1", "a2", "a3", "a4", "a5", "a6", "a7", "a8"}
Fresh == /\ clock = 0 /\ genTime = 0 /\ entries = {} /\ issued = {}
         /\ pc = [c \in Names |-> "idle"] /\ cur = [c \in Names |-> Idle]
TInit == Fresh /\ l = 1 /\ bad = {} /\ devs = 0

Flag(sigs) == bad' = IF Cardinality(bad) >= MaxBad THEN bad ELSE bad \cup {<<l, s>> : s \in sigs}
NoFlag == bad' = bad

TReset ==
  /\ IsEv("reset")
  /\ clock' = 0 /\ genTime' = 0 /\ entries' = {} /\ issued' = {}
  /\ pc' = [c \in Names |-> "idle"] /\ cur' = [c \in Names |-> Idle]
  /\ NoFlag /\ UNCHANGED devs

TTick == IsEv("tick") /\ Tick(Ev.d) /\ NoFlag /\ UNCHANGED devs

\* wal.New writes the (empty) generator object: its update time is the clock
TGenPut ==
  /\ IsEv("genput")
  /\ genTime' = clock
  /\ UNCHANGED <<clock, entries, pc, cur, issued, devs>> /\ NoFlag

TBegin == IsEv("begin") /\ Begin(Ev.c, Ev.pay) /\ NoFlag /\ UNCHANGED devs

TTouch ==
  /\ IsEv("touch")
  /\ Ev.t = clock                       \* the environment's clock is the specification's clock
  /\ IF pc[Ev.c] = "touch"
       THEN Touch(Ev.c) /\ UNCHANGED devs
       ELSE genTime' = clock /\ UNCHANGED <<clock, entries, pc, cur, issued>> /\ devs' = devs + 1
  /\ NoFlag

TAttr ==
  /\ IsEv("attr")
  /\ Ev.t = genTime                     \* read: the spec state is the real generator state
  /\ IF pc[Ev.c] = "attr"
       THEN Attr(Ev.c) /\ UNCHANGED devs
       ELSE UNCHANGED wvars /\ devs' = devs + 1
  /\ NoFlag

TPut ==
  /\ IsEv("put")
  /\ Ev.excl => Ev.res = PutRes(entries, Ev.tok)   \* create-if-absent outcome is the store's
  /\ ~Ev.excl => Ev.res = "ok"
  /\ LET c == Ev.c
         t == Ev.tok
         lost == {x \in entries : x.tok = t}          \* what an overwriting put destroys
     IN IF pc[c] = "put" /\ t[1] = cur[c].time /\ Ev.excl
          THEN Put(c, t[2]) /\ NoFlag /\ UNCHANGED devs
          ELSE \* not the Put of Wal.tla: the mutation is applied as logged
               /\ entries' = IF Ev.res = "ok" THEN (entries \ lost) \cup {[tok |-> t, pay |-> cur[c].pay]} ELSE entries
               /\ cur' = [cur EXCEPT ![c].tok = t, ![c].ok = (Ev.res = "ok")]
               /\ pc' = [pc EXCEPT ![c] = "ret"]
               /\ UNCHANGED <<clock, genTime, issued>>
               /\ IF pc[c] # "put"
                    THEN NoFlag /\ devs' = devs + 1
                    ELSE /\ UNCHANGED devs
                         /\ Flag((IF t[1] # cur[c].time THEN {"wal/token-time-not-generator-time"} ELSE {})
                                 \cup (IF ~Ev.excl /\ lost # {} THEN {"wal/entry-overwritten"} ELSE {}))

\* properties of the tokens issued so far, for the Add that returns now
\* (incremental form of TokensUnique and LaterSecondSortsAfter: they hold in
\* the new state iff they held before and hold for the pairs with the new token)
IssueSigs(new) ==
  (IF \E x \in issued : x.tok = new.tok THEN {"wal/token-issued-twice"} ELSE {})
  \cup (IF \E x \in issued : x.e < new.b /\ ~TokLess(x.tok, new.tok)
          THEN {"wal/later-second-token-sorts-before-earlier"} ELSE {})
  \cup (IF [tok |-> new.tok, pay |-> new.pay] \notin entries THEN {"wal/issued-token-not-in-log"} ELSE {})

TRet ==
  /\ IsEv("ret")
  /\ LET c == Ev.c
         new == [tok |-> Ev.tok, pay |-> cur[c].pay, b |-> cur[c].b, e |-> Sec(clock), id |-> <<c, cur[c].n>>]
     IN /\ pc' = [pc EXCEPT ![c] = "idle"]
        /\ cur' = [cur EXCEPT ![c] = [Idle EXCEPT !.n = cur[c].n]]
        /\ UNCHANGED <<clock, genTime, entries, devs>>
        /\ IF Ev.err
             THEN /\ issued' = issued
                  /\ IF pc[c] = "ret" /\ ~cur[c].ok
                       THEN NoFlag       \* the put lost against an equal token: Add must fail
                       ELSE IF pc[c] = "ret" THEN Flag({"wal/add-error-after-entry-written"})
                                             ELSE Flag({"wal/add-error"})
             ELSE /\ issued' = issued \cup {new}
                  /\ Flag(IssueSigs(new)
                          \cup (IF pc[c] = "ret" /\ cur[c].ok /\ Ev.tok # cur[c].tok
                                  THEN {"wal/add-returns-other-token"} ELSE {})
                          \cup (IF pc[c] = "ret" /\ ~cur[c].ok
                                  THEN {"wal/add-reports-success-for-lost-put"} ELSE {}))

----------------------------------------------------------------------------
(* ListEntries: the logged result against the properties of Wal.tla *)

PaySig(shape) ==
  CASE shape = "empty" -> "wal/list-returns-empty-payload"
    [] shape = "prefix" -> "wal/list-returns-truncated-payload"
    [] shape = "known" -> "wal/list-returns-payload-of-other-entry"
    [] OTHER -> "wal/list-returns-altered-payload"

ListSigs(e) ==
  LET raw == e.res
      res == [i \in DOMAIN raw |-> [tok |-> raw[i].tok, pay |-> raw[i].pay]]
      toks == Tokens(entries)
      pays == {x.pay : x \in entries}
      emptyTok == {i \in DOMAIN raw : raw[i].tok = EmptyTok}
      unknown == {i \in DOMAIN raw : raw[i].tok # EmptyTok /\ raw[i].tok \notin toks}
      valid == DOMAIN raw \ (emptyTok \cup unknown)
      \* EntryUnchangedP, split by what was changed
      wrongPay == {i \in valid : res[i] \notin entries} \cup {i \in DOMAIN raw \ valid : raw[i].pay \notin pays}
      tokSigs == (IF emptyTok # {} THEN {"wal/list-returns-empty-token"} ELSE {})
                 \cup (IF unknown # {} THEN {"wal/list-returns-unissued-token"} ELSE {})
      paySigs == {PaySig(raw[i].shape) : i \in wrongPay}
      \* order and window are judged on results whose tokens are all genuine
      orderSigs ==
        IF NoDupOrderedP(res) THEN {}
        ELSE IF \E i \in 1..(Len(res) - 1) : res[i].tok = res[i+1].tok
               \/ Cardinality({res[k].tok : k \in DOMAIN res}) < Len(res)
             THEN {"wal/list-duplicate-entry"} ELSE {"wal/list-out-of-order"}
      tokRes == [i \in DOMAIN raw |-> IF res[i] \in entries THEN res[i] ELSE CHOOSE x \in entries : x.tok = raw[i].tok]
      winSigs ==
        IF Len(res) > e.max THEN {"wal/list-exceeds-max"}
        ELSE IF IncludesWindowP(entries, e.from, e.max, tokRes) THEN {}
        ELSE IF \E x \in Window(entries, e.from) \ SeqSet(tokRes) : TokLess(x.tok, e.from)
             THEN {"wal/list-misses-lookback-entry"} ELSE {"wal/list-misses-entry"}
  IN IF e.err THEN {"wal/list-error"}
     ELSE tokSigs \cup paySigs \cup (IF valid = DOMAIN raw THEN orderSigs \cup winSigs ELSE {})

TList ==
  /\ IsEv("list")
  /\ Flag(ListSigs(Ev))
  /\ UNCHANGED <<wvars, devs>>

TNext == TReset \/ TTick \/ TGenPut \/ TBegin \/ TTouch \/ TAttr \/ TPut \/ TRet \/ TList
TSpec == TInit /\ [][TNext]_tvars

HighWater == TLCSet(1, l) /\ TLCSet(2, bad) /\ TLCSet(3, devs)
Accepted == TLCGet(1) = Len(TraceLog) + 1
ReportPos == /\ PrintT(<<"trace-position", TLCGet(1), "of", Len(TraceLog)>>)
             /\ PrintT(<<"wal-deviations", TLCGet(3)>>)
             /\ \A b \in TLCGet(2) : PrintT(<<"wal-bad", b[1], b[2]>>)
PostCond == ReportPos /\ Accepted
=============================================================================
