SPECIFICATION Spec
CONSTANTS
  Files = {"f1", "f2", "f3"}
  RootOf <- MCRootOf
  LeavesOf <- MCLeavesOf
  BundleDefs <- MCBundleDefs
  ChunkSizes = {1, 2}
  RefreshOnDedup = FALSE
  Faulty = TRUE
INVARIANTS NoNeededBlobDeleted IndexCoversOld ChunksDisjoint
CONSTRAINT Bounded
CHECK_DEADLOCK FALSE
