------------------------------ MODULE MC_Meta ------------------------------
(* Bounded exhaustive model of Meta.tla: every history of the API actions   *)
(* (including uploads interrupted after any number of index files) over two *)
(* prefix-related repositories, with all invariants checked in every state  *)
(* and the frame conditions checked on every step.                          *)
EXTENDS Meta

CONSTANTS MaxBundles

MCPaths == { [p |-> "a", gen |-> FALSE], [p |-> "d/b", gen |-> FALSE], [p |-> ".datamon/x", gen |-> TRUE] }
MCLabels == { [n |-> "v1.2.3", semver |-> TRUE], [n |-> "latest", semver |-> FALSE] }

Trees == UNION {[ps -> Contents] : ps \in SUBSET Paths}

MCNext ==
  \/ \E r \in Repos : CreateRepo(r)
  \/ Len(bun) < MaxBundles /\ \E r \in Repos, t \in Trees, k \in Bulks : Upload(r, t, k)
  \/ Len(bun) < MaxBundles /\ \E r \in Repos, t \in Trees, k \in Bulks, j \in 0..2 : UploadCrash(r, t, k, j)
  \/ \E r \in Repos, n \in Labels, b \in Ids : SetLabel(r, n, b)
  \/ \E r \in Repos, n \in Labels : r \in repos /\ DeleteLabel(r, n)
  \/ \E r \in Repos, b \in Ids : DeleteBundle(r, b)
  \/ \E r \in Repos : DeleteRepo(r)
  \/ \E r \in Repos, new \in Repos : RenameRepo(r, new)
  \/ \E r \in Repos, ps \in SUBSET Paths : DeleteEntries(r, ps)
  \/ \E r \in Repos, n \in 1..2, mode \in {"none", "tags", "semver", "both"} : Squash(r, n, mode)

MCSpec == Init /\ [][MCNext]_mvars

\* ---- action properties (frame conditions)
\* a step never changes the objects of a visible bundle, except by the explicit
\* delete / squash / delete-repo / rename / delete-files operations
KeysOf(b) == [idx |-> bun[b].idx, desc |-> bun[b].desc, tree |-> bun[b].tree, bulk |-> bun[b].bulk]
CommittedImmutable ==
  [][\A b \in Ids : Visible(b) /\ bun'[b] # bun[b] =>
        \/ ~bun'[b].desc /\ bun'[b].idx = 0                       \* deleted (bundle, squash, repo)
        \/ bun'[b].repo # bun[b].repo /\ KeysOf(b)' = KeysOf(b)   \* renamed
        \/ DOMAIN bun'[b].tree \subseteq DOMAIN bun[b].tree /\ bun'[b].idx = bun[b].idx /\ bun'[b].desc  \* delete-files
    ]_mvars
\* bundle ids are never reused and the sequence only grows
IdsOnlyGrow == [][Len(bun') >= Len(bun)]_mvars
\* an operation on one repository leaves every other repository's bundles and labels alone
\* (rename touches exactly the two repositories involved)
Touched == {r \in Repos : \/ (r \in repos) # (r \in repos')
                          \/ \E b \in Ids : (bun[b].repo = r \/ bun'[b].repo = r) /\ bun'[b] # bun[b]
                          \/ \E b \in (1..Len(bun')) \ Ids : bun'[b].repo = r
                          \/ {k \in DOMAIN labels : k.repo = r} # {k \in DOMAIN labels' : k.repo = r}
                          \/ \E k \in DOMAIN labels \cap DOMAIN labels' : k.repo = r /\ labels[k] # labels'[k]}
AtMostTwoReposTouched == [][Cardinality(Touched) <= 2]_mvars
=============================================================================
