-------------------------------- MODULE Wal --------------------------------
(* The write-ahead log of datamon (pkg/wal): an append-only object store    *)
(* whose keys are K-sortable tokens, and a token-generator object in a      *)
(* mutable store whose UPDATE TIME (not the local wall clock) is the time    *)
(* component of every token.                                                 *)
(*                                                                           *)
(* A token is <<sec, nonce>>: the generator's update time truncated to       *)
(* seconds and the 128 random bits of the KSUID; token order is the byte     *)
(* order of the KSUID string = lexicographic order of <<sec, nonce>>.        *)
(*                                                                           *)
(* One action per store call of WAL.Add:                                     *)
(*   Begin(c,p)  Add(p) is called by client c                                *)
(*   Touch(c)    mutable.Touch(generator)       generator time := store clock *)
(*   Attr(c)     mutable.GetAttr(generator)     c reads the generator time    *)
(*   Put(c,n)    wal.Put(token, NoOverWrite)    create-if-absent              *)
(*   Return(c)   Add returns the token (or an error after a lost put)         *)
(* ListEntries(from,max) is an operator over the store contents: the wal     *)
(* store is listed from the START KEY <<from.sec - Lookback, 0>> (the code:  *)
(* ksuid.FromParts(from.Time() - 2*10min, zero payload)), at most max        *)
(* (capped at MaxPerList = 1000) keys, each key then read.                   *)
(*                                                                           *)
(* The same actions are used under \E (MC_Wal), to generate schedules        *)
(* replayed on the real code (Gen_Wal) and bound to logged events (WalTrace).*)
EXTENDS Integers, Sequences, FiniteSets, SequencesExt, TLC

CONSTANTS Clients,     \* appenders
          Lookback,    \* seconds a listing goes back before its token (code: 1200)
          TPS,         \* clock ticks per second (the store clock is finer than a token)
          MaxPerList,  \* cap of one listing (code: 1000)
          NoPay        \* payload of a client that is not appending

VARIABLES clock,    \* the store clock, in ticks; never goes back
          genTime,  \* update time of the token generator object, in ticks
          entries,  \* the wal store: set of [tok |-> <<sec, nonce>>, pay |-> payload id]
          pc,       \* client -> "idle" | "touch" | "attr" | "put" | "ret"
          cur,      \* client -> [pay, b (second Add began), n (serial of the call), time (second read), tok, ok]
          issued    \* set of [tok, pay, b, e, id]: Adds that returned a token, b/e = seconds of call/return,
                    \* id = <<client, serial>> of the call

wvars == <<clock, genTime, entries, pc, cur, issued>>

NoTok == <<-1, -1>>
Sec(t) == t \div TPS

TokLess(a, b) == a[1] < b[1] \/ (a[1] = b[1] /\ a[2] < b[2])
TokLeq(a, b) == a = b \/ TokLess(a, b)
Tokens(ents) == {e.tok : e \in ents}
EntLess(x, y) == TokLess(x.tok, y.tok)

Min2(a, b) == IF a < b THEN a ELSE b
SeqSet(s) == {s[i] : i \in DOMAIN s}

----------------------------------------------------------------------------
(* ListEntries as the code computes it, over the object-store contract       *)
(* (keys in byte order, page token honoured as a start key, inclusive).      *)

LowBound(from) == <<from[1] - Lookback, 0>>
Window(ents, from) == {e \in ents : TokLeq(LowBound(from), e.tok)}
Cap(max) == Min2(max, MaxPerList)

ListOp(ents, from, max) ==
  LET s == SetToSortSeq(Window(ents, from), EntLess)
  IN SubSeq(s, 1, Min2(Len(s), Cap(max)))

(* What property C19 demands of a listing result `res` (a sequence of       *)
(* [tok, pay]), stated declaratively and no stronger than the property:      *)
(* entries older than the look-back window MAY be returned; within max, no   *)
(* entry of the window may be skipped.                                       *)

\* every returned entry is an appended entry, token and payload unchanged
EntryUnchangedP(ents, res) == \A i \in DOMAIN res : res[i] \in ents

\* strictly increasing tokens: token order, no duplicates
NoDupOrderedP(res) == \A i \in 1..(Len(res) - 1) : TokLess(res[i].tok, res[i+1].tok)

\* at most max entries; an entry of the window is missing only if max entries
\* were returned and all of them precede it
IncludesWindowP(ents, from, max, res) ==
  LET missing == Window(ents, from) \ SeqSet(res)
  IN /\ Len(res) <= max
     /\ missing # {} => /\ Len(res) = max
                        /\ \A e \in missing : \A i \in DOMAIN res : TokLess(res[i].tok, e.tok)

----------------------------------------------------------------------------
Idle == [pay |-> NoPay, b |-> 0, n |-> 0, time |-> -1, tok |-> NoTok, ok |-> FALSE]

Init == /\ clock = 0 /\ genTime = 0 /\ entries = {} /\ issued = {}
        /\ pc = [c \in Clients |-> "idle"] /\ cur = [c \in Clients |-> Idle]

Tick(d) == /\ d > 0 /\ clock' = clock + d
           /\ UNCHANGED <<genTime, entries, pc, cur, issued>>

Begin(c, p) ==
  /\ pc[c] = "idle"
  /\ pc' = [pc EXCEPT ![c] = "touch"]
  /\ cur' = [cur EXCEPT ![c] = [Idle EXCEPT !.pay = p, !.b = Sec(clock), !.n = cur[c].n + 1]]
  /\ UNCHANGED <<clock, genTime, entries, issued>>

Touch(c) ==
  /\ pc[c] = "touch"
  /\ genTime' = clock
  /\ pc' = [pc EXCEPT ![c] = "attr"]
  /\ UNCHANGED <<clock, entries, cur, issued>>

Attr(c) ==
  /\ pc[c] = "attr"
  /\ cur' = [cur EXCEPT ![c].time = Sec(genTime)]
  /\ pc' = [pc EXCEPT ![c] = "put"]
  /\ UNCHANGED <<clock, genTime, entries, issued>>

\* outcome of the create-if-absent put of token t
PutRes(ents, t) == IF t \in Tokens(ents) THEN "exists" ELSE "ok"

Put(c, n) ==
  /\ pc[c] = "put"
  /\ LET t == <<cur[c].time, n>>
     IN IF PutRes(entries, t) = "ok"
          THEN /\ entries' = entries \cup {[tok |-> t, pay |-> cur[c].pay]}
               /\ cur' = [cur EXCEPT ![c].tok = t, ![c].ok = TRUE]
          ELSE /\ entries' = entries          \* NoOverWrite: the first entry stays
               /\ cur' = [cur EXCEPT ![c].tok = t, ![c].ok = FALSE]
  /\ pc' = [pc EXCEPT ![c] = "ret"]
  /\ UNCHANGED <<clock, genTime, issued>>

Return(c) ==
  /\ pc[c] = "ret"
  /\ issued' = IF cur[c].ok
                 THEN issued \cup {[tok |-> cur[c].tok, pay |-> cur[c].pay, b |-> cur[c].b, e |-> Sec(clock),
                                     id |-> <<c, cur[c].n>>]}
                 ELSE issued
  /\ pc' = [pc EXCEPT ![c] = "idle"]
  /\ cur' = [cur EXCEPT ![c] = [Idle EXCEPT !.n = cur[c].n]]
  /\ UNCHANGED <<clock, genTime, entries>>

----------------------------------------------------------------------------
(* State properties *)

\* every stored entry and every issued token is unique
TokensUnique ==
  /\ Cardinality(Tokens(entries)) = Cardinality(entries)
  /\ \A x, y \in issued : x # y => x.tok # y.tok

\* a token issued by an Add that began in a later second than another Add
\* returned sorts after that Add's token
LaterSecondSortsAfter ==
  \A x, y \in issued : x.e < y.b => TokLess(x.tok, y.tok)

\* an issued entry is in the log, with the payload that was appended
IssuedStored ==
  \A x \in issued : [tok |-> x.tok, pay |-> x.pay] \in entries

\* the log is append-only
AppendOnly == [][entries \subseteq entries']_wvars

\* the generator never goes back and never runs ahead of the store clock
GenMonotone == [][genTime' >= genTime]_wvars
GenBehindClock == genTime <= clock
=============================================================================
