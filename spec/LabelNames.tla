---------------------------- MODULE LabelNames ----------------------------
(* Label names (C08, last sentence: "any label name the API accepts can     *)
(* afterwards be listed and resolved", and the prefix-filtered listings).   *)
(* A set is either refused or accepted by the implementation; names within  *)
(* the documented alphabet must be accepted.  What is accepted is a label:  *)
(* it resolves, it is listed exactly once, and it is listed under every     *)
(* prefix of its name - and only there.                                     *)
EXTENDS Naturals, Sequences, FiniteSets

CONSTANTS Pool        \* records [n : name as a sequence of one-character strings, doc : BOOLEAN]
                      \* doc = the name is within the documented alphabet: the set must be accepted

VARIABLE labels       \* names (sequences) that were accepted

Init == labels = {}

\* the implementation decides (acc); it may refuse only what is outside the documented alphabet
Set(x, acc) ==
  /\ x \in Pool /\ (x.doc => acc)
  /\ labels' = IF acc THEN labels \cup {x.n} ELSE labels

IsPrefixOf(p, n) == Len(p) <= Len(n) /\ SubSeq(n, 1, Len(p)) = p
LPrefixesOf(n) == {SubSeq(n, 1, k) : k \in 0..Len(n)}

GetFound(ls, n) == n \in ls
ListOp(ls) == ls
ListPrefixOp(ls, p) == {n \in ls : IsPrefixOf(p, n)}

Next == \E x \in Pool, acc \in BOOLEAN : Set(x, acc)
Spec == Init /\ [][Next]_labels

\* every accepted name is listed, and under each of its prefixes; a prefix listing holds nothing else
AcceptedListed == \A n \in labels : n \in ListOp(labels) /\ \A p \in LPrefixesOf(n) : n \in ListPrefixOp(labels, p)
PrefixExact == \A n \in labels : \A p \in LPrefixesOf(n) : \A m \in ListPrefixOp(labels, p) : IsPrefixOf(p, m) /\ m \in labels
SetAddsOnlyItself == [][\A n \in labels' \ labels : Cardinality(labels' \ labels) = 1]_labels
=============================================================================
