SPECIFICATION GSpec
CONSTANTS
  MaxObjs = 3
  MaxOther = 2
  PageSizes = {1, 2, 3, 4, 7}
  OutFile = "listing.ndjson"
INVARIANT SpecExact
CONSTRAINT Dump
CHECK_DEADLOCK FALSE
