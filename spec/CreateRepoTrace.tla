-------------------------- MODULE CreateRepoTrace --------------------------
(* Binding (B) for concurrent creators of one repository (C09): the store   *)
(* calls of N concurrent CreateRepo operations, driven through every        *)
(* interleaving by the gate scheduler, are validated call by call against   *)
(* ObjectStore.tla; the results of the operations must satisfy              *)
(* ExactlyOneWinner and the stored descriptor must be the winner's.         *)
EXTENDS ObjectStore, Json, TLCExt

VARIABLES l, ended

TraceLog == ndJsonDeserialize("trace.ndjson")
Ev == TraceLog[l]
IsEv(op) == l <= Len(TraceLog) /\ Ev.op = op /\ l' = l + 1

Winners == {c \in DOMAIN ended : ended[c]}

TInit == Init /\ l = 1 /\ ended = << >>

\* a new schedule starts: the previous one must have had exactly one winner
TReset == /\ IsEv("reset")
          /\ DOMAIN ended # {} => Cardinality(Winners) = 1
          /\ store' = << >> /\ ended' = << >>
THas == /\ IsEv("has") /\ Ev.found = (Ev.key \in DOMAIN store) /\ UNCHANGED <<store, ended>>
TGet == /\ IsEv("get") /\ Ev.found = (Ev.key \in DOMAIN store)
        /\ Ev.found => Ev.val = store[Ev.key]
        /\ UNCHANGED <<store, ended>>
TPut == /\ IsEv("put")
        /\ Ev.res = PutRes(store, Ev.key, Ev.excl)
        /\ Put(Ev.key, Ev.val, Ev.excl)
        /\ UNCHANGED ended
TEnd == /\ IsEv("end")
        /\ ended' = (Ev.client :> Ev.ok) @@ ended
        /\ UNCHANGED store
\* the final read of the descriptor: it is the single winner's
TFinal == /\ IsEv("final")
          /\ Cardinality(Winners) = 1
          /\ Ev.key \in DOMAIN store /\ store[Ev.key] \in Winners
          /\ Ev.val = store[Ev.key]            \* what the real store holds is what the specification's store holds
          /\ UNCHANGED <<store, ended>>

TNext == TReset \/ THas \/ TGet \/ TPut \/ TEnd \/ TFinal
TSpec == TInit /\ [][TNext]_<<store, l, ended>>

AtMostOneWinner == Cardinality(Winners) <= 1

HighWater == TLCSet(1, l)
ReportPos == PrintT(<<"trace-position", TLCGet(1), "of", Len(TraceLog)>>)
PostCond == ReportPos /\ TLCGet(1) = Len(TraceLog) + 1
=============================================================================
