SPECIFICATION MCSpec
CONSTANTS
  Clients = {a1, a2}
  Lookback = 1
  TPS = 1
  MaxPerList = 1000
  NoPay <- MCNoPay
  MaxAdds = 2
  MaxClock = 3
  TickSteps = {1}
  Nonces = {0, 1}
  Maxes = {1, 1000}
  MaxAddSecs = 1
  WithReader = TRUE
INVARIANTS TypeOK MissedNothing
CHECK_DEADLOCK FALSE
