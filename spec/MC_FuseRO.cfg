SPECIFICATION Spec
CONSTANTS
  L = 3
  Names = {"a", "a.b"}
  MaxDepth = 2
  MaxFiles = 3
  Sizes = {0, 1, 4}
  Tags = {1}
  MaxCap = 3
INVARIANTS TypeOK TreeIsExactlyBundle ReadDirResumable ReadExact
PROPERTIES UploadExact
CHECK_DEADLOCK FALSE
