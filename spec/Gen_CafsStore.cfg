SPECIFICATION GSpec
CONSTANTS
  L = 3
  Pool <- GPool
  Modes = {"fresh", "shared"}
  Lossy = TRUE
  Repaired = FALSE
  MaxLen = 3
  Walk = FALSE
  GObjs = {1, 3, 5}
  Loss = FALSE
  OutFile = "cafsstore_beh.ndjson"
INVARIANTS TypeOK IdealExact KeysExact RootKeysExact
CONSTRAINT Dump
CHECK_DEADLOCK FALSE
