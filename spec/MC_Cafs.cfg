SPECIFICATION MCSpec
CONSTANTS
  L = 3
  MaxN = 10
  Conc = {1, 2, 3}
  Chunks = {0, 1, 2, 3, 4}
INVARIANTS InflightAreChunks PutExact LeavesAreContent FlushedOnce ReadOpsConsistent
PROPERTIES BlobsWriteOnce
CHECK_DEADLOCK FALSE
