------------------------------- MODULE Purge -------------------------------
(* Purging unused blobs (pkg/core/purge.go): the reverse-lookup index build  *)
(* (scan of all bundles into a local KV, upload of the keys in chunks,       *)
(* interruption and resume) and delete-unused (a blob is deleted iff it is   *)
(* not in the index and was last updated before the index time), together    *)
(* with the uploads, deletions and squashes that surround them.              *)
(*                                                                           *)
(* Blobs: every file has a root key and leaf keys; files share leaves        *)
(* (deduplication).  Time is a logical clock.                                *)
EXTENDS Naturals, Sequences, FiniteSets, TLC

CONSTANTS Files,       \* file ids
          RootOf,      \* file -> root key
          LeavesOf,    \* file -> set of leaf keys
          BundleDefs,  \* bundle name -> set of files
          ChunkSizes,  \* index chunk sizes
          RefreshOnDedup,  \* TRUE: an upload refreshes the update time of blobs it re-uses (repair proposal)
          Faulty       \* TRUE: transient store faults may strike

Bundles == DOMAIN BundleDefs
KeysOfFile(f) == {RootOf[f]} \cup LeavesOf[f]
KeysOf(b) == UNION {KeysOfFile(f) : f \in BundleDefs[b]}
AllKeys == UNION {KeysOfFile(f) : f \in Files}

VARIABLES
  clock,
  blob,       \* function: existing blob key -> update time
  visible,    \* set of committed bundles
  started,    \* bundle -> time its upload started (for committed bundles)
  \* ---- index build
  phase,      \* "idle" | "scan" | "upload" | "built" | "crashed" | "deleting" | "purged"
  indexTime,
  scanned,    \* bundles visible at build start still to scan
  kv,         \* function: key -> "new" | "sent" (local KV: keys found / keys handed to a chunk)
  chunks,     \* sequence of sets of keys: the index chunk files in the metadata store
  csize,      \* chunk size of this build
  resumed,    \* this build resumed a crashed one
  faults,     \* transient faults injected so far
  \* ---- outcome
  deleted,    \* blobs deleted by delete-unused
  reported    \* TRUE iff every command reported success

pvars == <<clock, blob, visible, started, phase, indexTime, scanned, kv, chunks, csize, resumed, faults, deleted, reported>>

Tick == clock' = clock + 1
Set(f, k, v) == (k :> v) @@ f

Init ==
  /\ clock = 1 /\ blob = << >> /\ visible = {} /\ started = << >>
  /\ phase = "idle" /\ indexTime = 0 /\ scanned = {} /\ kv = << >> /\ chunks = <<>> /\ csize = 1
  /\ resumed = FALSE /\ faults = 0 /\ deleted = {} /\ reported = TRUE

\* ------------------------------------------------------------ uploads and deletions
\* an upload stores the blobs that are not there yet; blobs already present are re-used
Upload(b) ==
  /\ b \notin visible /\ phase \in {"idle", "built"}
  /\ blob' = [k \in DOMAIN blob \cup KeysOf(b) |->
                IF k \in KeysOf(b) /\ (k \notin DOMAIN blob \/ RefreshOnDedup) THEN clock
                ELSE blob[k]]
  /\ visible' = visible \cup {b}
  /\ started' = Set(started, b, clock)
  /\ Tick
  /\ UNCHANGED <<phase, indexTime, scanned, kv, chunks, csize, resumed, faults, deleted, reported>>

\* delete / squash: only metadata goes, blobs stay (they become orphans unless shared)
DeleteBundle(b) ==
  /\ b \in visible /\ phase = "idle"
  /\ visible' = visible \ {b}
  /\ Tick
  /\ UNCHANGED <<blob, started, phase, indexTime, scanned, kv, chunks, csize, resumed, faults, deleted, reported>>

\* ------------------------------------------------------------ build of the reverse-lookup index
StartBuild(c) ==
  /\ phase = "idle"
  /\ phase' = "scan" /\ indexTime' = clock /\ scanned' = visible /\ kv' = << >> /\ chunks' = <<>> /\ csize' = c
  /\ resumed' = FALSE
  /\ Tick
  /\ UNCHANGED <<blob, visible, started, faults, deleted, reported>>

\* scanning a bundle: every file adds its root and its leaves; a file whose root is already
\* in the KV is skipped (shortcut of the code) unless the build was resumed
ScanBundle(b) ==
  /\ phase = "scan" /\ b \in scanned
  /\ LET fresh == {f \in BundleDefs[b] : resumed \/ RootOf[f] \notin DOMAIN kv}
         keys == UNION {KeysOfFile(f) : f \in fresh}
     IN kv' = [k \in DOMAIN kv \cup keys |-> IF k \in DOMAIN kv THEN kv[k] ELSE "new"]
  /\ scanned' = scanned \ {b}
  /\ UNCHANGED <<clock, blob, visible, started, phase, indexTime, chunks, csize, resumed, faults, deleted, reported>>

EndScan ==
  /\ phase = "scan" /\ scanned = {}
  /\ phase' = "upload"
  /\ UNCHANGED <<clock, blob, visible, started, indexTime, scanned, kv, chunks, csize, resumed, faults, deleted, reported>>

Unsent == {k \in DOMAIN kv : kv[k] = "new"}
\* a chunk: up to csize unsent keys; they are marked as sent once the chunk is stored
UploadChunk(ks) ==
  /\ phase = "upload" /\ ks \subseteq Unsent /\ ks # {}
  /\ Cardinality(ks) = (IF Cardinality(Unsent) < csize THEN Cardinality(Unsent) ELSE csize)
  /\ chunks' = Append(chunks, ks)
  /\ kv' = [k \in DOMAIN kv |-> IF k \in ks THEN "sent" ELSE kv[k]]
  /\ UNCHANGED <<clock, blob, visible, started, phase, indexTime, scanned, csize, resumed, faults, deleted, reported>>

\* a transient failure of a chunk write: nothing is stored, nothing is marked, the write is retried
ChunkFault ==
  /\ Faulty /\ phase = "upload" /\ faults < 1 /\ Unsent # {}
  /\ faults' = faults + 1
  /\ UNCHANGED <<clock, blob, visible, started, phase, indexTime, scanned, kv, chunks, csize, resumed, deleted, reported>>

EndBuild ==
  /\ phase = "upload" /\ Unsent = {}
  /\ phase' = "built"
  /\ UNCHANGED <<clock, blob, visible, started, indexTime, scanned, kv, chunks, csize, resumed, faults, deleted, reported>>

CrashBuild ==
  /\ phase \in {"scan", "upload"}
  /\ phase' = "crashed"
  /\ UNCHANGED <<clock, blob, visible, started, indexTime, scanned, kv, chunks, csize, resumed, faults, deleted, reported>>

\* resume: the stored chunks are loaded back (index time kept), every bundle is scanned again
Resume ==
  /\ phase = "crashed" /\ chunks # <<>>
  /\ kv' = [k \in UNION {chunks[i] : i \in DOMAIN chunks} |-> "sent"]
  /\ scanned' = visible /\ phase' = "scan" /\ resumed' = TRUE
  /\ UNCHANGED <<clock, blob, visible, started, indexTime, chunks, csize, faults, deleted, reported>>

Index == UNION {chunks[i] : i \in DOMAIN chunks}

\* ------------------------------------------------------------ delete-unused
\* the reference rule: a blob goes iff it is not in the index and older than the index
DeleteOp(bl, idx, t) == {k \in DOMAIN bl : k \notin idx /\ bl[k] < t}

DeleteUnused ==
  /\ phase = "built"
  /\ deleted' = DeleteOp(blob, Index, indexTime)
  /\ blob' = [k \in DOMAIN blob \ DeleteOp(blob, Index, indexTime) |-> blob[k]]
  /\ phase' = "purged"
  /\ UNCHANGED <<clock, visible, started, indexTime, scanned, kv, chunks, csize, resumed, faults, reported>>

Next ==
  \/ \E b \in Bundles : Upload(b) \/ DeleteBundle(b) \/ ScanBundle(b)
  \/ \E c \in ChunkSizes : StartBuild(c)
  \/ EndScan \/ \E ks \in SUBSET Unsent : UploadChunk(ks)
  \/ ChunkFault \/ EndBuild \/ CrashBuild \/ Resume \/ DeleteUnused

Spec == Init /\ [][Next]_pvars

\* ------------------------------------------------------------ properties
\* bundles whose data must survive: committed before the index was started, or uploaded after it
Protected == {b \in visible : started[b] < indexTime \/ started[b] > indexTime}
Needed == UNION {KeysOf(b) : b \in Protected}
NoNeededBlobDeleted == phase = "purged" => Needed \cap deleted = {}
\* the completed index is exactly the keys of the bundles visible when it was started (fault-free exactness, C14)
IndexExact == (phase = "built" /\ ~resumed) => Index = UNION {KeysOf(b) : b \in {x \in visible : started[x] < indexTime}}
                                                 \/ \E b \in Bundles : b \notin visible  \* (a bundle deleted during the build is not covered)
IndexCoversOld == phase = "built" => UNION {KeysOf(b) : b \in {x \in visible : started[x] < indexTime}} \subseteq Index
\* chunks partition the index
ChunksDisjoint == \A i, j \in DOMAIN chunks : i # j => chunks[i] \cap chunks[j] = {}
=============================================================================
