---------------------------- MODULE Gen_FuseRW ----------------------------
(* Behaviour generation for binding (A): operation programs on a mutable   *)
(* mount.  A behaviour is a sequence of steps, every step carrying          *)
(*   o, p, a, q, b, n, x, y : the operation (FuseRW!Op0 record shape;       *)
(*                            nodes are the model's node numbers, 0 = root; *)
(*                            a write stores content id = its step number)  *)
(*   cls  : ClassOf(op) in the state before the step                        *)
(*   al   : Allowed(op) in the state before the step                        *)
(*   r    : the node an entry reply is about (create, mkdir, lookup that     *)
(*          succeed), -1 otherwise                                          *)
(*   post : TreeL after the step: every node that is in the tree or still   *)
(*          held by the kernel {n, k: kind, l: linked, p: path, d: content  *)
(*          cells, c: lookup count}                                         *)
(* The commit expectation CommitOp is the set of linked files of the last   *)
(* post (for the empty program: no file).                                   *)
(*                                                                          *)
(* Rand = FALSE (BFS): every program of 0..MaxOps operations, each once:     *)
(* in every state the program may stop (stage = "done") or go on with any    *)
(* operation the kernel may send over Names below the nodes it holds.        *)
(* Rand = TRUE (tlc -simulate): one random operation per step, the kind      *)
(* drawn from a weighted bag (KindBag; "...hit" = the named entry exists),   *)
(* the length uniform in MinOps..MaxOps.                                     *)
(* A finished program is written as one NDJSON line.                         *)
EXTENDS FuseRW, Json, IOUtils

CONSTANTS MaxOps, MinOps, Rand, OutFile, PreludeId,   \* PreludeId: which prelude (kinds of the first operations of a random program) to use; 0 = none
          MaxDepth,      \* create / mkdir only below parents of depth < MaxDepth
          Offs, Lens, Sizes,
          FileParents    \* TRUE: files the kernel holds are used as parents too (ENOTDIR)
VARIABLES hist, stage

gvars == <<kind, links, data, cnt, ino, hist, stage>>

GInit == Init /\ hist = <<>> /\ stage = "run"

Parents == {p \in Nodes : ParentOK(p) /\ (FileParents \/ kind[p] = "dir")}
Files   == {n \in Nodes \ {Root} : kind[n] = "file" /\ cnt[n] > 0}
HeldNodes == {n \in Nodes \ {Root} : cnt[n] > 0}
StepNo  == Len(hist) + 1

NamedOps(k) == {OpName(k, p, a) : p \in Parents, a \in Names}
MakeOps(k)  == {OpName(k, p, a) : p \in {r \in Parents : Depth(r) < MaxDepth}, a \in Names}
RenameOps   == {o \in {OpRename(p, a, q, b) : p \in Parents, a \in Names, q \in Parents, b \in Names} : ~RenameLoop(o)}
WriteOps    == {OpWrite(n, x, y, StepNo) : n \in Files, x \in Offs, y \in Lens}
SizeOps     == {OpSetSize(n, x) : n \in Files, x \in Sizes}
ForgetOps   == {o \in UNION {{OpForget(n, x) : x \in 1..cnt[n]} : n \in HeldNodes} : KernelMay(o)}

AllOps == MakeOps("create") \cup MakeOps("mkdir") \cup NamedOps("lookup") \cup NamedOps("unlink")
          \cup NamedOps("rmdir") \cup RenameOps \cup WriteOps \cup SizeOps \cup ForgetOps

Hit(o) == Child(o.p, o.a) # None
KindBag == <<"create", "create", "create", "mkdir", "mkdir", "mkdir", "write", "write", "write", "setsize",
             "lookup", "lookuphit", "lookuphit", "unlink", "unlinkhit", "unlinkhit", "rmdir", "rmdirhit", "rmdirhit",
             "rename", "renamehit", "renamehit", "renamehit", "forget", "forget", "forget">>
OpsOfKind(k) ==
  CASE k = "create"    -> MakeOps("create")
    [] k = "mkdir"     -> MakeOps("mkdir")
    [] k = "write"     -> WriteOps
    [] k = "setsize"   -> SizeOps
    [] k = "lookup"    -> NamedOps("lookup")
    [] k = "lookuphit" -> {o \in NamedOps("lookup") : Hit(o)}
    [] k = "unlink"    -> NamedOps("unlink")
    [] k = "unlinkhit" -> {o \in NamedOps("unlink") : Hit(o)}
    [] k = "rmdir"     -> NamedOps("rmdir")
    [] k = "rmdirhit"  -> {o \in NamedOps("rmdir") : Hit(o)}
    [] k = "rename"    -> RenameOps
    [] k = "renamehit" -> {o \in RenameOps : Hit(o)}
    [] k = "forget"    -> ForgetOps
    \* (for preludes) a creation that succeeds; the last reference of an entry that was unlinked dropped
    [] k = "createok"  -> {o \in MakeOps("create") \cup MakeOps("mkdir") : "ok" \in Allowed(o)}
    [] k = "forgetorphan" -> {o \in ForgetOps : ~Linked(o.n) /\ o.x = cnt[o.n]}

\* prelude 1: entries are created, two of them unlinked and forgotten (their inode numbers wait for re-use), then
\* entries are created again and looked up
Prelude == IF PreludeId = 1
           THEN <<"createok", "createok", "createok", "createok", "unlinkhit", "forgetorphan", "unlinkhit", "forgetorphan",
                  "createok", "createok", "createok", "lookuphit", "lookuphit", "lookuphit">>
           ELSE <<>>

\* RandomElement is re-evaluated at every occurrence: bind it once
Pick(S) == IF Rand THEN {RandomElement(S)} ELSE S

GStep(o) ==
  LET al == Allowed(o)
      ok == "ok" \in al
      r  == IF ok THEN ReplyNode(o) ELSE None
  IN /\ Do(o, IF ok THEN "ok" ELSE CHOOSE e \in al : TRUE, IF r # None THEN r + 1 ELSE 0)
     /\ hist' = Append(hist, [o |-> o.op, p |-> o.p, a |-> o.a, q |-> o.q, b |-> o.b, n |-> o.n, x |-> o.x, y |-> o.y,
                              cls |-> ClassOf(o), al |-> al, r |-> r,
                              post |-> TreeL(kind', links', data', cnt')])
     /\ UNCHANGED stage

Finish == stage' = "done" /\ UNCHANGED <<kind, links, data, cnt, ino, hist>>

GNext ==
  /\ stage = "run"
  /\ IF Rand
     THEN \E r \in Pick(Len(hist)..MaxOps) :
            IF (r = Len(hist) /\ Len(hist) >= MinOps) \/ Len(hist) >= MaxOps
            THEN Finish
            ELSE \E j \in Pick(1..Len(KindBag)) :
                   LET S == OpsOfKind(IF Len(hist) < Len(Prelude) THEN Prelude[Len(hist) + 1] ELSE KindBag[j])
                   IN \E o \in Pick(IF S = {} THEN AllOps ELSE S) : GStep(o)
     ELSE \/ Finish
          \/ Len(hist) < MaxOps /\ \E o \in AllOps : GStep(o)

GSpec == GInit /\ [][GNext]_gvars

Dump == stage = "done" =>
          Serialize(<<hist>>, OutFile,
                    [format |-> "NDJSON", charset |-> "UTF-8",
                     openOptions |-> <<"WRITE", "CREATE", "APPEND">>])
=============================================================================
