------------------------------ MODULE Gen_Wal ------------------------------
(* Schedule generation for the write-ahead log: random walks (tlc -simulate) *)
(* over the actions of Wal.tla - the store calls of up to three concurrent   *)
(* appenders, clock ticks around the second and the look-back boundary,      *)
(* adversarial nonces (equal nonces collide; nonce 0 is the nonce of the     *)
(* look-back bound) - interleaved with listings from issued tokens and from  *)
(* synthetic tokens between / around them.  Every step carries what the      *)
(* specification defines for it (token, outcome of the put, exact ListOp).   *)
(* The harness forces the REAL wal.Add through the same interleaving (gate   *)
(* scheduler, clock and KSUID randomness under its control); the recorded    *)
(* trace is judged by WalTrace.tla, the expectations below are compared as   *)
(* well.  The clock unit is the millisecond.                                 *)
EXTENDS Wal, Json, IOUtils

CONSTANTS MaxLen, MaxAddsTotal, OutFile, PayClasses, GNonces, TickSteps, GMaxes
VARIABLES hist, stage, nadds

gvars == <<clock, genTime, entries, pc, cur, issued, hist, stage, nadds>>

GClients == {"a1", "a2", "a3"}
R(S) == RandomElement(S)
Log(r) == hist' = Append(hist, r)

GInit == Init /\ hist = <<>> /\ stage = "run" /\ nadds = 0

GBegin(c, p) ==
  /\ nadds < MaxAddsTotal
  /\ Begin(c, p) /\ nadds' = nadds + 1
  /\ Log([op |-> "begin", c |-> c, pay |-> p])
GTouch(c) == Touch(c) /\ UNCHANGED nadds /\ Log([op |-> "touch", c |-> c, t |-> clock])
GAttr(c) == Attr(c) /\ UNCHANGED nadds /\ Log([op |-> "attr", c |-> c, sec |-> Sec(genTime)])
GPut(c, n) ==
  /\ Put(c, n) /\ UNCHANGED nadds
  /\ Log([op |-> "put", c |-> c, n |-> n, tok |-> <<cur[c].time, n>>, res |-> PutRes(entries, <<cur[c].time, n>>)])
GReturn(c) == Return(c) /\ UNCHANGED nadds /\ Log([op |-> "ret", c |-> c, ok |-> cur[c].ok, tok |-> cur[c].tok])
GTick(d) == Tick(d) /\ UNCHANGED nadds /\ Log([op |-> "tick", d |-> d])

\* tokens a listing starts from: stored tokens, and synthetic tokens in the
\* seconds around them and around their look-back boundary, with the lowest
\* nonce, a nonce between those in use, and the highest nonce (99 = all ones)
Secs == {e.tok[1] : e \in entries} \cup {Sec(clock)}
FromSet == Tokens(entries)
           \cup {<<s + dlt, n>> : s \in Secs, dlt \in {-1, 0, 1, Lookback - 1, Lookback, Lookback + 1}, n \in {0, 2, 99}}
GList(f, m) ==
  /\ UNCHANGED <<wvars, nadds>>
  /\ Log([op |-> "list", from |-> f, max |-> m, exp |-> ListOp(entries, f, m)])

GStep ==
  \/ \E c \in GClients : GBegin(c, R(PayClasses))
  \/ \E c \in GClients : GTouch(c)
  \/ \E c \in GClients : GAttr(c)
  \/ \E c \in GClients : GPut(c, R(GNonces))
  \/ \E c \in GClients : GReturn(c)
  \/ GTick(R(TickSteps))
  \/ \E i \in 1..2 : entries # {} /\ GList(R(FromSet), R(GMaxes))

AllIdle == \A c \in GClients : pc[c] = "idle"

\* a history ends when it is long enough and no append is in flight; it always
\* ends with a listing of everything
GNext ==
  /\ stage = "run"
  /\ IF Len(hist) < MaxLen \/ ~AllIdle
       THEN GStep /\ UNCHANGED stage
       ELSE /\ stage' = "done"
            /\ UNCHANGED <<wvars, nadds>>
            /\ Log([op |-> "list", from |-> <<0, 0>>, max |-> 1000, exp |-> ListOp(entries, <<0, 0>>, 1000)])

GSpec == GInit /\ [][GNext]_gvars

Dump == stage = "done" =>
          Serialize(<<hist>>, OutFile,
                    [format |-> "NDJSON", charset |-> "UTF-8",
                     openOptions |-> <<"WRITE", "CREATE", "APPEND">>])
=============================================================================
