------------------------------- MODULE Paths -------------------------------
(* C20: the grammar of datamon's metadata paths as executable operators.     *)
(*                                                                           *)
(* A path, a name, an id and an index are CODE-POINT SEQUENCES: tuples whose *)
(* elements are one-character strings ("a", "/", ".") or class tokens        *)
(* ("<L>" some non-ASCII letter, "<K1>" some KSUID, ...) that the binding    *)
(* instantiates with members of the class (refinement map of the harness).   *)
(* Index values are digit sequences: 2^63 and 2^64-1 exceed TLC's integers.  *)
(*                                                                           *)
(*   Build(kind, f)        the path the system must write for an object      *)
(*   ParseArchive(p)       kind + fields of a metadata-store path            *)
(*   ParseConsumable(p)    kind + fields of a consumable-store metadata path *)
(*   Components(kind, f)   the record model.GetArchivePathComponents returns *)
(*   GeneratedPath(p)      the reserved .datamon/.conflicts/.checkpoints     *)
(*   ValidName(kind, n)    the documented alphabets of repo and label names  *)
(*                                                                           *)
(* Nothing here transcribes the code: the parser is the strict inverse of the*)
(* builder (whole path split at "/", exact number of segments).              *)
(***************************************************************************)
EXTENDS Naturals, Sequences, FiniteSets, TLC

\* ---------------------------------------------------------------- strings
\* code-point sequence of a TLA+ string literal (TLC: SubSeq works on strings)
S(str) == [i \in 1..Len(str) |-> SubSeq(str, i, i)]

Range(s) == { s[i] : i \in 1..Len(s) }

HasPrefix(s, p) == Len(p) <= Len(s) /\ SubSeq(s, 1, Len(p)) = p
HasSuffix(s, p) == Len(p) <= Len(s) /\ SubSeq(s, Len(s) - Len(p) + 1, Len(s)) = p
DropPrefix(s, n) == SubSeq(s, n + 1, Len(s))

\* positions of the separator, then the segments between them (strings.Split)
SepPositions(p, sep) == SelectSeq([i \in 1..Len(p) |-> i], LAMBDA i : p[i] = sep)
SplitAt(p, sep) ==
  LET idx == <<0>> \o SepPositions(p, sep) \o <<Len(p) + 1>>
  IN  [k \in 1..(Len(idx) - 1) |-> SubSeq(p, idx[k] + 1, idx[k + 1] - 1)]

Join(segs) ==
  LET j[k \in 0..Len(segs)] ==
        IF k = 0 THEN <<>>
        ELSE IF k = 1 THEN segs[1]
        ELSE j[k - 1] \o <<"/">> \o segs[k]
  IN  j[Len(segs)]

\* positions where `pat` occurs in `s`
Occurrences(s, pat) ==
  { i \in 1..(Len(s) + 1 - Len(pat)) : SubSeq(s, i, i + Len(pat) - 1) = pat }
SetMax(T) == CHOOSE x \in T : \A y \in T : y <= x

\* ------------------------------------------------------- character classes
Lower == Range(S("abcdefghijklmnopqrstuvwxyz"))
Upper == Range(S("ABCDEFGHIJKLMNOPQRSTUVWXYZ"))
Digits == Range(S("0123456789"))
B62 == S("0123456789ABCDEFGHIJKLMNOPQRSTUVWXYZabcdefghijklmnopqrstuvwxyz")
Base62 == Range(B62)
Ord62(c) == CHOOSE i \in 1..62 : B62[i] = c

KTokens == {"<K1>", "<K2>", "<K3>"}          \* "some well-formed KSUID" (27 base62 characters)
LetterTokens == {"<L>", "<L2>"}              \* non-ASCII letters (Unicode L*)
DigitTokens == {"<N>"}                       \* non-ASCII decimal digits (Nd)
UHyphenTokens == {"<H>"}                     \* non-ASCII characters with the Unicode Hyphen property
ConnectorTokens == {"<C>"}                   \* non-ASCII connector punctuation (Pc)
\* hostile classes: combining mark, symbol, space, other number, invalid UTF-8 byte, controls
\* (<D>: dash punctuation WITHOUT the Unicode Hyphen property - em dash, en dash ...: not a hyphen)
OtherTokens == {"<M>", "<S>", "<Z>", "<O>", "<D>", "<BAD>", "<LF>", "<TAB>", "<NUL>"}

Letters == Lower \cup Upper \cup LetterTokens
DecimalDigits == Digits \cup DigitTokens
ClassOf(c) ==
  IF c \in Letters THEN "letter"
  ELSE IF c \in DecimalDigits THEN "digit"
  ELSE IF c \in KTokens THEN "alnum"                 \* a KSUID is made of ASCII letters and digits
  ELSE IF c = "-" THEN "hyphen"
  ELSE IF c \in UHyphenTokens THEN "uhyphen"
  ELSE IF c = "_" \/ c \in ConnectorTokens THEN "connector"
  ELSE "other"

\* Documented alphabets. Repositories: "letters, digits or '-'" (model/repo.go),
\* "Unicode characters, digits and hyphen" (docs/usage/datamon_repo_create.md).
\* Labels: the same plus connector punctuation (model/label.go, label_test.go).
\* Whether "hyphen" covers the non-ASCII characters with the Unicode Hyphen
\* property is not said anywhere: names containing one are AMBIGUOUS and the
\* verdict accepts either answer for them (DESIGN 2.5, weaker reading).
AllowedRepo == {"letter", "digit", "alnum", "hyphen"}
AllowedLabel == AllowedRepo \cup {"connector"}
Allowed(kind) == IF kind = "label" THEN AllowedLabel ELSE AllowedRepo
AllowedRepoU == AllowedRepo \cup {"uhyphen"}
AllowedLabelU == AllowedLabel \cup {"uhyphen"}
AllowedU(kind) == IF kind = "label" THEN AllowedLabelU ELSE AllowedRepoU

ValidName(kind, n) ==
  /\ n # <<>>
  /\ \A i \in 1..Len(n) : ClassOf(n[i]) \in AllowedU(kind)
AmbiguousName(kind, n) ==
  ValidName(kind, n) /\ \E i \in 1..Len(n) : ClassOf(n[i]) = "uhyphen"

\* characters a valid name must never contain: they would change the
\* segmentation of a path, its cleaning (".", "..") or its line structure
Separators == {"/", ".", "<LF>", "<NUL>", "<TAB>", " ", "<Z>"}

\* the class of the first character outside the alphabet ("" if none): used to
\* name what went wrong, never for the verdict
FirstBad(kind, n) ==
  LET bad == { i \in 1..Len(n) : ClassOf(n[i]) \notin AllowedU(kind) }
  IN  IF bad = {} THEN 0 ELSE CHOOSE i \in bad : \A j \in bad : i <= j
NonAscii == LetterTokens \cup DigitTokens \cup UHyphenTokens \cup ConnectorTokens
            \cup {"<M>", "<S>", "<Z>", "<O>", "<D>"}
\* an invalid character preceded by a multi-byte one (byte index # rune index)
BadAfterMultibyte(kind, n) ==
  LET b == FirstBad(kind, n)
  IN  b > 0 /\ \E j \in 1..(b - 1) : n[j] \in NonAscii

\* ------------------------------------------------------------ ids, indexes
MaxKsuid == S("aWgEPTl1tmebfsQzFP4bxwgy80V")
LexLeq62(a, b) ==        \* a <= b, same length, base62 alphabet in ASCII order
  \/ a = b
  \/ \E i \in 1..Len(a) : /\ SubSeq(a, 1, i - 1) = SubSeq(b, 1, i - 1)
                          /\ Ord62(a[i]) < Ord62(b[i])
IsKsuid(s) ==
  \/ Len(s) = 1 /\ s[1] \in KTokens
  \/ /\ Len(s) = 27
     /\ \A i \in 1..27 : s[i] \in Base62
     /\ LexLeq62(s, MaxKsuid)

Max64 == S("18446744073709551615")       \* 2^64 - 1
MaxI64 == S("9223372036854775807")       \* 2^63 - 1
IsDigits(s) == s # <<>> /\ \A i \in 1..Len(s) : s[i] \in Digits
NumLeq(a, b) ==          \* canonical decimal numerals
  \/ Len(a) < Len(b)
  \/ Len(a) = Len(b) /\ LexLeq62(a, b)
ValidIndex(s) ==         \* canonical numeral of a value in 0 .. 2^64-1
  /\ IsDigits(s)
  /\ (Len(s) = 1 \/ s[1] # "0")
  /\ NumLeq(s, Max64)
AboveMaxInt64(s) == ValidIndex(s) /\ ~NumLeq(s, MaxI64)

NoSlash(s) == "/" \notin Range(s)
Segment(s) == s # <<>> /\ NoSlash(s)        \* a non-empty path segment

\* string literals of the grammar as code-point sequences (constants: TLC evaluates them once)
L_bundle_hfiles_h == S("bundle-files-")
L__dyaml == S(".yaml")
L_repos_s == S("repos/")
L__srepo_dyaml == S("/repo.yaml")
L_labels_s == S("labels/")
L__slabel_dyaml == S("/label.yaml")
L_bundles_s == S("bundles/")
L__sbundle_dyaml == S("/bundle.yaml")
L_diamonds_s == S("diamonds/")
L__sdiamond_hrunning_dyaml == S("/diamond-running.yaml")
L__sdiamond_hdone_dyaml == S("/diamond-done.yaml")
L__ssplits_s == S("/splits/")
L__ssplit_hrunning_dyaml == S("/split-running.yaml")
L__ssplit_hdone_dyaml == S("/split-done.yaml")
L_contexts_s == S("contexts/")
L__scontext_dyaml == S("/context.yaml")
L__ddatamon_s == S(".datamon/")
L__h == S("-")
L__dconflicts_s == S(".conflicts/")
L__dcheckpoints_s == S(".checkpoints/")
L_reverse_hindex_schunk_h == S("reverse-index/chunk-")
L_repos == S("repos")
L_repo_dyaml == S("repo.yaml")
L_contexts == S("contexts")
L_context_dyaml == S("context.yaml")
L_labels == S("labels")
L_label_dyaml == S("label.yaml")
L_bundles == S("bundles")
L_bundle_dyaml == S("bundle.yaml")
L_diamonds == S("diamonds")
L_diamond_hrunning_dyaml == S("diamond-running.yaml")
L_diamond_hdone_dyaml == S("diamond-done.yaml")
L_splits == S("splits")
L_split_hrunning_dyaml == S("split-running.yaml")
L_split_hdone_dyaml == S("split-done.yaml")
L__hbundle_hfiles_h == S("-bundle-files-")
L__ddatamon == S(".datamon")
L__dconflicts == S(".conflicts")
L__dcheckpoints == S(".checkpoints")
L__d_s == S("./")
L__s == S("/")

\* ------------------------------------------------------------------ kinds
ArchiveKinds == {"repo", "label", "bundle", "bundleFiles", "bundleDir",
                 "diamondRunning", "diamondDone", "diamondDir",
                 "splitRunning", "splitDone", "splitDir", "splitFiles"}
ContextKinds == {"context"}                 \* the config store
ConsumableKinds == {"cBundle", "cBundleFiles"}   \* the consumable store (.datamon/)
ReservedKinds == {"conflict", "checkpoint"}      \* the consumable store (.conflicts/, .checkpoints/)
PurgeKinds == {"reverseIndexChunk"}
PrefixKinds == {"pRepos", "pBundles", "pLabels", "pDiamonds", "pSplits", "pContexts"}

IndexFile(idx) == L_bundle_hfiles_h \o idx \o L__dyaml
IsIndexFile(seg) ==
  /\ HasPrefix(seg, L_bundle_hfiles_h) /\ HasSuffix(seg, L__dyaml)
  /\ Len(seg) > 18
  /\ ValidIndex(SubSeq(seg, 14, Len(seg) - 5))
IndexOfFile(seg) == SubSeq(seg, 14, Len(seg) - 5)

\* The path the system must write. Fields not used by a kind are ignored.
Build(kind, f) ==
  CASE kind = "repo"           -> L_repos_s \o f.repo \o L__srepo_dyaml
    [] kind = "label"          -> L_labels_s \o f.repo \o <<"/">> \o f.label \o L__slabel_dyaml
    [] kind = "bundle"         -> L_bundles_s \o f.repo \o <<"/">> \o f.bundle \o L__sbundle_dyaml
    [] kind = "bundleFiles"    -> L_bundles_s \o f.repo \o <<"/">> \o f.bundle \o <<"/">> \o IndexFile(f.index)
    [] kind = "bundleDir"      -> L_bundles_s \o f.repo \o <<"/">> \o f.bundle \o <<"/">>
    [] kind = "diamondRunning" -> L_diamonds_s \o f.repo \o <<"/">> \o f.diamond \o L__sdiamond_hrunning_dyaml
    [] kind = "diamondDone"    -> L_diamonds_s \o f.repo \o <<"/">> \o f.diamond \o L__sdiamond_hdone_dyaml
    [] kind = "diamondDir"     -> L_diamonds_s \o f.repo \o <<"/">> \o f.diamond \o <<"/">>
    [] kind = "splitRunning"   -> L_diamonds_s \o f.repo \o <<"/">> \o f.diamond \o L__ssplits_s \o f.split
                                    \o L__ssplit_hrunning_dyaml
    [] kind = "splitDone"      -> L_diamonds_s \o f.repo \o <<"/">> \o f.diamond \o L__ssplits_s \o f.split
                                    \o L__ssplit_hdone_dyaml
    [] kind = "splitDir"       -> L_diamonds_s \o f.repo \o <<"/">> \o f.diamond \o L__ssplits_s \o f.split \o <<"/">>
    [] kind = "splitFiles"     -> L_diamonds_s \o f.repo \o <<"/">> \o f.diamond \o L__ssplits_s \o f.split
                                    \o <<"/">> \o f.generation \o <<"/">> \o IndexFile(f.index)
    [] kind = "context"        -> L_contexts_s \o f.context \o L__scontext_dyaml
    [] kind = "cBundle"        -> L__ddatamon_s \o f.bundle \o L__dyaml
    [] kind = "cBundleFiles"   -> L__ddatamon_s \o f.bundle \o L__h \o IndexFile(f.index)
    [] kind = "conflict"       -> L__dconflicts_s \o f.split \o <<"/">> \o f.path
    [] kind = "checkpoint"     -> L__dcheckpoints_s \o f.split \o <<"/">> \o f.path
    [] kind = "reverseIndexChunk" -> L_reverse_hindex_schunk_h \o f.index \o L__dyaml
    [] kind = "pRepos"         -> L_repos_s
    [] kind = "pContexts"      -> L_contexts_s
    [] kind = "pBundles"       -> L_bundles_s \o f.repo \o <<"/">>
    [] kind = "pLabels"        -> L_labels_s \o f.repo \o <<"/">> \o f.label   \* label = search prefix, may be empty
    [] kind = "pDiamonds"      -> L_diamonds_s \o f.repo \o <<"/">>
    [] kind = "pSplits"        -> L_diamonds_s \o f.repo \o <<"/">> \o f.diamond \o L__ssplits_s

\* the fields a kind is made of
FieldsOf(kind) ==
  CASE kind = "repo" -> {"repo"}
    [] kind = "label" -> {"repo", "label"}
    [] kind \in {"bundle", "bundleDir"} -> {"repo", "bundle"}
    [] kind = "bundleFiles" -> {"repo", "bundle", "index"}
    [] kind \in {"diamondRunning", "diamondDone", "diamondDir"} -> {"repo", "diamond"}
    [] kind \in {"splitRunning", "splitDone", "splitDir"} -> {"repo", "diamond", "split"}
    [] kind = "splitFiles" -> {"repo", "diamond", "split", "generation", "index"}
    [] kind = "context" -> {"context"}
    [] kind = "cBundle" -> {"bundle"}
    [] kind = "cBundleFiles" -> {"bundle", "index"}
    [] kind \in {"conflict", "checkpoint"} -> {"split", "path"}
    [] kind = "reverseIndexChunk" -> {"index"}
    [] kind \in {"pRepos", "pContexts"} -> {}
    [] kind \in {"pBundles", "pDiamonds"} -> {"repo"}
    [] kind = "pLabels" -> {"repo", "label"}
    [] kind = "pSplits" -> {"repo", "diamond"}

AllFields == {"repo", "label", "bundle", "diamond", "split", "generation", "index", "context", "path"}
NoFields == [x \in AllFields |-> <<>>]
\* a full field record from a partial one
Fields(partial) == [x \in AllFields |-> IF x \in DOMAIN partial THEN partial[x] ELSE <<>>]
Project(kind, f) == [x \in AllFields |-> IF x \in FieldsOf(kind) THEN f[x] ELSE <<>>]

\* A relative, clean user path below the root of a consumable store
NormalRelPath(p) ==
  /\ p # <<>>
  /\ \A seg \in Range(SplitAt(p, "/")) : seg # <<>> /\ seg # <<".">> /\ seg # <<".", ".">>

\* "valid values" of the property statement: the domain on which the round
\* trip is demanded.  (Split ids may be chosen by the user; no alphabet is
\* documented for them: KSUIDs and names of the label alphabet are taken as valid.
\* Context names: the repository alphabet.)
ValidField(x, v) ==
  CASE x = "repo" -> ValidName("repo", v)
    [] x = "label" -> ValidName("label", v)
    [] x \in {"bundle", "diamond", "generation"} -> IsKsuid(v)
    [] x = "split" -> IsKsuid(v) \/ ValidName("label", v)
    [] x = "index" -> ValidIndex(v)
    [] x = "context" -> ValidName("repo", v)
    [] x = "path" -> NormalRelPath(v)
ValidCase(kind, f) ==
  \A x \in FieldsOf(kind) : IF kind = "pLabels" /\ x = "label" THEN NoSlash(f[x]) ELSE ValidField(x, f[x])

\* ----------------------------------------------------------------- parsing
NotOk == [ok |-> FALSE, kind |-> "", f |-> NoFields]
Ok(kind, partial) == [ok |-> TRUE, kind |-> kind, f |-> Fields(partial)]

ParseArchive(p) ==
  LET cs == SplitAt(p, "/")
      n == Len(cs)
  IN
  IF n < 3 \/ ~Segment(cs[2]) THEN NotOk
  ELSE IF cs[1] = L_repos THEN
    IF n = 3 /\ cs[3] = L_repo_dyaml THEN Ok("repo", [repo |-> cs[2]]) ELSE NotOk
  ELSE IF cs[1] = L_contexts THEN
    IF n = 3 /\ cs[3] = L_context_dyaml THEN Ok("context", [context |-> cs[2]]) ELSE NotOk
  ELSE IF cs[1] = L_labels THEN
    IF n = 4 /\ Segment(cs[3]) /\ cs[4] = L_label_dyaml
      THEN Ok("label", [repo |-> cs[2], label |-> cs[3]]) ELSE NotOk
  ELSE IF cs[1] = L_bundles THEN
    IF n # 4 \/ ~Segment(cs[3]) THEN NotOk
    ELSE IF cs[4] = L_bundle_dyaml THEN Ok("bundle", [repo |-> cs[2], bundle |-> cs[3]])
    ELSE IF cs[4] = <<>> THEN Ok("bundleDir", [repo |-> cs[2], bundle |-> cs[3]])
    ELSE IF IsIndexFile(cs[4])
      THEN Ok("bundleFiles", [repo |-> cs[2], bundle |-> cs[3], index |-> IndexOfFile(cs[4])])
    ELSE NotOk
  ELSE IF cs[1] = L_diamonds THEN
    IF n < 4 \/ ~IsKsuid(cs[3]) THEN NotOk
    ELSE IF n = 4 THEN
      IF cs[4] = L_diamond_hrunning_dyaml THEN Ok("diamondRunning", [repo |-> cs[2], diamond |-> cs[3]])
      ELSE IF cs[4] = L_diamond_hdone_dyaml THEN Ok("diamondDone", [repo |-> cs[2], diamond |-> cs[3]])
      ELSE IF cs[4] = <<>> THEN Ok("diamondDir", [repo |-> cs[2], diamond |-> cs[3]])
      ELSE NotOk
    ELSE IF cs[4] # L_splits \/ n < 6 \/ ~Segment(cs[5]) THEN NotOk
    ELSE IF n = 6 THEN
      IF cs[6] = L_split_hrunning_dyaml
        THEN Ok("splitRunning", [repo |-> cs[2], diamond |-> cs[3], split |-> cs[5]])
      ELSE IF cs[6] = L_split_hdone_dyaml
        THEN Ok("splitDone", [repo |-> cs[2], diamond |-> cs[3], split |-> cs[5]])
      ELSE IF cs[6] = <<>> THEN Ok("splitDir", [repo |-> cs[2], diamond |-> cs[3], split |-> cs[5]])
      ELSE NotOk
    ELSE IF n = 7 /\ IsKsuid(cs[6]) /\ IsIndexFile(cs[7])
      THEN Ok("splitFiles", [repo |-> cs[2], diamond |-> cs[3], split |-> cs[5], generation |-> cs[6],
                             index |-> IndexOfFile(cs[7])])
    ELSE NotOk
  ELSE NotOk

\* .datamon/{bundle}.yaml  |  .datamon/{bundle}-bundle-files-{index}.yaml
ParseConsumable(p) ==
  LET pre == L__ddatamon_s
      suf == L__dyaml
      mark == L__hbundle_hfiles_h
  IN
  IF ~(HasPrefix(p, pre) /\ HasSuffix(p, suf) /\ Len(p) > Len(pre) + Len(suf)) THEN NotOk
  ELSE
    LET name == SubSeq(p, Len(pre) + 1, Len(p) - Len(suf))
        occ == Occurrences(name, mark)
    IN
    IF ~NoSlash(name) \/ "<LF>" \in Range(name) THEN NotOk
    ELSE IF occ = {} THEN Ok("cBundle", [bundle |-> name])
    ELSE
      LET at == SetMax(occ)
          id == SubSeq(name, 1, at - 1)
          idx == SubSeq(name, at + Len(mark), Len(name))
      IN  IF id # <<>> /\ ValidIndex(idx) THEN Ok("cBundleFiles", [bundle |-> id, index |-> idx]) ELSE NotOk

\* reverse-index/chunk-{index}.yaml (purge)
ParseReverseIndex(p) ==
  LET pre == L_reverse_hindex_schunk_h
      suf == L__dyaml
  IN  IF HasPrefix(p, pre) /\ HasSuffix(p, suf) /\ Len(p) > Len(pre) + Len(suf)
         /\ ValidIndex(SubSeq(p, Len(pre) + 1, Len(p) - Len(suf)))
        THEN Ok("reverseIndexChunk", [index |-> SubSeq(p, Len(pre) + 1, Len(p) - Len(suf))])
        ELSE NotOk

\* the parser of the namespace a kind lives in
Parse(kind, p) ==
  IF kind \in ArchiveKinds \cup ContextKinds THEN ParseArchive(p)
  ELSE IF kind \in ConsumableKinds THEN ParseConsumable(p)
  ELSE IF kind \in PurgeKinds THEN ParseReverseIndex(p)
  ELSE NotOk
Parsable(kind) == kind \in ArchiveKinds \cup ContextKinds \cup ConsumableKinds \cup PurgeKinds

\* What model.GetArchivePathComponents must return for an archive path
FileOf(kind, f) ==
  CASE kind = "repo" -> L_repo_dyaml
    [] kind = "label" -> L_label_dyaml
    [] kind = "bundle" -> L_bundle_dyaml
    [] kind \in {"bundleFiles", "splitFiles"} -> IndexFile(f.index)
    [] kind = "diamondRunning" -> L_diamond_hrunning_dyaml
    [] kind = "diamondDone" -> L_diamond_hdone_dyaml
    [] kind = "splitRunning" -> L_split_hrunning_dyaml
    [] kind = "splitDone" -> L_split_hdone_dyaml
    [] kind = "context" -> L_context_dyaml
    [] OTHER -> <<>>
Components(kind, f) ==
  [repo |-> f.repo, bundle |-> f.bundle, label |-> f.label, context |-> f.context,
   diamond |-> f.diamond, split |-> f.split, generation |-> f.generation,
   file |-> FileOf(kind, f), final |-> kind \in {"diamondDone", "splitDone"}]

\* --------------------------------------------------------- reserved paths
Reserved == {L__ddatamon, L__dconflicts, L__dcheckpoints}
StripRoot(p) ==          \* "x", "/x" and "./x" name the same entry of the root
  IF HasPrefix(p, L__d_s) THEN DropPrefix(p, 2)
  ELSE IF HasPrefix(p, L__s) THEN DropPrefix(p, 1)
  ELSE p
GeneratedPath(p) ==
  LET q == StripRoot(p)
  IN  q # <<>> /\ SplitAt(q, "/")[1] \in Reserved
\* paths on which the predicate is pinned down: clean ones ("//", "." and ".."
\* segments have no documented meaning here; a trailing "/" is allowed)
CleanPath(p) ==
  LET q == StripRoot(p)
      segs == SplitAt(q, "/")
  IN  /\ q # <<>>
      /\ \A i \in 1..Len(segs) :
           /\ segs[i] # <<".">> /\ segs[i] # <<".", ".">>
           /\ segs[i] = <<>> => (i = Len(segs) /\ i > 1)

\* -------------------------------------------------------------- properties
\* (stated for one case / one pair; the MC module quantifies over a domain)
ParseInvertsBuild(kind, f) ==
  (Parsable(kind) /\ ValidCase(kind, f)) =>
     Parse(kind, Build(kind, f)) = [ok |-> TRUE, kind |-> kind, f |-> Project(kind, f)]

Namespace(kind) ==
  IF kind \in ArchiveKinds THEN "metadata"
  ELSE IF kind \in ContextKinds THEN "config"
  ELSE IF kind \in ConsumableKinds \cup ReservedKinds THEN "consumable"
  ELSE IF kind \in PurgeKinds THEN "purge" ELSE "prefix"
NoCollision(k1, f1, k2, f2) ==
  (Namespace(k1) = Namespace(k2) /\ Build(k1, f1) = Build(k2, f2)
     /\ ValidCase(k1, f1) /\ ValidCase(k2, f2))
  => (k1 = k2 /\ Project(k1, f1) = Project(k2, f2))

ValidNamesNeverContainSeparators(kind, n) ==
  ValidName(kind, n) => Range(n) \cap Separators = {}

\* whatever the system writes into a consumable store is recognised as generated
ReservedAreGenerated(kind, f) ==
  (kind \in ConsumableKinds \cup ReservedKinds /\ ValidCase(kind, f)) => GeneratedPath(Build(kind, f))

\* a listing prefix of one repository never covers an object of another one
PrefixOf(kind) ==
  CASE kind \in {"bundle", "bundleFiles", "bundleDir"} -> "pBundles"
    [] kind = "label" -> "pLabels"
    [] kind \in {"diamondRunning", "diamondDone", "diamondDir", "splitRunning", "splitDone", "splitDir",
                 "splitFiles"} -> "pDiamonds"
    [] OTHER -> ""
PrefixIsolation(kind, f, otherRepo) ==
  (PrefixOf(kind) # ""
     /\ HasPrefix(Build(kind, f), Build(PrefixOf(kind), [NoFields EXCEPT !.repo = otherRepo]))
     /\ ValidCase(kind, f) /\ ValidName("repo", otherRepo))
  => otherRepo = f.repo
=============================================================================
