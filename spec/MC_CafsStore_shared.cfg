SPECIFICATION Spec
CONSTANTS
  L = 3
  Pool <- MCPoolSmall
  Modes = {"shared"}
  Lossy = TRUE
  Repaired = FALSE
INVARIANTS TypeOK ReadableReads KeysExact RootKeysExact IncompleteExact
PROPERTIES PutMakesReadable
CHECK_DEADLOCK FALSE
