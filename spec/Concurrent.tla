------------------------------ MODULE Concurrent ------------------------------
(* C15: operations running concurrently against the same stores do not      *)
(* interfere.  The state is the content of the three shared stores at the   *)
(* level of store objects (keys are structured records, DESIGN 1):          *)
(*   meta   bundles/<r>/<b>/bundle-files-<i>.yaml  Key "idx"   (Meta.tla)   *)
(*          bundles/<r>/<b>/bundle.yaml            Key "desc"  written LAST *)
(*   vmeta  labels/<r>/<n>/label.yaml              Key "label"              *)
(*          diamonds/<r>/<d>/diamond-running|done  Key "drun" "ddone"       *)
(*          .../splits/<s>/split-running|done      Key "srun" "sdone"       *)
(*          .../splits/<s>/<g>/bundle-files-<i>    Key "slist" (Diamond.tla)*)
(*   blob   the set of root keys stored (content addressed: the key IS the  *)
(*          content, so storing an existing key again changes nothing)      *)
(* One action per store call, taking the observed values as parameters:     *)
(* the same actions are driven by the client programs of MC_Concurrent.tla  *)
(* (exhaustive, small) and by the events of a recorded run of the real code *)
(* (ConcurrentTrace.tla).                                                   *)
(* The specification has three parts:                                       *)
(*  - the store discipline every metadata write must obey (WriteVerdict),   *)
(*  - state invariants / action properties of the shared state,             *)
(*  - result operators: what an operation produces ALONE (AloneEffect,      *)
(*    ResultAlone, PortionOK) -- the reference "EachResultAsAlone" compares *)
(*    concurrent executions with.                                           *)
EXTENDS Integers, Sequences, FiniteSets, TLC

CONSTANT E          \* entries per index file (1000 in the code)

VARIABLES meta,     \* function: key -> value              (metadata store)
          vmeta,    \* function: key -> value              (versioned metadata store)
          blob,     \* set of root keys present            (blob store)
          verdict   \* "ok", or the rule the last metadata write broke

cvars == <<meta, vmeta, blob, verdict>>

\* ---------------------------------------------------------------- keys and values
Key(k, x, y, z, i) == [k |-> k, x |-> x, y |-> y, z |-> z, i |-> i]
KRepo(r)           == Key("repo", r, "", "", 0)
KIdx(b, i)         == Key("idx", b, "", "", i)
KDesc(b)           == Key("desc", b, "", "", 0)
KLabel(n)          == Key("label", n, "", "", 0)
KDRun(d)           == Key("drun", d, "", "", 0)
KDDone(d)          == Key("ddone", d, "", "", 0)
KSRun(d, s)        == Key("srun", d, s, "", 0)
KSDone(d, s)       == Key("sdone", d, s, "", 0)
KSList(d, s, g, i) == Key("slist", d, s, g, i)

\* count:  desc / sdone: number of file lists;  idx / slist: number of entries in this list
\* hashes: root keys named by a file list;  entries: its [p, h] pairs (filler files only counted: bulk)
Val(count, hashes, entries, bulk, bundle, state, gen) ==
  [count |-> count, hashes |-> hashes, entries |-> entries, bulk |-> bulk, bundle |-> bundle, state |-> state, gen |-> gen]
ListVal(es)    == Val(Cardinality(es), {e.h : e \in es}, es, 0, "", "", "")
DescVal(b, n)  == Val(n, {}, {}, 0, b, "", "")
LabelVal(b)    == Val(0, {}, {}, 0, b, "", "")
MarkVal(state, b, g, n) == Val(n, {}, {}, 0, b, state, g)

CeilDiv(a, b) == (a + b - 1) \div b
Below(n) == {i \in 0..n : i < n}                    \* 0..n-1, also for n = 0
Upd(f, k, v) == (k :> v) @@ f

\* ---------------------------------------------------------------- reading the stores
StoreOf(s) == IF s = "meta" THEN meta ELSE vmeta
Has(s, k) == k \in DOMAIN StoreOf(s)
\* create-if-absent: the outcome of a write is decided by the store alone
PutRes(s, k, excl) == IF excl /\ Has(s, k) THEN "exists" ELSE "ok"

Visible(b)       == KDesc(b) \in DOMAIN meta
IdxOf(b)         == {k.i : k \in {q \in DOMAIN meta : q.k = "idx" /\ q.x = b}}
ListsOf(d, s, g) == {k.i : k \in {q \in DOMAIN vmeta : q.k = "slist" /\ q.x = d /\ q.y = s /\ q.z = g}}
BundleKeys(b)    == {q \in DOMAIN meta : q.k \in {"idx", "desc"} /\ q.x = b}
VisibleBundles   == {k.x : k \in {q \in DOMAIN meta : q.k = "desc"}}

\* ---------------------------------------------------------------- the store discipline
\* Verdict of writing value v under key k (create-if-absent iff excl) in the current state.
\* Meta.tla / Diamond.tla: every metadata object is created with create-if-absent, except labels
\* (a label is reassigned by overwriting it: by design); nothing is written under a bundle that is
\* already visible; a descriptor / done marker is written after everything it makes reachable.
WriteVerdict(s, k, v, excl) ==
  CASE k.k # "label" /\ ~excl
         -> "write-once-object-written-without-create-if-absent"
    [] k.k \in {"idx", "desc"} /\ Visible(k.x)
         -> "write-under-a-visible-bundle"
    [] k.k \in {"idx", "slist"} /\ ~(v.hashes \subseteq blob)
         -> "file-list-names-content-that-is-not-stored"
    [] k.k = "desc" /\ IdxOf(k.x) # Below(v.count)
         -> "descriptor-written-before-all-index-files"
    [] k.k = "sdone" /\ ListsOf(k.x, k.y, v.gen) # Below(v.count)
         -> "split-done-before-all-its-file-lists"
    [] k.k = "ddone" /\ v.state = "done" /\ ~Visible(v.bundle)
         -> "diamond-done-before-its-bundle-is-visible"
    [] k.k = "label" /\ ~Visible(v.bundle)
         -> "label-set-to-a-bundle-that-is-not-visible"
    [] OTHER -> "ok"

\* ---------------------------------------------------------------- actions (one per store call)
Put(s, k, v, excl) ==
  /\ verdict' = WriteVerdict(s, k, v, excl)
  /\ IF s = "meta"
       THEN /\ meta' = IF PutRes(s, k, excl) = "ok" THEN Upd(meta, k, v) ELSE meta
            /\ UNCHANGED vmeta
       ELSE /\ vmeta' = IF PutRes(s, k, excl) = "ok" THEN Upd(vmeta, k, v) ELSE vmeta
            /\ UNCHANGED meta
  /\ UNCHANGED blob

\* storing content: content addressed, overwrite allowed (same key = same bytes)
PutBlob(h) == blob' = blob \cup {h} /\ UNCHANGED <<meta, vmeta, verdict>>

\* ---------------------------------------------------------------- result operators
RECURSIVE Sum(_, _)
Sum(f, S) == IF S = {} THEN 0 ELSE LET x == CHOOSE y \in S : TRUE IN f[x] + Sum(f, S \ {x})

\* a bundle as a reader finds it
BundleRead(b) ==
  LET I == IdxOf(b)
      n == Sum([i \in I |-> meta[KIdx(b, i)].count], I)
      c == meta[KDesc(b)].count
  IN [entries |-> UNION {meta[KIdx(b, i)].entries : i \in I},
      bulk    |-> Sum([i \in I |-> meta[KIdx(b, i)].bulk], I),
      hashes  |-> UNION {meta[KIdx(b, i)].hashes : i \in I},
      n       |-> n,
      count   |-> c,
      \* every index file full except the last one, which holds the rest
      packed  |-> \A i \in I : meta[KIdx(b, i)].count = IF i + 1 < c THEN E ELSE n - E * (c - 1)]

\* the bundle an upload (or a commit of one split) of these files produces alone
BundleAlone(entries, bulk, hashes) ==
  LET n == Cardinality(entries) + bulk
  IN [entries |-> entries, bulk |-> bulk, hashes |-> hashes, n |-> n, count |-> CeilDiv(n, E), packed |-> TRUE]

\* the abstract (Meta.tla level) state of the stores
Abs ==
  [bundles  |-> [b \in VisibleBundles |-> BundleRead(b)],
   labels   |-> [n \in {k.x : k \in {q \in DOMAIN vmeta : q.k = "label"}} |-> vmeta[KLabel(n)].bundle],
   diamonds |-> [d \in {k.x : k \in {q \in DOMAIN vmeta : q.k = "ddone"}} |->
                   [state |-> vmeta[KDDone(d)].state, bundle |-> vmeta[KDDone(d)].bundle]]]

\* An operation: [kind, b, d, n, entries, bulk, hashes]
\*   upload:   new bundle b from the files;     split: the same through diamond d (one split, committed)
\*   download: of the bundle b;                 label: n := b
\* Its effect on an abstract state when it runs ALONE ...
AloneEffect(a, op) ==
  CASE op.kind = "upload" ->
         [a EXCEPT !.bundles = (op.b :> BundleAlone(op.entries, op.bulk, op.hashes)) @@ @]
    [] op.kind = "split" ->
         [a EXCEPT !.bundles = (op.b :> BundleAlone(op.entries, op.bulk, op.hashes)) @@ @,
                   !.diamonds = (op.d :> [state |-> "done", bundle |-> op.b]) @@ @]
    [] op.kind = "label" -> [a EXCEPT !.labels = (op.n :> op.b) @@ @]
    [] OTHER -> a
\* ... and the result it returns
ResultAlone(a, op) ==
  [ok |-> TRUE, files |-> IF op.kind = "download" THEN a.bundles[op.b].entries ELSE {}]

\* The part of the CURRENT store state that belongs to the names of an operation is what the
\* operation produces alone (its names are its own: no other operation may have touched them).
PortionOK(op) ==
  CASE op.kind = "upload" ->
         Visible(op.b) /\ BundleRead(op.b) = BundleAlone(op.entries, op.bulk, op.hashes)
    [] op.kind = "split" ->
         /\ Visible(op.b) /\ BundleRead(op.b) = BundleAlone(op.entries, op.bulk, op.hashes)
         /\ KDDone(op.d) \in DOMAIN vmeta
         /\ vmeta[KDDone(op.d)].state = "done" /\ vmeta[KDDone(op.d)].bundle = op.b
    [] op.kind = "label" -> KLabel(op.n) \in DOMAIN vmeta /\ vmeta[KLabel(op.n)].bundle = op.b
    [] OTHER -> Visible(op.b)

\* ---------------------------------------------------------------- properties of the shared state
DisciplineOK == verdict = "ok"
\* a visible bundle is complete: all its index files, and all content they name
VisibleComplete ==
  \A b \in VisibleBundles :
     /\ IdxOf(b) = Below(meta[KDesc(b)].count)
     /\ \A i \in IdxOf(b) : meta[KIdx(b, i)].hashes \subseteq blob
LabelsResolve == \A k \in DOMAIN vmeta : k.k = "label" => Visible(vmeta[k].bundle)
DoneDiamondHasBundle == \A k \in DOMAIN vmeta : (k.k = "ddone" /\ vmeta[k].state = "done") => Visible(vmeta[k].bundle)
DoneSplitComplete == \A k \in DOMAIN vmeta : k.k = "sdone" => ListsOf(k.x, k.y, vmeta[k].gen) = Below(vmeta[k].count)

\* metadata objects are write-once (labels excepted), content never disappears
WriteOnceStep ==
  /\ \A k \in DOMAIN meta : k \in DOMAIN meta' /\ meta'[k] = meta[k]
  /\ \A k \in DOMAIN vmeta : k \in DOMAIN vmeta' /\ (k.k # "label" => vmeta'[k] = vmeta[k])
  /\ blob \subseteq blob'
WriteOnce == [][WriteOnceStep]_cvars
\* once visible, the set of objects of a bundle never changes (C06)
VisibleImmutableStep ==
  \A b \in VisibleBundles : {q \in DOMAIN meta' : q.k \in {"idx", "desc"} /\ q.x = b} = BundleKeys(b)
VisibleImmutable == [][VisibleImmutableStep]_cvars
=============================================================================
