SPECIFICATION Spec
CONSTANTS
  L = 3
  Pool <- MCPoolSmall
  Modes = {"shared"}
  Lossy = FALSE
  Repaired = FALSE
INVARIANTS NoStaleRead
CHECK_DEADLOCK FALSE
