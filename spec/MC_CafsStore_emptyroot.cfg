SPECIFICATION Spec
CONSTANTS
  L = 3
  Pool <- MCPoolSmall
  Modes = {"fresh"}
  Lossy = FALSE
  Repaired = FALSE
INVARIANTS RootKeysAll
CHECK_DEADLOCK FALSE
