SPECIFICATION GSpec
CONSTANTS
  L = 3
  Pool <- GPool
  Modes = {"fresh", "shared"}
  Lossy = TRUE
  Repaired = FALSE
  MaxLen = 40
  Walk = TRUE
  GObjs = {}
  Loss = TRUE
  OutFile = "cafsstore_beh.ndjson"
INVARIANTS TypeOK IdealExact KeysExact RootKeysExact
CONSTRAINT Dump
CHECK_DEADLOCK FALSE
