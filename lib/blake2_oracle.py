"""Independent BLAKE2b tree-mode oracle for cafs keys (Python hashlib).

Layout (the one Cafs.tla fixes): leaves of leaf_size bytes; full leaf i
(1-based) is hashed at depth 0 with node offset i and no last-node flag; a
trailing partial leaf is hashed with node offset = number of full leaves and
the last-node flag; the root is the depth-1, offset-0, last-node hash of the
concatenated leaf digests. fanout 0 (unlimited), max depth 2, inner size 64."""
import hashlib
import json
import sys


def node(data, leaf_size, depth, offset, last):
    return hashlib.blake2b(data, digest_size=64, fanout=0, depth=2, leaf_size=leaf_size, node_offset=offset,
                           node_depth=depth, inner_size=64, last_node=last).digest()


def tree(content, leaf_size):
    nfull = len(content) // leaf_size
    leaves = [node(content[i * leaf_size:(i + 1) * leaf_size], leaf_size, 0, i + 1, False) for i in range(nfull)]
    if len(content) % leaf_size:
        leaves.append(node(content[nfull * leaf_size:], leaf_size, 0, nfull, True))
    cat = b"".join(leaves)
    return node(cat, leaf_size, 1, 0, True), cat


def check_file(path):
    """Returns (checked, mismatches) for an NDJSON file of {lambda, content, key, keys} (hex)."""
    n, bad = 0, []
    for line in open(path):
        line = line.strip()
        if not line:
            continue
        r = json.loads(line)
        content = bytes.fromhex(r["content"])
        root, cat = tree(content, r["lambda"])
        n += 1
        if root.hex() != r["key"] or cat.hex() != r["keys"]:
            bad.append(dict(sig="key/oracle-mismatch", op="put",
                            detail="leaf size %d, %d bytes" % (r["lambda"], len(content)),
                            expected=root.hex()[:16], got=r["key"][:16],
                            replay=dict(content=r["content"][:4096], leaf=r["lambda"])))
    return n, bad


if __name__ == "__main__":
    n, bad = check_file(sys.argv[1])
    print(n, "checked", len(bad), "mismatches")
    sys.exit(1 if bad else 0)
