"""C01 Content store returns exactly the bytes that were stored.

TLC: Cafs.tla writer state machine (all chunkings x concurrency x completion
orders) with the layout/readback invariants. Binding (A): every behaviour TLC
enumerates (Gen_Cafs, identity content) is replayed on pkg/cafs: the source
hands the writer exactly the behaviour's chunks, leaf flushes complete in the
behaviour's order, PutRes and the blob store are compared with the
specification's, then every read style is run against Cafs!ReadAtOp /
Cafs!ReadAllowed."""
import os

import vlib
from vlib import Infra

MiB = 1 << 20


def gen(ctx, cfg, defines, name, simulate=None, depth=None, timeout=900):
    beh = os.path.join(ctx.work, name)
    d = dict(defines)
    d['"cafs_beh.ndjson"'] = '"%s"' % beh
    g = vlib.run_tlc(ctx, "Gen_Cafs.tla", cfg, workers=1, timeout=timeout, defines=d, simulate=simulate, depth=depth)
    if g["timed_out"] or not os.path.exists(beh):
        raise Infra("behaviour generation failed:\n" + g["out"][-2000:])
    if g["violated"] or (g["error"] and not simulate):
        raise Infra("Gen_Cafs: specification invariant failed: %s %s" % (g["violated"], g["error"]))
    return beh


def run(ctx):
    vlib.build_harness(ctx)
    if ctx.thorough:
        st = vlib.run_tlc(ctx, "MC_Cafs.tla", "MC_Cafs.cfg", workers=16, timeout=1500,
                          defines={"MaxN = 10": "MaxN = 19", "Conc = {1, 2, 3}": "Conc = {1, 2, 3, 4}",
                                   "Chunks = {0, 1, 2, 3, 4}": "Chunks = {0, 1, 2, 3, 4, 6, 7}"})
    else:
        st = vlib.run_tlc(ctx, "MC_Cafs.tla", "MC_Cafs.cfg", workers=8, timeout=600)
    vlib.require_tlc_ok(st, "MC_Cafs")

    seed = ctx.seed
    beh = gen(ctx, "Gen_Cafs_ident.cfg", {}, "beh_ident.ndjson")
    jobs = []

    def job(name, beh, args):
        return lambda: vlib.replay(ctx, "cafs", beh, name, args + ["--seed", str(seed)])

    alt = [
        ["--leaf", "65", "--style", "readeof", "--boundary", "--reads", "light"],
        ["--leaf", "96", "--style", "read", "--crc", "--prefetch", "1", "--reads", "light"],
        ["--leaf", "64", "--style", "writeto", "--boundary", "--crc", "--cache1", "--reads", "full"],
        ["--leaf", "4096", "--style", "writeto", "--prefetch", "2", "--cache1", "--reads", "light"],
    ]
    jobs.append(job("a", beh, ["--leaf", "64", "--style", "writeto", "--reads", "full"]))
    if not ctx.thorough:
        jobs.append(job("b", beh, alt[seed % len(alt)]))
        jobs.append(job("c", beh, alt[(seed + 1) % len(alt)]))
    else:
        for i, a in enumerate(alt):
            jobs.append(job("alt%d" % i, beh, a))
        jobs.append(job("full65", beh, ["--leaf", "65", "--style", "read", "--boundary", "--reads", "full", "--prefetch", "1"]))
        # longer contents, more chunk sizes, higher concurrency: sampled
        big = gen(ctx, "Gen_Cafs_ident.cfg",
                  {"MaxN = 7": "MaxN = 19", "Conc = {1, 2}": "Conc = {1, 2, 3, 16}",
                   "Chunks = {0, 1, 2, 3, 4}": "Chunks = {0, 1, 2, 3, 4, 6, 7}"},
                  "beh_big.ndjson", simulate="num=6000", depth=200)
        jobs.append(job("big64", big, ["--leaf", "64", "--style", "writeto", "--reads", "light"]))
        jobs.append(job("big96", big, ["--leaf", "96", "--style", "read", "--crc", "--prefetch", "2", "--reads", "light"]))
        # large leaves on a sample
        sample = os.path.join(ctx.work, "beh_sample.ndjson")
        lines = open(big).read().splitlines()
        step = max(1, len(lines) // 12)
        open(sample, "w").write("\n".join(lines[::step][:12]) + "\n")
        for lam in (65536, MiB, MiB + 1, 2 * MiB, 5 * MiB):
            jobs.append(job("lam%d" % lam, sample, ["--leaf", str(lam), "--style", "read" if lam % 2 else "writeto",
                                                    "--reads", "light", "--boundary"]))
    # several leaf sizes in ONE process, in turn (buffer pools, free lists and caches must not leak between store
    # instances): whole and fractional MiB sizes and small ones, on a sample of the behaviours
    mixed = os.path.join(ctx.work, "beh_mixed.ndjson")
    lines = open(beh).read().splitlines()
    want = 60 if ctx.thorough else 16
    step = max(1, len(lines) // want)
    open(mixed, "w").write("\n".join(lines[::step][:want]) + "\n")
    jobs.append(job("mixed", mixed, ["--leaf-cycle", "%d,%d,%d,%d,64,%d" % (MiB, MiB + 7, 2 * MiB, 2 * MiB + MiB // 2, 3 * MiB - 1),
                                     "--style", "read", "--reads", "light", "--boundary"]))
    # hash verification switched off (an option of the store): reads must return the stored bytes all the same;
    # leaves of 96 KiB and 100 000 bytes are copied in more than two 32 KiB pieces by the streaming paths
    # store readers that hand out 1000 bytes per Read and return io.EOF together with the last bytes (leaf 4096);
    # a leaf cache of ONE leaf under the full read matrix (sequential reader vs random reads of one instance)
    jobs.append(job("eofreads", mixed, ["--leaf", "4096", "--eof-reads", "--style", "read", "--reads", "full"]))
    jobs.append(job("cache1", mixed, ["--leaf", "64", "--cache1", "--noverify", "--style", "read", "--reads", "full"]))
    jobs.append(job("noverify", mixed, ["--leaf-cycle", "98304,100000,64", "--noverify", "--style", "writeto", "--reads", "full"]))
    results = vlib.parallel(jobs, max_workers=8)
    tot = vlib.account(ctx, results)
    ctx.notes.update(behaviours_replayed=tot["behaviours"], steps_compared=tot["steps"],
                     distinct_nontrivial=tot["nontrivial"], exhaustive=not ctx.thorough,
                     configs=[r["config"] for r in results],
                     rule="behaviour = (content length, sequence of Write sizes, flush concurrency, flush completion order) "
                          "enumerated by TLC (BFS: each exactly once; simulate beyond); non-trivial = content longer than one "
                          "leaf; each behaviour is followed by the read matrix (Read with 8+ buffer patterns, ReadAt table "
                          "incl. past EOF, interleaved Read/ReadAt, WriteTo to io.Writer and io.WriterAt)")
    return vlib.finish(ctx, "model_checking", {}, [
        "bytes are a PRF of (seed, cell value); a leaf of the spec has 3 cells mapped to lambda bytes (uniform or 1/lambda-2/1)",
        "short sequential reads are allowed (io.Reader contract); ReadAt past EOF must return 0 bytes without panicking",
        "blob store = in-memory object store checked against ObjectStore.tla (C16)",
    ])
