"""C12 A diamond commits at most once, from completed splits only.

TLC on Diamond.tla (one action per store call; split runners incl. reruns,
committers with retry, canceler, crash anywhere): AtMostOneSuccessfulCommit,
RefusedAfterTerminal, BundleFromRecordedRuns, CommitOkMeansDone,
TerminalStable, DoneSplitImmutable hold; AtMostOneBundle is violated by the
protocol itself (design-level finding, reproduced on the code below); the
repaired protocol (FixedCommit) satisfies it.
Binding (B): real CreateSplit / Split.Upload / Diamond.Commit / Cancel are
driven by the gate scheduler through interleavings of their store calls
(window schedules, seeded random schedules), crashes at every write and
retries; every recorded store-call trace is validated by DiamondTrace.tla."""
import os
import re

import vlib
from vlib import Infra


def run(ctx):
    vlib.build_harness(ctx)
    if ctx.thorough:
        st = vlib.run_tlc(ctx, "MC_Diamond.tla", "MC_Diamond.cfg", workers=16, timeout=2400, heap="24g")
    else:
        st = vlib.run_tlc(ctx, "MC_Diamond.tla", "MC_Diamond_small.cfg", workers=12, timeout=600)
    vlib.require_tlc_ok(st, "MC_Diamond")
    # the design-level finding, as TLC sees it on the protocol model
    ob = vlib.run_tlc(ctx, "MC_Diamond.tla", "MC_Diamond_onebundle.cfg", workers=8, timeout=900,
                      defines={'Runners = {"u1", "u2", "u3"}': 'Runners = {"u1"}', "MaxRetry = 1": "MaxRetry = 0"})
    ctx.notes["protocol_model_AtMostOneBundle"] = "violated (as expected: both commits pass the ready check before either publishes)" \
        if ob["violated"] == "AtMostOneBundle" else "NOT violated: %s" % ob["violated"]
    if ctx.thorough:
        fx = vlib.run_tlc(ctx, "MC_Diamond.tla", "MC_Diamond_fixed.cfg", workers=16, timeout=2400, heap="24g")
        ctx.notes["repaired_protocol_AtMostOneBundle"] = "holds" if fx["ok"] else "fails: %s" % (fx["violated"] or fx["error"])

    shards = 8
    findings = {}

    def shard(i):
        tr = os.path.join(ctx.work, "dia%d.ndjson" % i)
        rs = os.path.join(ctx.work, "dia%d.json" % i)
        args = ["diamond", "--out", tr, "--res", rs, "--work", ctx.sub("wd%d" % i), "--seed", str(ctx.seed),
                "--shard", str(i), "--shards", str(shards)]
        if ctx.thorough:
            args.append("--thorough")
        if ctx.seed % 2:
            args.append("--crc")
        vlib.run_vh(ctx, args, timeout=3000)
        return tr, rs

    outs = vlib.parallel([lambda i=i: shard(i) for i in range(shards)], max_workers=shards)
    total_beh = 0
    for tr, rs in outs:
        import json
        r = json.load(open(rs))
        ctx.results.append(r)
        total_beh += r["behaviours"]
        for s in r.get("samples", [])[:1]:
            if len(ctx.samples) < 3:
                ctx.samples.append(s)
        t = vlib.run_tlc(ctx, "DiamondTrace.tla", "DiamondTrace.cfg", workers=1, timeout=1200, extra_files={"trace.ndjson": tr})
        if t["timed_out"] or t["position"] is None:
            raise Infra("DiamondTrace did not run:\n" + t["out"][-2000:])
        pos, total = t["position"]
        for m in re.findall(r'<<"finding", "two-bundles", "([^"]+)">>', t["out"]):
            findings[m] = findings.get(m, 0) + 1
        if pos != total + 1:
            lines = open(tr).read().splitlines()
            scen = "?"
            for ln in lines[:pos][::-1]:
                if '"op":"reset"' in ln:
                    scen = json.loads(ln)["scenario"]
                    break
            ev = json.loads(lines[pos - 1]) if pos - 1 < len(lines) else {}
            sig = "diamond/trace-rejected/%s/%s-%s" % (scen, ev.get("op"), ev.get("kind", ev.get("role", "")))
            vlib.judge(ctx, [dict(sig=sig, op="trace", step=pos, detail="event not allowed by DiamondTrace.tla in scenario " + scen,
                                  got=lines[max(0, pos - 15):pos])])
    for scen, n in sorted(findings.items()):
        vlib.judge(ctx, [dict(sig="diamond/two-bundles/" + scen, op="commit", detail="%d schedules of scenario %s end with two "
                              "bundle descriptors for one diamond" % (n, scen))])
    ctx.traces_validated += total_beh
    ctx.notes.update(scenarios_validated=total_beh, distinct_nontrivial=sum(r["distinct_nontrivial"] for r in ctx.results),
                     two_bundle_schedules=findings,
                     rule="scenario = set-up operations + concurrently gated operations (window schedule: the first runs k store "
                          "calls, the others run to completion, then it resumes, k = 0..14/40; or seeded random interleaving) + "
                          "crash of an operation at each of its writes (before/after) + retries; non-trivial = at least two "
                          "concurrent operations or a crash")
    return vlib.finish(ctx, "model_checking", {}, [
        "one store call = one atomic step (object store semantics checked in C16); crash = fail-stop of one client",
        "'complete when the commit started' is read as: splits done at the commit's ready check are included, only splits the "
        "commit saw done are included",
        "AtMostOneBundle is violated by the protocol as designed (ready check, bundle.yaml and diamond-done are three separate "
        "store calls): recorded as a known finding per scenario class, every other scenario class must have one bundle at most",
    ])
