"""C11 Diamond commit merges splits by latest write, keeping every losing version.

TLC: Merge.tla - MergeOp (declarative) against the collect-then-resolve
algorithm for every arrival order (OrderIndependent), MainSameInAllModes,
IgnoreAddsNothing, IdenticalNeverConflict, on every enumerated input.
Binding (A): every case (versions with upload-time order, mode, arrival order)
is built with real CreateSplit + Split.Upload, the upload times of the stored
file lists are set to the case's order, the commit's file-list reads complete
in the case's arrival order, and the committed entries are compared with MergeOp."""
import os

import vlib
from vlib import Infra


def gen(ctx, name, defines, simulate=None):
    out = os.path.join(ctx.work, name)
    d = dict(defines)
    d['"merge.ndjson"'] = '"%s"' % out
    g = vlib.run_tlc(ctx, "Gen_Merge.tla", "Gen_Merge.cfg", workers=1, timeout=1800, defines=d, simulate=simulate,
                     depth=3 if simulate else None)
    if g["timed_out"] or not os.path.exists(out):
        raise Infra("Gen_Merge failed:\n" + g["out"][-2000:])
    if g["violated"] or (not simulate and not g["ok"]):
        raise Infra("Gen_Merge: the specification itself fails (%s %s)" % (g["violated"], g["error"]))
    return out


def run(ctx):
    vlib.build_harness(ctx)
    results = []
    if ctx.thorough:
        full = gen(ctx, "full.ndjson", {})   # exhaustive: <= 3 versions over 3 splits x 2 paths x 2 contents, all orders
        results.append(vlib.replay_sharded(ctx, "merge", full, "full", ["--leaf", "65536", "--seed", str(ctx.seed)], shards=16))
        big = gen(ctx, "big.ndjson", {"Sample = FALSE": "Sample = TRUE", "MaxVersions = 3": "MaxVersions = 10",
                                      'Splits = {"s1", "s2", "s3"}': 'Splits = {"s1", "s2", "s3", "s4", "s5", "s6", "s7", "s8"}',
                                      'MPaths = {"p", "d/q"}': 'MPaths = {"p", "d/q", "r", "d/e/s", ".env", "env", "..data/v"}',
                                      'Hashes = {"h1", "h2"}': 'Hashes = {"h1", "h2", "h3"}'}, simulate="num=3000")
        results.append(vlib.replay_sharded(ctx, "merge", big, "big", ["--leaf", "4096", "--crc", "--seed", str(ctx.seed)], shards=16))
    else:
        small = gen(ctx, "small.ndjson", {"MaxVersions = 3": "MaxVersions = 2"})  # exhaustive for <= 2 versions
        results.append(vlib.replay_sharded(ctx, "merge", small, "small", ["--leaf", "65536", "--seed", str(ctx.seed)], shards=12))
        # three splits writing ONE path (every content pattern, every order of upload times, every arrival order)
        one = gen(ctx, "onepath.ndjson", {'MPaths = {"p", "d/q"}': 'MPaths = {"p"}'})
        results.append(vlib.replay_sharded(ctx, "merge", one, "one", ["--leaf", "65536", "--seed", str(ctx.seed)], shards=12))
        # the same cases with the commit listing the splits in pages of 1, 2, 3, 5 keys (and the default)
        results.append(vlib.replay_sharded(ctx, "merge", one, "pages", ["--leaf", "4096", "--seed", str(ctx.seed), "--small-pages"], shards=12))
        samp = gen(ctx, "samp.ndjson", {"Sample = FALSE": "Sample = TRUE", "MaxVersions = 3": "MaxVersions = 5",
                                        'MPaths = {"p", "d/q"}': 'MPaths = {"p", "d/q", ".env", "env"}',
                                        'Hashes = {"h1", "h2"}': 'Hashes = {"h1", "h2", "h3"}'}, simulate="num=500")
        results.append(vlib.replay_sharded(ctx, "merge", samp, "samp",
                                           ["--leaf", "4096", "--seed", str(ctx.seed)] + (["--crc"] if ctx.seed % 2 else []), shards=12))
    # splits of more than 1000 entries (several file lists per split and for the commit): every split also uploads
    # 1001 filler files that never conflict
    src = samp if not ctx.thorough else big
    lines = [l for l in open(src).read().splitlines() if l.strip()]
    bulk = os.path.join(ctx.work, "bulk.ndjson")
    open(bulk, "w").write("\n".join(lines[:(16 if ctx.thorough else 6)]) + "\n")
    results.append(vlib.replay_sharded(ctx, "merge", bulk, "bulk", ["--leaf", "64", "--seed", str(ctx.seed), "--bulk", "1001", "--sched=false"],
                                       shards=6))
    tot = vlib.account(ctx, results)
    ctx.notes.update(cases_replayed=tot["behaviours"], steps_compared=tot["steps"], distinct_nontrivial=tot["nontrivial"],
                     rule="case = (set of versions [split, path, content] with a total order of upload times, conflict mode, "
                          "arrival order of the splits' file lists); enumerated exhaustively by TLC for small bounds, sampled "
                          "beyond; non-trivial = at least two splits")
    return vlib.finish(ctx, "model_checking", {}, [
        "upload times are pairwise distinct (the stored file lists are re-timed to the case's order)",
        "a version identical to the winner's content must not appear under .conflicts/.checkpoints",
        "the arrival order is forced by holding the commit's reads of the split file lists; timing noise can only change "
        "which order is exercised, never the verdict (the oracle does not depend on the order)",
    ])
