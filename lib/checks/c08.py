"""C08 Labels resolve to the bundle most recently assigned to them."""
import vlib
from checks import metacommon as mc


def run(ctx):
    vlib.build_harness(ctx)
    mc.mc_meta(ctx)
    n = 2000 if ctx.thorough else 250
    beh = mc.gen_meta(ctx, "beh.ndjson", n, 16, False, True, False, '{"label", "delete"}', labelw=8)
    cfgs = [["--leaf", "4096", "--final-download=false"] + (["--crc"] if ctx.seed % 2 else []),
            ["--leaf", "4096", "--final-download=false", "--batch", "1", "--apply", "--deep=false"]]
    if ctx.thorough:
        cfgs += [["--leaf", "64", "--batch", "1", "--final-download=false"], ["--leaf", "64", "--batch", "2", "--crc", "--final-download=false"]]
    results = vlib.parallel(mc.replay_jobs(ctx, beh, cfgs), max_workers=4)
    return mc.finish(ctx, results,
                     "behaviour = random walk over label set / overwrite / delete, bundle deletes, repo delete and rename "
                     "over prefix-related repositories (r1, r10, r1-x); after every step every label is resolved and every "
                     "repository's labels are listed and compared with Meta!GetLabelOp / ListLabelsOp, and the bundle "
                     "objects are compared with the post-state (a label set changes nothing else)",
                     [])
