"""C08 Labels resolve to the bundle most recently assigned to them."""
import vlib
from checks import metacommon as mc


def run(ctx):
    vlib.build_harness(ctx)
    mc.mc_meta(ctx)
    n = 2000 if ctx.thorough else 250
    beh = mc.gen_meta(ctx, "beh.ndjson", n, 16, False, True, False, '{"label", "delete"}', labelw=8)
    cfgs = [["--leaf", "4096", "--final-download=false"] + (["--crc"] if ctx.seed % 2 else []),
            ["--leaf", "4096", "--final-download=false", "--batch", "1", "--apply", "--deep=false"]]
    if ctx.thorough:
        cfgs += [["--leaf", "64", "--batch", "1", "--final-download=false"], ["--leaf", "64", "--batch", "2", "--crc", "--final-download=false"]]
    # label names: LabelNames.tla (accepted names are listed, resolved and listed under every prefix of theirs,
    # and only there); TLC enumerates every sequence of one or two names of a pool (documented alphabet and
    # hostile names) and samples longer ones; the implementation decides what it accepts
    import os
    st = vlib.run_tlc(ctx, "MC_LabelNames.tla", "MC_LabelNames.cfg", workers=2, timeout=600)
    vlib.require_tlc_ok(st, "MC_LabelNames")
    cases = os.path.join(ctx.work, "labelnames.ndjson")
    g = vlib.run_tlc(ctx, "Gen_LabelNames.tla", "Gen_LabelNames.cfg", workers=1, timeout=600,
                     defines={'"labelnames.ndjson"': '"%s"' % cases})
    vlib.require_tlc_ok(g, "Gen_LabelNames")
    g2 = vlib.run_tlc(ctx, "Gen_LabelNames.tla", "Gen_LabelNames.cfg", workers=1, timeout=600, seed=ctx.seed,
                      simulate="num=%d" % (2000 if ctx.thorough else 150), depth=3,
                      defines={'"labelnames.ndjson"': '"%s"' % cases, "Sample = FALSE": "Sample = TRUE"})
    if g2["timed_out"]:
        raise vlib.Infra("Gen_LabelNames sampling timed out")
    jobs = mc.replay_jobs(ctx, beh, cfgs)
    for k, extra in enumerate([[], ["--batch", "1", "--crc"]] if not ctx.thorough else [[], ["--batch", "1", "--crc"], ["--batch", "2"]]):
        jobs.append(lambda k=k, extra=extra: vlib.replay(ctx, "labelnames", cases, "names%d" % k,
                                                         ["--seed", str(ctx.seed), "--work", ctx.sub("ln%d" % k)] + extra))
    results = vlib.parallel(jobs, max_workers=6)
    return mc.finish(ctx, results,
                     "behaviour = random walk over label set / overwrite / delete, bundle deletes, repo delete and rename "
                     "over prefix-related repositories (r1, r10, r1-x); after every step every label is resolved and every "
                     "repository's labels are listed and compared with Meta!GetLabelOp / ListLabelsOp, and the bundle "
                     "objects are compared with the post-state (a label set changes nothing else); label-name cases = sequences of "
                     "1-2 (sampled: 3-5) names set in one repository, a neighbour holding the first name too: accepted names "
                     "resolve, are listed once, and are listed under every prefix of theirs and only there, also after one "
                     "of them is deleted",
                     [])
