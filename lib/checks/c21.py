"""C21 Sidecar parameters survive environment-variable encoding.

TLC (1): MC_Params.tla - the reference codec of Params.tla checked on itself,
exhaustively over a small alphabet (Decode(Encode(p)) = Expected(p), Unambiguous
is exactly "decodes back" for ANY separators); MC_Params_asis.cfg - the
algorithm of params.go transcribed, expected to fail (prediction only).
TLC (2): Gen_Params.tla chooses parameter sets from value classes - exhaustive
single-position substitutions of well-formed baselines (BFS) plus random sets
(-simulate) - and a fixed corpus of literal sets (checks/c21_literals.ndjson).
Binding (B): the harness calls the REAL param.FUSEParamsToEnvVars /
PGParamsToEnvVars (builder API and YAML route) on each set and logs
{input, output variables, error flag}; ParamsTrace.tla (TLC) judges every event:
err \\/ (Decode(out) = Expected(in) /\\ Unambiguous(out) /\\ ShellSafe(kv separator)).
The signatures of non-conforming events are computed by the specification.
"""
import collections
import json
import os

import vlib
from vlib import Infra

HERE = os.path.dirname(os.path.abspath(__file__))


class _Sub:
    """A private scratch area for one of several concurrent TLC runs
    (vlib.run_tlc numbers its directories per scratch area)."""

    def __init__(self, ctx, name):
        self.work = ctx.sub(name)
        self.seed = ctx.seed
        self.tlc_runs = ctx.tlc_runs

    def sub(self, name):
        d = os.path.join(self.work, name)
        os.makedirs(d, exist_ok=True)
        return d


def _text(v):
    if not isinstance(v, list):
        return v
    t = "".join(v)
    if len(t) > 400:        # only the exotic set of the thorough tier
        t = "%s...(%d characters, code points %d..%d, all distinct: %s)...%s" % (
            t[:60], len(v), min(map(ord, v)), max(map(ord, v)), len(set(v)) == len(v), t[-20:])
    return t


def _readable(ev):
    """An event with its character sequences joined (for replay files / evidence)."""
    out = dict(id=ev["id"], kind=ev["kind"], route=ev["route"], err=ev["err"], error=ev.get("errs", ""),
               globals={k: _text(v) for k, v in ev["g"].items()},
               units=[{k: _text(v) for k, v in u.items()} for u in ev["units"]],
               env={_text(o["name"]): _text(o["val"]) for o in ev["out"]})
    seps = sorted({(o["cp"][0], o["cp"][1]) for o in ev["out"] if len(o["cp"]) >= 2})
    out["separators_code_points"] = [list(s) for s in seps]
    return out


def run(ctx):
    vlib.build_harness(ctx)
    workers = 16 if ctx.thorough else 8

    # ---- 1. the specification itself, and generation, concurrently
    single = os.path.join(ctx.work, "cases_single.ndjson")
    rnd = os.path.join(ctx.work, "cases_random.ndjson")
    lines = 3000 if ctx.thorough else 40          # x PerLine = 10 parameter sets
    maxval = 3 if ctx.thorough else 2

    def mc():
        return vlib.run_tlc(_Sub(ctx, "mc"), "MC_Params.tla", "MC_Params.cfg", workers=workers, timeout=1200,
                            defines={"MaxVal = 2": "MaxVal = %d" % maxval})

    def asis():
        return vlib.run_tlc(_Sub(ctx, "asis"), "MC_Params.tla", "MC_Params_asis.cfg", workers=2, timeout=600)

    def gen_single():
        return vlib.run_tlc(_Sub(ctx, "gs"), "Gen_Params.tla", "Gen_Params.cfg", workers=1, timeout=600,
                            defines={'"cases.ndjson"': '"%s"' % single})

    def gen_random():
        return vlib.run_tlc(_Sub(ctx, "gr"), "Gen_Params.tla", "Gen_Params.cfg", workers=1, timeout=900,
                            simulate="num=%d" % lines, depth=3,
                            defines={'Mode = "single"': 'Mode = "random"', '"cases.ndjson"': '"%s"' % rnd})

    st_mc, st_asis, st_gs, st_gr = vlib.parallel([mc, asis, gen_single, gen_random], max_workers=4)
    vlib.require_tlc_ok(st_mc, "MC_Params")
    vlib.require_tlc_ok(st_gs, "Gen_Params (single)")
    if st_gr["timed_out"] or not os.path.exists(rnd):
        raise Infra("no random cases generated:\n" + st_gr["out"][-2000:])
    if not os.path.exists(single):
        raise Infra("no single-substitution cases generated:\n" + st_gs["out"][-2000:])
    # the as-is transcription is a prediction, never a verdict
    asis_predicts = st_asis["violated"] == "AsIsRoundTrip"
    st_asis["mode"] = "asis"        # its states do not count as states of the specification

    # ---- 2. the real encoder on every set: event log
    sources = [("S", single), ("R", rnd), ("L", os.path.join(HERE, "c21_literals.ndjson"))]
    if ctx.thorough:
        # one exotic literal set (too slow for the quick tier: the encoder is quadratic in the number of
        # distinct characters): a value that uses every code point from "0" up to the surrogate range
        exotic = os.path.join(ctx.work, "cases_exotic.ndjson")
        case = dict(lit=True, kind="fuse", route="builder", note="a value covering U+0030..U+D7FF",
                    g=dict(SleepInsteadOfExit=False, CoordPoint="".join(chr(c) for c in range(0x30, 0xD800)),
                           ConfigBucketName="b", ContextName="a"), units=[])
        open(exotic, "w").write(json.dumps([case], ensure_ascii=True) + "\n")
        sources.append(("X", exotic))
    trace = os.path.join(ctx.work, "trace_all.ndjson")
    totals = collections.Counter()
    for tag, path in sources:
        r = vlib.replay(ctx, "params", path, "params_" + tag, ["--trace", trace, "--seed", str(ctx.seed), "--tag", tag])
        vlib.judge_result(ctx, r)       # panics of the encoder, builder API altering its input
        for k, v in r.get("extra", {}).items():
            if isinstance(v, int):
                totals[k] += v
        totals["sets"] += r["steps"]
    if totals["harness_error"]:
        raise Infra("%d cases could not be instantiated by the harness" % totals["harness_error"])
    events = open(trace).read().splitlines()
    if not events:
        raise Infra("the harness logged no event")

    # ---- 3. ParamsTrace.tla judges the log (events are independent: sharded over JVMs)
    nshards = min(8 if ctx.thorough else 2, max(1, len(events) // 500))
    shards = []
    for i in range(nshards):
        p = os.path.join(ctx.work, "trace_%d.ndjson" % i)
        part = events[i::nshards]
        open(p, "w").write("\n".join(part) + "\n")
        shards.append((p, len(part), os.path.join(ctx.work, "verdicts_%d.ndjson" % i)))

    def validate(i):
        p, n, vf = shards[i]
        t = vlib.run_tlc(_Sub(ctx, "tv%d" % i), "ParamsTrace.tla", "ParamsTrace.cfg", workers=1, timeout=1500, heap="3g",
                         extra_files={"trace.ndjson": p}, defines={'"verdicts.ndjson"': '"%s"' % vf})
        if t["timed_out"] or t["position"] is None:
            raise Infra("trace validation did not run (shard %d): %s" % (i, t["out"][-1500:]))
        pos, total = t["position"]
        if total != n or pos != n + 1:
            # the specification could not evaluate an event: a problem of the checker
            raise Infra("trace validation stopped at event %d of %d (shard %d, %d expected): %s" % (
                pos, total, i, n, t["out"][-1500:]))
        return t

    vlib.parallel([lambda i=i: validate(i) for i in range(nshards)], max_workers=nshards)
    ctx.traces_validated += len(events)

    # ---- 4. verdict lines -> mismatches (signatures come from the specification)
    verdicts = {}
    for _, _, vf in shards:
        if os.path.exists(vf):
            for line in open(vf):
                line = line.strip()
                if line:
                    v = json.loads(line)
                    verdicts[v["id"]] = v
    sig_counts = collections.Counter()
    obs_counts = collections.Counter()
    per_sig = collections.Counter()
    mismatches = []
    wanted = {i for i, v in verdicts.items() if v["sigs"]}
    byid = {}
    for line in events:
        # ids are near the start of the line; parse only the events we need
        head = line[:80]
        k = head.find('"id":"')
        eid = head[k + 6:head.find('"', k + 6)]
        if eid in wanted:
            byid[eid] = json.loads(line)
    for eid in sorted(verdicts, key=lambda x: (x[0] not in "L", x[0] == "X", x)):     # literal witnesses first (smallest inputs)
        v = verdicts[eid]
        for o in v["obs"]:
            obs_counts[o] += 1
        for sig in sorted(v["sigs"]):
            sig_counts[sig] += 1
            if per_sig[sig] < 3:
                per_sig[sig] += 1
                ev = byid[eid]
                mismatches.append(dict(sig=sig, op="encode/" + ev["kind"], beh=eid, step=0,
                                       detail="all signatures of this event: %s" % sorted(v["sigs"]),
                                       got=_readable(ev)))
    vlib.judge(ctx, mismatches)

    encoded = totals["encoded"]
    picked = []
    for line in events[:200]:
        ev = json.loads(line)
        if not ev["err"] and len(picked) < 2 and ev["kind"] not in [p["kind"] for p in picked]:
            picked.append(_readable(ev))
    ctx.samples = picked + ctx.samples[:2]
    ctx.notes.update(
        behaviours_replayed=totals["sets"], steps_compared=len(events), distinct_nontrivial=encoded,
        parameter_sets=dict(single_substitution=sum(1 for _ in open(single)), random=lines * 10,
                            literal=sum(1 for _ in open(sources[2][1])) + (1 if ctx.thorough else 0)),
        encoded=encoded, refused_by_builder=totals["refused_by_builder"], refused_by_encoder=totals["refused_by_encoder"],
        skipped_yaml_roundtrip=totals["skipped_yaml_roundtrip"],
        events_nonconforming=len(wanted), sig_counts=dict(sig_counts), observations=dict(obs_counts),
        asis_counterexamples=1 if asis_predicts else 0,
        asis_note="EncodeAsIs (separators chosen against the values only) violates AsIsRoundTrip in the bounded model"
                  if asis_predicts else "the as-is transcription no longer fails in the bounded model",
        mc_bound="alphabet { : ; S a b . }, two keyed values (keys a, ab) of length <= %d and one flag" % maxval,
        rule="parameter set = one call of the real encoder; non-trivial = the encoder returned variables "
             "(not an error); every event judged by ParamsTrace.tla")
    return vlib.finish(ctx, "model_checking", {}, [
        "the reference decoder is the documented format as implemented by deserialize_dict of wrap_datamon.sh: "
        "empty items dropped, only field 2 of cut kept, a later item overwrites an earlier one",
        "option names are those of params.go (FUSE: the ones wrap_datamon.sh reads); parameters of the API without "
        "option name (PG DestBundleID, PG Contributor) must come back under any key that is not an option name",
        "a boolean false / port 0 may be encoded or omitted; an error is accepted for every set except a "
        "well-formed set of lower-case values (plain-set-rejected, guards against a vacuous pass)",
        "ShellSafe is required of the key/value separator only (the one given to grep and cut); neither separator may be "
        "'=' (the script splits the lines of `export` with cut -d '=' -f 2; values holding '=' suffer the same on the "
        "unchanged tree, which is the script's own limit and not judged)",
        "two units with the same name share one variable: recorded as an observation, not a verdict",
        "the shell script itself (print without -r, cut -d '=' on the export line, quoting of the export "
        "statements printed by cmd/sidecar_param) is outside the property",
    ])
