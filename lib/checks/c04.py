"""C04 Bundle upload then download reproduces the uploaded tree."""
import vlib
from checks import metacommon as mc


def run(ctx):
    vlib.build_harness(ctx)
    mc.mc_meta(ctx)
    n = 1500 if ctx.thorough else 150
    ops = '{"download", "keys", "diff"}'
    beh = mc.gen_meta(ctx, "beh.ndjson", n, 12, False, False, False, ops)
    big = mc.gen_meta(ctx, "big.ndjson", 40 if ctx.thorough else 5, 7, False, False, False, '{"download"}',
                      bulks="{999, 1000, 1001, 2000, 2500}" if ctx.thorough else "{1000, 1001}", maxbundles=2, seed=ctx.seed + 7)
    # file counts that are exact multiples of the index-file size (1000, 1 + 999, 2000)
    exact = mc.gen_meta(ctx, "exact.ndjson", 0, 8, False, False, False, '{"download"}', maxbundles=4, script="exact")
    s = ctx.seed
    cfgs = [["--leaf", "64", "--conc", "1"], ["--leaf", "4096", "--conc", "20", "--crc"]]
    if ctx.thorough:
        cfgs += [["--leaf", "65", "--conc", "7"], ["--leaf", "65536", "--conc", "2", "--crc"], ["--leaf", str(2 << 20), "--conc", "4"]]
    else:
        cfgs = [cfgs[s % 2], ["--leaf", "96", "--conc", "4"] + (["--crc"] if s % 2 == 0 else [])]
    jobs = mc.replay_jobs(ctx, beh, cfgs) + mc.replay_jobs(ctx, big, [["--leaf", "64", "--conc", "20"]], prefix="big") + \
        mc.replay_jobs(ctx, exact, [["--leaf", "64", "--conc", "8"]], prefix="exact")
    if ctx.thorough:
        jobs += mc.replay_jobs(ctx, big, [["--leaf", "4096", "--conc", "1", "--crc"]], prefix="big2")
    results = vlib.parallel(jobs, max_workers=8)
    return mc.finish(ctx, results,
                     "behaviour = TLC random walk over createrepo / upload of a random tree (hostile paths, generated-path "
                     "decoys, empty / short / multi-leaf / duplicated contents) / upload of an explicit key list (repeated, "
                     "missing, skip-missing) / selective download / diff; plus uploads of 1000, 1001 (.. 2500) files; "
                     "non-trivial = at least 3 mutating steps; every visible bundle is downloaded and compared byte for byte",
                     ["entry order inside a bundle is not part of the property"])
