"""C17 A read-only mount shows exactly the bundle.

TLC: FuseRO.tla bounded model (every well-formed bundle within the bound: the tree
reachable through lookups is exactly entries + implied directories, lookups and
listings agree, every listing cut into calls at any offsets with any capacities
yields every child exactly once, reads return exactly the requested cells).
Binding (A): Gen_FuseRO.tla generates bundles and programs of mount operations,
each step carrying the result the specification defines:
  * BFS: every bundle within a tiny bound, each with the COMPLETE operation table
    (every lookup, getattr, readdir(dir, k, cap), read(file, off, len));
  * -simulate: random trees (files added below existing directories: siblings and
    nesting; one directory receiving extra files; empty, one-leaf, multi-leaf
    files; names "a", "a.b", "sp ace", "ü", ...) with random programs.
The harness uploads each bundle with the real API, mounts it read-only
(fuse.NewReadOnlyFS) streamed and pre-downloaded, and runs the program against
the file system operation interface of the mount (export hook VerifFileSystem):
inodes learnt from lookup replies (injectivity), listings with small buffers
resumed at the last offset returned, reads byte for byte (past EOF: 0 bytes).
Self-test: every behaviour file is first replayed on an independent in-memory
file system inside the harness; a disagreement there is an infrastructure error.
"""
import json
import os
import time
from concurrent.futures import ThreadPoolExecutor

import vlib
from vlib import Infra

NAMES_SMALL = '{"a", "ü"}'
NAMES_MID = '{"a", "a.b", "ü"}'
# (the last two: one name in composed and in decomposed Unicode form - different names for the bundle)
NAMES_BIG = '{"a", "a.b", "sp ace", "ü", "d", "e", "ten-chars1", "a-very-long-file-name-0123456789", "\u00e9", "e\u0301"}'
READS = 1400


def _defs(out, **kw):
    """cfg substitutions: keyword -> the constant's new value (text)."""
    base = {
        "Kinds": "{1, 2, 3, 4, 5, 6, 7, 8}",
        "Names": '{"a", "a.b", "ü"}', "MaxDepth": "2", "MaxFiles": "2", "Sizes": "{0, 4, 7}", "Tags": "{1}",
        "MaxOps": "20", "MaxChain": "2", "MaxTries": "12", "MaxTotal": "6", "BulkMin": "0", "BulkMax": "3",
        "Concs": '{"boundary"}', "Caps": "{0, 1, 2}", "Rand": "FALSE",
    }
    d = {'"beh.ndjson"': '"%s"' % out}
    for k, v in kw.items():
        if k not in base:
            raise Infra("unknown Gen_FuseRO constant %s" % k)
        if str(v) != base[k]:
            d["%s = %s" % (k, base[k])] = "%s = %s" % (k, v)
    return d


def _gen(ctx, name, rand_num=None, seed=None, depth=None, timeout=900, **consts):
    beh = os.path.join(ctx.work, "beh_%s.ndjson" % name)
    if rand_num:
        consts["Rand"] = "TRUE"
    g = vlib.run_tlc(ctx, "Gen_FuseRO.tla", "Gen_FuseRO.cfg", workers=1, timeout=timeout,
                     simulate=("num=%d" % rand_num) if rand_num else None, depth=depth, seed=seed,
                     defines=_defs(beh, **consts))
    if g["timed_out"]:
        raise Infra("Gen_FuseRO %s: TLC timed out" % name)
    if not g["ok"] or not os.path.exists(beh):
        raise Infra("Gen_FuseRO %s: no behaviours generated (error=%s)\n%s" % (name, g["error"], g["out"][-2000:]))
    return beh


def _dedupe(paths, out):
    """Random walks may repeat, a split action may dump twice: keep each distinct behaviour once."""
    seen, lines = set(), []
    for p in paths:
        with open(p) as f:
            for line in f:
                if line.strip() and line not in seen:
                    seen.add(line)
                    lines.append(line)
    with open(out, "w") as f:
        f.writelines(lines)
    return len(lines)


def _replay(ctx, beh, name, shards, args):
    """Replay one behaviour file; the per-operation counters of all shards are summed into r["ops"]."""
    if shards > 1:
        r = vlib.replay_sharded(ctx, "fusero", beh, name, list(args), shards=shards)
        parts = []
        for i in range(shards):
            p = os.path.join(ctx.work, "res_%s_%d.json" % (name, i))
            if os.path.exists(p):
                parts.append(json.load(open(p)).get("extra") or {})
    else:
        r = vlib.replay(ctx, "fusero", beh, name, list(args) + ["--work", ctx.sub("w_" + name)])
        parts = [r.get("extra") or {}]
    ops = {}
    for e in parts:
        for k, v in e.items():
            if isinstance(v, int) and k != "lambda":
                ops[k] = ops.get(k, 0) + v
    r["ops"] = ops
    return r


def _staggered(i, fn):
    def job():
        time.sleep(0.4 * i)
        return fn()
    return job


def run(ctx):
    th = ctx.thorough
    crc = ["--crc"] if ctx.seed % 2 == 0 else []

    # ---- 1. the specification itself: runs beside everything else, joined at the end
    def mc():
        defines = {}
        if th:
            defines = {'Names = {"a", "a.b"}': 'Names = {"a", "a.b", "ü"}', "MaxFiles = 3": "MaxFiles = 4"}
        st = vlib.run_tlc(ctx, "MC_FuseRO.tla", "MC_FuseRO.cfg", workers=4, timeout=1500, coverage=th, defines=defines)
        vlib.require_tlc_ok(st, "MC_FuseRO")
    mc_pool = ThreadPoolExecutor(max_workers=1)
    mc_job = mc_pool.submit(mc)

    # ---- 2. generation and harness build, side by side
    jobs = [lambda: vlib.build_harness(ctx)]
    if th:
        # exhaustive: 0..2 entries over 12 paths, 3 sizes, both concretisations, complete operation table
        jobs.append(_staggered(1, lambda: _gen(ctx, "bfs", Names=NAMES_MID, Concs='{"boundary", "uniform"}', timeout=1500)))
        # random: 500 trees of up to 40 + 20 entries, 40 operations each, 4 generators side by side
        nper, ngen = 125, 4
        for g in range(ngen):
            jobs.append(_staggered(2 + g, lambda g=g: _gen(
                ctx, "rand%d" % g, rand_num=nper, seed=ctx.seed * 1000 + g, depth=400, timeout=1500,
                Names=NAMES_BIG, MaxDepth=6, MaxFiles=40, Sizes="{0, 1, 2, 3, 4, 6, 7, 10}", Tags="{1, 2}", MaxOps=40,
                MaxChain=2, MaxTries=80, MaxTotal=60, BulkMin=0, BulkMax=20, Concs='{"boundary", "uniform"}', Caps="{0, 1, 2, 3, 7}")))
        # one directory with 1 000 siblings, once (few other directories: the big one is listed often); the harness
        # adds a sweep over every file of a bundle of more than 1 000 entries
        jobs.append(_staggered(2 + ngen, lambda: _gen(
            ctx, "big", rand_num=1, seed=ctx.seed, depth=200, timeout=1500,
            Names=NAMES_BIG, MaxDepth=3, MaxFiles=3, Sizes="{0, 1, 4, 7}", Tags="{1, 2}", MaxOps=60,
            MaxChain=1, MaxTries=6, MaxTotal=1003, BulkMin=1000, BulkMax=1000, Concs='{"boundary"}', Caps="{0, 1, 3, 7}",
            Kinds="{1, 2, 4, 5, 6, 7}")))
    else:
        # exhaustive: 0..2 entries over 6 paths, sizes {0, 7} cells, complete operation table
        jobs.append(_staggered(1, lambda: _gen(ctx, "bfs", Names=NAMES_SMALL, Sizes="{0, 7}")))
        # random: trees of <= 4 + 2 entries, 20 operations
        jobs.append(_staggered(2, lambda: _gen(
            ctx, "rand0", rand_num=60, seed=ctx.seed, depth=80,
            Names=NAMES_BIG, MaxDepth=4, MaxFiles=4, Sizes="{0, 1, 2, 3, 4, 6, 7}", Tags="{1, 2}", MaxOps=20,
            MaxChain=2, MaxTries=12, MaxTotal=6, BulkMin=0, BulkMax=3, Concs='{"boundary", "uniform"}', Caps="{0, 1, 2, 3}")))
    if not th:
        # more than 1 000 entries (up to 3 + 1 001 siblings), a short program and the harness' sweep over every file
        jobs.append(_staggered(3, lambda: _gen(
            ctx, "big", rand_num=1, seed=ctx.seed, depth=120, timeout=1500,
            Names=NAMES_BIG, MaxDepth=3, MaxFiles=3, Sizes="{0, 1, 4, 7}", Tags="{1, 2}", MaxOps=12,
            MaxChain=1, MaxTries=6, MaxTotal=1004, BulkMin=1001, BulkMax=1001, Concs='{"boundary"}', Caps="{0, 3}",
            Kinds="{1, 2, 4, 5, 6, 7}")))
    # many reads: one small tree, READS reads only (run under the default limit of 1024 open files)
    jobs.append(_staggered(len(jobs), lambda: _gen(
        ctx, "reads", rand_num=1, seed=ctx.seed, depth=READS + 40, timeout=900,
        Names=NAMES_MID, MaxDepth=2, MaxFiles=2, Sizes="{4, 7}", Tags="{1, 2}", MaxOps=READS,
        MaxChain=1, MaxTries=4, MaxTotal=2, BulkMin=0, BulkMax=0, Concs='{"boundary"}', Kinds="{7, 8}")))
    outs = vlib.parallel(jobs, max_workers=len(jobs))
    bfs = outs[1]
    rands = [o for o in outs[2:] if "beh_rand" in o]
    big = [o for o in outs[2:] if "beh_big" in o]
    reads = [o for o in outs[2:] if "beh_reads" in o][0]

    n_bfs = _dedupe([bfs], bfs)
    rand = os.path.join(ctx.work, "beh_rand.ndjson")
    n_rand = _dedupe(rands, rand)
    if n_bfs == 0 or n_rand == 0:
        raise Infra("Gen_FuseRO produced nothing (bfs=%d rand=%d)" % (n_bfs, n_rand))
    if _dedupe([reads], reads) != 1:
        raise Infra("Gen_FuseRO reads: expected one behaviour")
    # (name, behaviours, leaf sizes, shards, extra harness arguments)
    sets = [("bfs", bfs, [64], 8, []), ("rand", rand, [64, 4096] if th else [64], 8, []),
            ("reads", reads, [64], 1, ["--nofile", "1024"])]
    n_big = 0
    if big:
        n_big = _dedupe(big, big[0])
        if n_big != 1:
            raise Infra("Gen_FuseRO big: expected one behaviour, got %d" % n_big)
        sets.append(("big", big[0], [64, 4096] if th else [64], 1, []))

    # ---- 3. self-test of the checker, then the real mount in both modes
    def one(name, beh, leaf, sh, more):
        base = ["--leaf", str(leaf), "--seed", str(ctx.seed)] + more
        ref = _replay(ctx, beh, "%s_ref_%d" % (name, leaf), sh, base + ["--impl", "reference"])
        if ref["mismatches"] or ref["sig_counts"]:
            raise Infra("reference file system disagrees with FuseRO.tla expectations (%s, leaf %d): %s"
                        % (name, leaf, ref["sig_counts"]))
        ctx.results.remove(ref)

        def real(mode_args, tag):
            return _replay(ctx, beh, "%s_%s_%d" % (name, tag, leaf), sh, base + crc + mode_args)
        stre_args = ["--streamed", "--cache-leaves", "3" if leaf == 64 else "2", "--prefetch", "1" if ctx.seed % 3 == 0 else "0"]
        pre, stre = vlib.parallel([lambda: real([], "pre"), lambda: real(stre_args, "str")], max_workers=2)
        for r in (pre, stre):
            if r["behaviours"] != ref["behaviours"] and not r["sig_counts"]:
                raise Infra("replay %s leaf %d: %d of %d behaviours replayed" % (name, leaf, r["behaviours"], ref["behaviours"]))
        return ref["behaviours"], [pre, stre]

    parts = vlib.parallel([lambda a=(name, beh, leaf, sh, more): one(*a) for name, beh, leaves, sh, more in sets for leaf in leaves],
                          max_workers=2 if th else 3)
    results, selftest = [], 0
    for n, rs in parts:
        selftest += n
        results += rs

    mc_job.result()
    mc_pool.shutdown()

    tot = vlib.account(ctx, results)
    ops = {}
    for r in results:
        for k, v in r["ops"].items():
            ops[k] = ops.get(k, 0) + v
    ctx.notes.update(
        behaviours_replayed=tot["behaviours"], steps_compared=tot["steps"], distinct_nontrivial=tot["nontrivial"],
        reference_selftest_behaviours=selftest,
        exhaustive_bundles=n_bfs, random_bundles=n_rand, big_directory_bundles=n_big, many_reads_bundles=1,
        modes=["pre-downloaded (localfs consumable store)", "streamed (cafs, small leaf cache)"],
        leaf_sizes=[64, 4096] if th else [64],
        object_stores="CRC-capable" if crc else "plain",
        bounds=dict(
            exhaustive=("0..2 entries over all paths of <= 2 components over %s, sizes {0,4,7} cells (L = 3 cells per leaf), "
                        "both cell-to-byte maps, complete operation table" % NAMES_MID) if th else
                       ("0..2 entries over all paths of <= 2 components over %s, sizes {0,7} cells (L = 3 cells per leaf), "
                        "complete operation table" % NAMES_SMALL),
            random=("500 trees, <= 40 + 20 entries, depth <= 6, 40 operations" if th else
                    "60 trees, <= 4 + 2 entries, depth <= 4, 20 operations"),
            big="one directory with 1 000 siblings, 60 operations, both leaf sizes" if th else "-",
            many_reads="one tree of <= 2 files, %d reads, limit of 1024 open files, garbage collector held off" % READS),
        rule="behaviour = one bundle + one program, replayed once per mount mode (and per leaf size); the distinct TLC "
             "histories are counted once per replay; non-trivial = the tree has a nested entry and a multi-leaf file and "
             "the program forced a directory listing to be resumed or read across a leaf boundary; a replay stops after "
             "40 failing behaviours per shard")
    for k, v in sorted(ops.items()):
        ctx.notes["ops_" + k] = v
    return vlib.finish(ctx, "model_checking", {}, [
        "the mount is driven through its file system operation interface (jacobsa/fuse fuseutil.FileSystem, reached by the "
        "export hook (*ReadOnlyFS).VerifFileSystem()), not through the kernel: the kernel's own caching, path resolution "
        "and request splitting are not exercised",
        "single goroutine: operations are not concurrent",
        "object stores are the harness' in-memory stores (validated by C16), the consumable store is localfs on a scratch directory",
        "directory entries '.' and '..' would be accepted as extras; of the attributes only type and size are compared "
        "(directory sizes are not); entry inodes and the order of a listing are observed, not judged",
        "the mounting client constructs its bundle with the same leaf size as the uploader (datamon has one fixed leaf size)",
        "reads are cell-aligned under two cell-to-byte maps (uniform, and boundary: 1, leaf-2, 1 bytes per leaf), "
        "so offsets and lengths of k*leaf +/- 1 bytes occur; zero-length reads included",
        "the many-reads program runs under RLIMIT_NOFILE = 1024 (the usual default) with the Go garbage collector held off: "
        "a legal execution in which finalizers do not return leaked descriptors",
    ])
