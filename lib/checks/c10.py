"""C10 Squash keeps exactly the requested bundles, intact."""
import vlib
from checks import metacommon as mc


def run(ctx):
    vlib.build_harness(ctx)
    mc.mc_meta(ctx)
    n = 2000 if ctx.thorough else 250
    beh = mc.gen_meta(ctx, "beh.ndjson", n, 14, True, False, True, '{"label"}', maxbundles=7, labelw=5)
    cfgs = [["--leaf", "4096"] + (["--crc"] if ctx.seed % 2 else []), ["--leaf", "4096", "--list-conc", "1", "--final-download=false"]]
    if ctx.thorough:
        cfgs += [["--leaf", "64", "--batch", "2", "--crc"], ["--leaf", "4096", "--batch", "1"]]
    results = vlib.parallel(mc.replay_jobs(ctx, beh, cfgs), max_workers=4)
    # exhaustive scripted scenarios: 3 uploads (complete / interrupted) x label placements x squash options
    scripted = mc.gen_meta(ctx, "scripted.ndjson", 0, 12, True, False, True, '{"label"}', maxbundles=9, script="squash")
    if not ctx.thorough:
        # a seed-dependent third of the scenarios in the quick tier
        lines = open(scripted).read().splitlines()
        open(scripted, "w").write("\n".join(lines[ctx.seed % 3::3]) + "\n")
    results.append(vlib.replay_sharded(ctx, "meta", scripted, "scripted",
                                       ["--leaf", "65536", "--list-conc", "1", "--final-download=false", "--deep=false",
                                        "--seed", str(ctx.seed)], shards=14))
    return mc.finish(ctx, results,
                     "behaviour = random walk over uploads, uploads interrupted at every metadata write (leftovers older, "
                     "between and newer than the committed bundles), labels (semver: v1.2.3, 1.0.0; others: latest, a_b), "
                     "squash with retain-N in 1..3 and each retain-tags mode; kept set compared with Meta!KeepSet; every kept "
                     "bundle is downloaded at the end",
                     ["'most recent' is the byte order of bundle ids", "the fate of leftovers of interrupted uploads under "
                      "squash is left open (they may be removed or kept)", "only labels whose semver class is beyond dispute"])
