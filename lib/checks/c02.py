"""C02 Object keys are a deterministic BLAKE2b tree hash of the content.

TLC: Gen_Cafs histories of Puts of related contents into one blob store, with
KeyFunctional / FoundIffStoredBefore / WriteOnce checked on the specification.
Binding (A): the histories are replayed on pkg/cafs; returned keys, leaf keys,
the duplicate flag and the whole blob store are compared with the abstract keys
of Cafs.tla concretized by the tree layout; an independent implementation
(Python hashlib BLAKE2b tree mode) recomputes every returned key."""
import os

import vlib
import blake2_oracle
from checks.c01 import gen

MiB = 1 << 20


def run(ctx):
    vlib.build_harness(ctx)
    st = vlib.run_tlc(ctx, "MC_Cafs.tla", "MC_Cafs.cfg", workers=8, timeout=600)
    vlib.require_tlc_ok(st, "MC_Cafs")
    seed = ctx.seed
    num = 3000 if ctx.thorough else 400
    valued = gen(ctx, "Gen_Cafs_valued.cfg", {"Conc = {1, 2}": "Conc = {1, 2, 4, 16}"} if ctx.thorough else {},
                 "beh_valued.ndjson", simulate="num=%d" % num, depth=200)
    ident = gen(ctx, "Gen_Cafs_ident.cfg", {"MaxN = 7": "MaxN = 19"} if ctx.thorough else {}, "beh_ident.ndjson",
                simulate="num=1500" if ctx.thorough else None, depth=200 if ctx.thorough else None)
    keyfiles = []
    jobs = []

    def job(name, beh, args):
        kf = os.path.join(ctx.work, "keys_%s.ndjson" % name)
        keyfiles.append(kf)
        return lambda: vlib.replay(ctx, "cafs", beh, name, args + ["--seed", str(seed), "--reads", "none", "--keys-out", kf])

    lams = [64, 65, 96, 4096]
    jobs.append(job("v64", valued, ["--leaf", "64", "--style", "writeto"]))
    jobs.append(job("v%d" % lams[seed % 4], valued, ["--leaf", str(lams[seed % 4]), "--style", "read", "--crc", "--boundary"]))
    jobs.append(job("i64", ident, ["--leaf", "64", "--style", "read"]))
    jobs.append(job("i4096", ident, ["--leaf", "4096", "--style", "writeto", "--crc"]))
    # the way the source delivers its bytes must not matter: the last data arrive together with io.EOF
    # a store that cannot refresh objects (Touch fails): keys, duplicate flag and stored blobs are the same
    jobs.append(job("vtouch", valued, ["--leaf", "64", "--style", "writeto", "--touch-fails", "--sched=false"]))
    jobs.append(job("ieof", ident, ["--leaf", "64", "--style", "readeof"]))
    jobs.append(job("veof", valued, ["--leaf", str(lams[(seed + 1) % 4]), "--style", "readeof", "--boundary"]))
    if ctx.thorough:
        for lam in (65, 96, 4096, 65536):
            jobs.append(job("vt%d" % lam, valued, ["--leaf", str(lam), "--style", "writeto", "--boundary"]))
        sample = os.path.join(ctx.work, "beh_sample.ndjson")
        lines = open(valued).read().splitlines()
        open(sample, "w").write("\n".join(lines[:10]) + "\n")
        for lam in (MiB, MiB + 1, 2 * MiB, 5 * MiB):
            jobs.append(job("big%d" % lam, sample, ["--leaf", str(lam), "--style", "read"]))
    # histories of puts interleaved with deletes / clears of one store holding several objects (CafsStore.tla, the
    # specification of extension X02): the duplicate flag and the stored blobs after every step, with the leaf sizes
    # 64, 1024 and 96 used in turn by the store instances of ONE process (nothing may leak from one to the next)
    from checks import x02
    hist = x02.gen(ctx, "Gen_CafsStore.cfg", "beh_store.ndjson", {})
    files, _ = x02.shard(ctx, hist, "store", 8 if ctx.thorough else 4)
    for i, f in enumerate(files):
        jobs.append(lambda i=i, f=f: vlib.replay(ctx, "cafsstore", f, "store_%d" % i,
                                                 ["--header", hist + ".hdr", "--design-out", os.path.join(ctx.work, "dz_%d.ndjson" % i),
                                                  "--seed", str(seed), "--leaf-cycle", "64,1024,96"]))
    results = vlib.parallel(jobs, max_workers=8)
    tot = vlib.account(ctx, results)
    # independent oracle
    checked = 0
    for kf in keyfiles:
        if os.path.exists(kf):
            n, bad = blake2_oracle.check_file(kf)
            checked += n
            vlib.judge(ctx, bad)
    if checked == 0:
        raise vlib.Infra("the independent hash oracle saw no key")
    ctx.notes.update(behaviours_replayed=tot["behaviours"], steps_compared=tot["steps"],
                     distinct_nontrivial=tot["nontrivial"], keys_recomputed_by_python_blake2=checked,
                     configs=[r["config"] for r in results],
                     rule="behaviour = history of up to 3 Puts (base content, its prefixes, a changed last leaf, the content "
                          "twice, empty, single cells) x chunking x concurrency x completion order, or one Put of identity "
                          "content; non-trivial = some content longer than a leaf")
    return vlib.finish(ctx, "model_checking", {}, [
        "the BLAKE2b primitive of Python hashlib is trusted; the tree layout (node offsets, last-node flags, root over the "
        "leaf digests) is the one Cafs.tla fixes",
        "equal abstract keys must map to equal concrete keys and different ones to different ones within a history",
    ])
