"""C14 Purging removes exactly the unreferenced old blobs, one job at a time."""
import os

import vlib
from vlib import Infra
from checks.c13 import gen_purge


def run(ctx):
    vlib.build_harness(ctx)
    if ctx.thorough:
        st = vlib.run_tlc(ctx, "MC_Purge.tla", "MC_Purge.cfg", workers=16, timeout=2400, heap="24g")
    else:
        st = vlib.run_tlc(ctx, "MC_Purge.tla", "MC_Purge_quick.cfg", workers=12, timeout=900)
    vlib.require_tlc_ok(st, "MC_Purge")
    cases = gen_purge(ctx, "exact.ndjson", sample_num=None if ctx.thorough else 160, exact_only=True)
    if not ctx.thorough:
        lines = open(cases).read().splitlines()[:110]
        # plus complete indexes of more than ten chunks extended by a resumed build (seed-dependent selection)
        late = [l for l in open(gen_purge(ctx, "late.ndjson", late=True)).read().splitlines() if '"incremental":true' in l]
        open(cases, "w").write("\n".join(lines + late[ctx.seed % 5::5][:14]) + "\n")
    results = [vlib.replay_sharded(ctx, "purge", cases, "exact", ["--seed", str(ctx.seed)] + (["--crc"] if ctx.seed % 2 else []),
                                   shards=14, timeout=6000)]
    # the purge lock: concurrent acquisitions, candidate linearization validated against ObjectStore!Put
    tr = os.path.join(ctx.work, "lock.ndjson")
    rs = os.path.join(ctx.work, "lock.json")
    vlib.run_vh(ctx, ["purgelock", "--out", tr, "--res", rs, "--rounds", "400" if ctx.thorough else "60"])
    r = vlib.load_result(ctx, rs)
    results.append(r)
    t = vlib.run_tlc(ctx, "ObjectStoreTrace.tla", "ObjectStoreTrace.cfg", workers=1, timeout=600, extra_files={"trace.ndjson": tr})
    if t["timed_out"] or t["position"] is None:
        raise Infra("lock trace validation did not run: " + t["out"][-1500:])
    pos, n = t["position"]
    if pos != n + 1:
        vlib.judge(ctx, [dict(sig="purgelock/trace-rejected", op="purgelock", step=pos,
                              got=open(tr).read().splitlines()[pos - 1:pos + 1])])
    # all interleavings of the store calls of 2-3 concurrent unforced PurgeLock calls (gate scheduler),
    # validated by CreateRepoTrace.tla: every call obeys ObjectStore.tla, exactly one acquisition succeeds
    for n in (2, 3):
        ltr = os.path.join(ctx.work, "lockrace%d.ndjson" % n)
        lrs = os.path.join(ctx.work, "lockrace%d.json" % n)
        vlib.run_vh(ctx, ["createrace", "--op", "lock", "--out", ltr, "--res", lrs, "--creators", str(n)])
        results.append(vlib.load_result(ctx, lrs))
        t2 = vlib.run_tlc(ctx, "CreateRepoTrace.tla", "CreateRepoTrace.cfg", workers=1, timeout=600, extra_files={"trace.ndjson": ltr})
        if t2["timed_out"] or t2["position"] is None:
            raise Infra("lock race validation did not run: " + t2["out"][-1500:])
        p2, n2 = t2["position"]
        if t2["violated"] or p2 != n2 + 1:
            vlib.judge(ctx, [dict(sig="purgelock/" + ("more-than-one-holder" if t2["violated"] else "trace-rejected"), op="purgelock",
                                  step=p2, got=open(ltr).read().splitlines()[max(0, p2 - 10):p2 + 1])])
    tot = vlib.account(ctx, results)
    ctx.notes.update(scenarios_replayed=tot["behaviours"], steps=tot["steps"], distinct_nontrivial=tot["nontrivial"],
                     rule="fault-free, crash-free scenarios of C13 (history x optional earlier, larger index x chunk size 1,2,3,7 x "
                          "upload in between): the chunk files read back must hold exactly the keys of the scanned bundles and the "
                          "blob store after delete-unused must be exactly the initial one minus the unreferenced old blobs; "
                          "lock: rounds of 2..5 concurrent PurgeLock, force, unlock, relock")
    return vlib.finish(ctx, "model_checking", {}, [
        "a blob updated exactly at the index time is left unconstrained (the driver keeps times distinct)",
        "lock linearization candidate: the successful acquisition first",
    ])
