"""C18 A mutable mount behaves like a file system and commits what it shows.

TLC: FuseRW.tla (POSIX tree, kernel lookup counts, abstract inode numbers; one
action per FUSE operation taking the observed outcome and inode number as
parameters; Allowed(op) = the admissible outcomes) is model-checked exhaustively
on a bounded model (MC_FuseRW: every operation the kernel may send, every
admissible outcome, every admissible inode number out of a pool as small as the
number of nodes): tree well-formed, lookup counts never negative, live entries
have distinct inodes, a held entry pins its parent, every operation has an
admissible outcome, the commit operator names every linked file once.
Binding (A): Gen_FuseRW enumerates (BFS) every operation program within the
bound and samples (-simulate) longer programs; every step carries the class of
the operation, Allowed(op), the node an entry reply is about and the post tree.
The harness (vh fuserw) replays every program on the real mutable mount
(fuse.NewMutableFS on a scratch staging directory, operations through the
fuseutil.FileSystem interface, every behaviour in a child process) and compares
after every operation the outcome with Allowed, the inode number / type / size
of entry replies, the attributes of every inode the kernel holds, the content of
written files; at the end it looks every entry of the tree up, commits, downloads
the bundle and compares it with CommitOp.
"""
import os
import time

import vlib
from vlib import Infra

NAMES2 = 'Names = {"a", "b"}'
# programs of 0..k operations that Gen_FuseRW.cfg's BFS constants enumerate (regression guard)
BFS_EXPECTED = {2: 313, 3: 9913}


def _gen(ctx, name, defines, rand=None, seed=None, depth=None, timeout=900):
    beh = os.path.join(ctx.work, "beh_%s.ndjson" % name)
    d = dict(defines)
    d['"beh.ndjson"'] = '"%s"' % beh
    if rand:
        d["Rand = FALSE"] = "Rand = TRUE"
    g = vlib.run_tlc(ctx, "Gen_FuseRW.tla", "Gen_FuseRW.cfg", workers=1, timeout=timeout, heap="3g",
                     simulate=("num=%d" % rand) if rand else None, depth=depth, seed=seed, defines=d)
    if g["timed_out"]:
        raise Infra("Gen_FuseRW %s: TLC timed out" % name)
    if not g["ok"] or not os.path.exists(beh):
        raise Infra("Gen_FuseRW %s: no behaviours generated (violated=%s error=%s)\n%s" % (name, g["violated"], g["error"], g["out"][-2000:]))
    return beh


def _merge_distinct(paths, out):
    """Random walks may repeat a program: keep each distinct behaviour once."""
    seen, n = set(), 0
    with open(out, "w") as o:
        for p in paths:
            with open(p) as f:
                for line in f:
                    if line.strip() and line not in seen:
                        seen.add(line)
                        o.write(line)
                        n += 1
    return n


def _count(path):
    with open(path) as f:
        return sum(1 for line in f if line.strip())


def run(ctx):
    t = ctx.thorough
    bfs_ops = 3 if t else 2
    sim_ops, sim_num, sim_parts = (60, 5000, 8) if t else (20, 300, 1)
    sim_defs = {"MaxOps = 2": "MaxOps = %d" % sim_ops}
    if t:
        # longer programs: three names, three levels, larger files
        sim_defs.update({NAMES2: 'Names = {"a", "b", "c"}', "MaxDepth = 2": "MaxDepth = 3",
                         "Offs = {0, 1}": "Offs = {0, 1, 2, 3}", "Lens = {1, 2}": "Lens = {1, 2, 3}",
                         "Sizes = {0, 1, 3}": "Sizes = {0, 1, 2, 3, 5}"})
    # bounded models: quick 2 nodes / count 2 / 2 inode numbers; thorough (a) 3 nodes / count 1 / 3 inode numbers
    # and (b) 2 nodes / count 2 / 3 inode numbers / two write offsets
    mc_cfgs = [{"MaxNodes = 2": "MaxNodes = 3", "MaxCnt = 2": "MaxCnt = 1", "InodePool = {2, 3}": "InodePool = {2, 3, 4}"},
               {"Offs = {0}": "Offs = {0, 1}", "InodePool = {2, 3}": "InodePool = {2, 3, 4}"}] if t else [{}]

    def staggered(i, fn):
        def job():
            time.sleep(0.5 * i)
            return fn()
        return job

    def mc():
        for defs in mc_cfgs:
            st = vlib.run_tlc(ctx, "MC_FuseRW.tla", "MC_FuseRW.cfg", workers=8 if t else 4, timeout=1500 if t else 600,
                              coverage=False, defines=defs)
            vlib.require_tlc_ok(st, "MC_FuseRW")

    def sim(k):
        per = sim_num // sim_parts
        return _gen(ctx, "sim%d" % k, sim_defs, rand=per, seed=ctx.seed * 1000 + k, depth=sim_ops + 3, timeout=1200)

    # programs that begin by freeing inode numbers: entries are created, some unlinked and forgotten (two numbers wait
    # for re-use), then new entries are created - followed by random operations
    pre_defs = dict(sim_defs)
    pre_defs.update({NAMES2: 'Names = {"a", "b", "c"}', "MaxOps = %d" % sim_ops: "MaxOps = %d" % max(sim_ops, 16),
                     "PreludeId = 0": "PreludeId = 1"})
    pre_defs["MaxOps = 2"] = "MaxOps = %d" % max(sim_ops, 16)

    def presim():
        return _gen(ctx, "presim", pre_defs, rand=400 if t else 120, seed=ctx.seed * 1000 + 77, depth=max(sim_ops, 16) + 3, timeout=1200)

    jobs = [lambda: vlib.build_harness(ctx), staggered(0, mc), staggered(1, presim),
            staggered(1, lambda: _gen(ctx, "bfs", {"MaxOps = 2": "MaxOps = %d" % bfs_ops}, timeout=900))]
    jobs += [staggered(2 + k, lambda k=k: sim(k)) for k in range(sim_parts)]
    out = vlib.parallel(jobs, max_workers=len(jobs))
    bfs, sims = out[3], [out[2]] + list(out[4:])

    n_bfs = _count(bfs)
    if n_bfs != BFS_EXPECTED[bfs_ops]:
        raise Infra("Gen_FuseRW enumerated %d programs of <= %d operations, expected %d" % (n_bfs, bfs_ops, BFS_EXPECTED[bfs_ops]))
    rbeh = os.path.join(ctx.work, "beh_sim.ndjson")
    n_sim = _merge_distinct(sims, rbeh)
    if n_sim == 0:
        raise Infra("Gen_FuseRW -simulate produced nothing")

    args = ["--seed", str(ctx.seed), "--beh-timeout", "120" if t else "60"]
    # the small exhaustive set is cheap: never stop early there, so that on a broken tree
    # every signature is reported with its first (BFS order) failing program, for every seed
    bfs_args = args + (["--max-bad", str(n_bfs + 1)] if not t else [])
    shards = 16 if t else 8
    r_bfs, r_sim = vlib.parallel([
        lambda: vlib.replay_sharded(ctx, "fuserw", bfs, "bfs", bfs_args, shards=shards),
        lambda: vlib.replay_sharded(ctx, "fuserw", rbeh, "sim", args, shards=shards),
    ], max_workers=2)
    results = [r_bfs, r_sim]

    tot = vlib.account(ctx, results)
    ctx.notes.update(
        behaviours_replayed=tot["behaviours"], steps_compared=tot["steps"], distinct_nontrivial=tot["nontrivial"],
        exhaustive_programs=n_bfs, random_programs=n_sim,
        bounds=dict(exhaustive=dict(ops="0..%d" % bfs_ops, names="a b", offsets="0..1", lengths="1..2", sizes="0 1 3 (cells)"),
                    random=dict(ops="3..%d (uniform)" % sim_ops, num=sim_num, seed=ctx.seed,
                                names="a b c" if t else "a b", depth=3 if t else 2),
                    content="cells of 1, 7 or 2049 bytes (by behaviour), leaf size 4096: files of up to 4 leaves"),
        rule="behaviour = one operation program followed by a lookup of every entry, a commit and a download (BFS: every "
             "program of 0..k operations the kernel may send over two names below the nodes it holds, each once; random: "
             "distinct TLC random walks, operation kinds drawn from a weighted bag); after every operation: outcome in "
             "Allowed, inode number / type / size of entry replies, attributes of every held inode, content of written files; "
             "non-trivial = the program contains an operation other than the creation of a new entry or a write/truncate of a "
             "linked file (i.e. a failing call, a lookup, rename, unlink, rmdir, forget or an operation on an orphan); a "
             "behaviour stops at its first mismatch other than a wrong errno of a failing call; on a broken tree a replay stops "
             "after 40 failing behaviours per shard (not in the quick exhaustive set)")
    return vlib.finish(ctx, "model_checking", {}, [
        "no kernel: the operations are called on the fuseutil.FileSystem of fuse.NewMutableFS (verif export hook "
        "VerifFileSystem), one at a time from one goroutine; the generator plays the kernel's part of the protocol: parents "
        "are inodes the kernel holds and that are still linked, forget(N) only with N <= the lookup count, the last "
        "reference of a directory is only dropped when none of its entries is held, no rename of a directory into its "
        "own subtree",
        "operations the Linux VFS would answer itself but that the fuseops contract leaves to the file system (create / "
        "mkdir of an existing name: osxfuse does not check) or that POSIX defines unambiguously (a file as parent, "
        "type mismatches of unlink / rmdir / rename, rename of an entry onto itself) ARE sent; their classes are "
        "recognisable in the signatures (*-existing, *-under-file, unlink-dir, rmdir-file, rename-same, rename-*-over-*)",
        "where POSIX leaves latitude Allowed is a set: unlink of a directory in {EISDIR, EPERM}; rename over a non-empty "
        "directory in {ENOTEMPTY, EEXIST} (plus EISDIR if the source is a file); several error conditions at once: any of them",
        "inode numbers are learnt from replies and dropped when the kernel's count returns to 0; the specification only "
        "requires: distinct from the number held for every other LIVE entry, unchanged while held. Re-use of the number "
        "of a held orphan is not judged",
        "ReadFile is only used with exactly the file size (short reads at EOF are outside the property); ReadDir is not used",
        "content: cell j of a file written by step w holds PRF(seed, w, offset) != 0, holes and extensions are zero bytes",
        "stores are the harness' in-memory object stores (checked against ObjectStore.tla in C16); staging and download "
        "directories are real localfs directories",
    ])
