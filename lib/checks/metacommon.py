"""Shared driver of the metadata-layer checks (C04-C10): Meta.tla bounded model,
Gen_Meta behaviours with a property-specific operation mix, replay on pkg/core."""
import os

import vlib
from vlib import Infra

ALL_OPS = '{"label", "delete", "diff", "download", "keys", "update"}'


def gen_meta(ctx, name, num, maxlen, crash, repoops, squash, ops, bulks="{0}", maxbundles=5, seed=None, labelw=2, script=None):
    beh = os.path.join(ctx.work, name)
    d = {
        '"meta_beh.ndjson"': '"%s"' % beh,
        "MaxLen = 10": "MaxLen = %d" % maxlen,
        "MaxBundles = 5": "MaxBundles = %d" % maxbundles,
        "WithCrash = TRUE": "WithCrash = %s" % ("TRUE" if crash else "FALSE"),
        "WithRepoOps = TRUE": "WithRepoOps = %s" % ("TRUE" if repoops else "FALSE"),
        "WithSquash = TRUE": "WithSquash = %s" % ("TRUE" if squash else "FALSE"),
        "Ops = " + ALL_OPS: "Ops = " + ops,
        "Bulks = {0}": "Bulks = " + bulks,
        "LabelW = 2": "LabelW = %d" % labelw,
    }
    if script:
        d['Script = "none"'] = 'Script = "%s"' % script
        g = vlib.run_tlc(ctx, "Gen_Meta.tla", "Gen_Meta.cfg", workers=1, timeout=1800, defines=d)   # BFS: exhaustive
    else:
        g = vlib.run_tlc(ctx, "Gen_Meta.tla", "Gen_Meta.cfg", workers=1, timeout=1800, defines=d,
                         simulate="num=%d" % num, depth=maxlen + 3, seed=seed)
    if g["timed_out"] or not os.path.exists(beh):
        raise Infra("Gen_Meta failed:\n" + g["out"][-2000:])
    if g["violated"]:
        raise Infra("Gen_Meta: invariant %s violated on the specification" % g["violated"])
    return beh


def mc_meta(ctx):
    if ctx.thorough:
        st = vlib.run_tlc(ctx, "MC_Meta.tla", "MC_Meta.cfg", workers=16, timeout=3000, heap="16g",
                          defines={"MaxBundles = 2": "MaxBundles = 3", "Bulks = {0, 2}": "Bulks = {0}"})
    else:
        st = vlib.run_tlc(ctx, "MC_Meta.tla", "MC_Meta.cfg", workers=12, timeout=900)
    vlib.require_tlc_ok(st, "MC_Meta")
    return st


def replay_jobs(ctx, beh, configs, prefix="m"):
    jobs = []
    for i, args in enumerate(configs):
        jobs.append(lambda i=i, args=args: vlib.replay(
            ctx, "meta", beh, "%s%d" % (prefix, i), args + ["--seed", str(ctx.seed), "--work", ctx.sub("w%s%d" % (prefix, i))]))
    return jobs


def finish(ctx, results, rule, assumptions, extra=None):
    tot = vlib.account(ctx, results)
    ctx.notes.update(behaviours_replayed=tot["behaviours"], steps_compared=tot["steps"],
                     distinct_nontrivial=tot["nontrivial"], configs=[r["config"] for r in results], rule=rule)
    if extra:
        ctx.notes.update(extra)
    return vlib.finish(ctx, "model_checking", {}, assumptions + [
        "stores are the in-memory object store checked against ObjectStore.tla; bundle ids are chosen by the harness "
        "(bundle-id preserving upload path) so that their byte order is the specification's id order",
        "after every mutating step the real metadata stores are parsed back (model.GetArchivePathComponents, descriptors "
        "unmarshalled) and compared with the specification's post-state; listings, latest and labels are compared with the "
        "specification's operators",
    ])
