"""C03 Reads never return corrupted content as if it were valid.

TLC (Gen_CafsCorrupt): enumerates object length x damaged blob x kind of damage
and computes, from the layout of Cafs.tla, which blobs are damaged and which
outcomes each read may have (error / exact bytes). Binding (A), fault
enumeration: the object is stored by pkg/cafs, the damage is applied to the
blob store, and every read style is run with hash verification on."""
import os

import vlib
from vlib import Infra


def run(ctx):
    vlib.build_harness(ctx)
    cases = os.path.join(ctx.work, "corrupt.ndjson")
    lens = "{1, 2, 3, 4, 6, 7, 9, 10, 18, 19}" if ctx.thorough else "{1, 2, 3, 4, 6, 7}"
    g = vlib.run_tlc(ctx, "Gen_CafsCorrupt.tla", "Gen_CafsCorrupt.cfg", workers=1, timeout=900,
                     defines={'"corrupt.ndjson"': '"%s"' % cases, "Lens = {1, 2, 3, 4, 6, 7}": "Lens = " + lens,
                              "MaxN = 7": "MaxN = 19"})
    vlib.require_tlc_ok(g, "Gen_CafsCorrupt")
    if not os.path.exists(cases):
        raise Infra("no corruption cases generated")
    seed = ctx.seed
    jobs = []

    def job(name, args):
        return lambda: vlib.replay(ctx, "cafs-corrupt", cases, name, args + ["--seed", str(seed)])

    jobs.append(job("a", ["--leaf", "64", "--download", "--work", ctx.sub("dl")]))
    jobs.append(job("b", ["--leaf", "4096", "--crc"] if seed % 2 else ["--leaf", "96", "--crc", "--boundary"]))
    # downloads into a destination that retries failed writes (what localfs.New and the CLI use by default): every
    # such download of a damaged object takes the 30 s of the retry policy, so two (quick) / six (thorough) cases only
    import json
    picked, seen = [], set()
    for ln in open(cases):
        c = json.loads(ln)
        if c.get("damaged") and not c.get("isroot") and c.get("kind") in ("flip", "truncate", "swap") \
                and (c["kind"], len(c["content"]) > 3) not in seen:
            seen.add((c["kind"], len(c["content"]) > 3))
            picked.append(ln)
    picked = picked[(seed % 2):][:6 if ctx.thorough else 2]
    rcases = os.path.join(ctx.work, "corrupt_retry.ndjson")
    open(rcases, "w").write("".join(picked))
    if picked:
        jobs.append(lambda: vlib.replay(ctx, "cafs-corrupt", rcases, "retrydest",
                                        ["--leaf", "64", "--retry-dest", "--work", ctx.sub("dlr"), "--seed", str(seed)]))
    if ctx.thorough:
        jobs.append(job("all64", ["--leaf", "64", "--all-bytes"]))
        jobs.append(job("all65", ["--leaf", "65", "--all-bytes", "--boundary", "--crc"]))
        jobs.append(job("c4096", ["--leaf", "4096"]))
        jobs.append(job("c1m", ["--leaf", str(1 << 20), "--crc"]))
    results = vlib.parallel(jobs, max_workers=6)
    tot = vlib.account(ctx, results)
    ctx.notes.update(cases_replayed=tot["behaviours"], outcomes_judged=tot["steps"], distinct_nontrivial=tot["nontrivial"],
                     exhaustive=True, configs=[r["config"] for r in results],
                     rule="case = (content length, target blob: root or leaf i, damage kind + argument) enumerated "
                          "exhaustively by TLC; each case expands into byte-level variants (first/last byte of the cell, "
                          "every byte in the thorough tier); non-trivial = the damage changes the stored bytes; every case "
                          "is observed through Read (2 buffer sizes), ReadAll, WriteTo(io.Writer), WriteTo(io.WriterAt), "
                          "ReadAt(whole), the ranged ReadAt table, a second ReadAt of the damaged leaf by a reader instance that fetched it "
                          "before the damage and has a one-leaf cache (error or the original bytes), a full bundle download "
                          "(core.Publish) at concurrency 1 and 4, and for a few cases a download into a destination store that "
                          "retries failed writes")
    return vlib.finish(ctx, "model_checking", {}, [
        "damage happens at rest: reads use a fresh cafs instance (no cached leaf keys of the undamaged root)",
        "a ranged read that touches no damaged leaf may succeed or fail; every other read of a damaged object must fail",
        "bundle download: a one-file bundle is uploaded with pkg/core, the blob is damaged, core.Publish into a local "
        "directory must fail or produce the exact file (a partial file left behind by a FAILED download is not judged)",
    ])
