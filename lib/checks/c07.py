"""C07 Listings are complete, exact and ordered.

TLC: Listing.tla - the paginated scan (pages -> basename filter -> mergeKeys)
equals the reference listing for every content within bounds and every page
size (MC_Listing); ObjectStore.tla PagingExact for the store contract.
Binding (A): (1) TLC-enumerated contents of splits/diamonds (markers interleaved
with file lists and split keys, produced with real CreateSplit / Upload runs,
crashed runs and cancels) listed with page sizes 1,2,3,4,7,1024 x concurrency
1,4; (2) TLC-generated histories of repos/bundles/labels (with leftovers of
crashed uploads) listed after every step with small page sizes, in strict
order, through both the slice and the streaming Apply variants."""
import os

import vlib
from vlib import Infra
from checks import metacommon as mc


def run(ctx):
    vlib.build_harness(ctx)
    st = vlib.run_tlc(ctx, "MC_Listing.tla", "MC_Listing.cfg", workers=8, timeout=1800,
                      defines={"MaxObjs = 3": "MaxObjs = 4", "MaxOther = 2": "MaxOther = 3"} if ctx.thorough else None)
    vlib.require_tlc_ok(st, "MC_Listing")
    asis = vlib.run_tlc(ctx, "MC_Listing.tla", "MC_Listing_asis.cfg", workers=1, timeout=300)
    ctx.notes["unrepaired_scan_model"] = "differs from the reference (as recorded)" if asis["violated"] else "equals the reference?!"
    cases = os.path.join(ctx.work, "listing.ndjson")
    g = vlib.run_tlc(ctx, "Gen_Listing.tla", "Gen_Listing.cfg", workers=1, timeout=900,
                     defines={'"listing.ndjson"': '"%s"' % cases})
    vlib.require_tlc_ok(g, "Gen_Listing")
    results = [vlib.replay_sharded(ctx, "listing", cases, "lst", ["--seed", str(ctx.seed)] + (["--crc"] if ctx.seed % 2 else []),
                                   shards=12)]
    n = 1500 if ctx.thorough else 160
    beh = mc.gen_meta(ctx, "beh.ndjson", n, 14, True, True, False, '{"label", "delete"}', labelw=6, maxbundles=7)
    cfgs = [["--leaf", "65536", "--strict-order", "--apply", "--batch", str(b), "--list-conc", str(c), "--final-download=false",
             "--deep=false"] for b, c in ([(1, 1), (2, 4), (3, 0), (3, 2)] if not ctx.thorough else [(1, 1), (1, 32), (2, 4), (3, 0), (3, 2), (5, 2), (5, 3), (7, 1)])]
    results += vlib.parallel(mc.replay_jobs(ctx, beh, cfgs), max_workers=6)
    if True:
        # many objects: pages of the default size are crossed
        many = os.path.join(ctx.work, "many.json")
        vlib.run_vh(ctx, ["listing-many", "--out", many, "--work", ctx.sub("many"), "--n", "1030"], timeout=3000)
        results.append(vlib.load_result(ctx, many))
    tot = vlib.account(ctx, results)
    ctx.notes.update(cases_replayed=tot["behaviours"], listings_compared=tot["steps"], distinct_nontrivial=tot["nontrivial"],
                     rule="case = content of a diamond's splits (per split: 0-2 file lists of earlier runs, running or done) or of "
                          "a repository's diamonds (per diamond: 0-2 stub splits, initialized or canceled), enumerated "
                          "exhaustively by TLC, listed with 6 page sizes x 2 concurrency levels; plus random-walk histories of "
                          "repos / bundles / labels listed after every step; non-trivial = at least two objects")
    return vlib.finish(ctx, "model_checking", {}, [
        "order: bundles by id, labels by name (the documented key order), repositories in name order or key order (they "
        "differ only for prefix-related names containing characters below '/'); diamonds and splits: completeness and "
        "exactness only (their documented order is by start time per page)",
    ])
