"""C05 Bundle diff and in-place update are exact."""
import vlib
from checks import metacommon as mc


def run(ctx):
    vlib.build_harness(ctx)
    mc.mc_meta(ctx)
    n = 1500 if ctx.thorough else 200
    beh = mc.gen_meta(ctx, "beh.ndjson", n, 12, False, True, False, '{"diff", "update"}', maxbundles=6)
    cfgs = [["--leaf", "64", "--conc", "4", "--deep=false", "--final-download=false", "--stash"]]
    if ctx.thorough:
        cfgs += [["--leaf", "4096", "--conc", "1", "--crc", "--deep=false", "--final-download=false", "--stash"]]
    # scripted: a file replaced by a directory of the same name (deletions must be applied before additions),
    # with one download/upload worker so that the order of the update's steps is the order of its diff
    swap = mc.gen_meta(ctx, "swap.ndjson", 0, 12, False, True, False, '{"diff", "update"}', maxbundles=4, script="swap")
    results = vlib.parallel(mc.replay_jobs(ctx, beh, cfgs) +
                            mc.replay_jobs(ctx, swap, [["--leaf", "64", "--conc", "1", "--deep=false", "--final-download=false"]],
                                           prefix="swap"), max_workers=4)
    return mc.finish(ctx, results,
                     "behaviour = random uploads of trees over a shared path pool (identical, disjoint, changed content, "
                     "empty) followed by diff(a,b) compared with Meta!DiffOp and update(a->b) compared with a fresh download "
                     "of b (files and .datamon metadata), also starting from a local copy of a taken before delete-files rewrote "
                     "it; plus one scripted history in which a file becomes a directory (one worker); non-trivial = at least 3 "
                     "mutating steps",
                     ["diff is by content key: same path with same content is not reported"])
