"""C22 The write-range tracker records exactly the written ranges.

TLC: Tracker.tla bounded model (bitmap of written offsets; the result operators
ModifiedOp / ContigBound are sound and maximal in every reachable state, the
start/end marker representation the code uses encodes the bitmap exactly,
writes commute, are idempotent and modify exactly their own range).
Binding (A): TLC enumerates (BFS) every write sequence within the bound and
samples (-simulate) longer sequences over a larger range; every step carries
ModifiedOp and ContigBound for every probe offset. The harness performs the
writes on the real tracker (pkg/filetracker trackWrite, through the verif
export hook) and after every write asks getRangeToRead for every offset
0..N+1 and lengths {1, 2, N, 2N+7}:
    modified == ModifiedOp(off)   and   1 <= contiguous <= min(len, ContigBound(off)).
Thorough tier only: TrackerAsIs.tla, a transcription of the code's marker
algorithm, is model-checked against the property (a prediction, never a verdict).
Self-test: the same behaviours are first replayed on an independent interval-list
tracker inside the harness; any disagreement there is an infrastructure error.
"""
import os
import time

import vlib
from vlib import Infra


def _gen(ctx, name, maxoff, maxlen, maxw, rand, num=None, seed=None):
    beh = os.path.join(ctx.work, "beh_%s.ndjson" % name)
    defines = {"MaxOff = 4": "MaxOff = %d" % maxoff, "MaxLen = 3": "MaxLen = %d" % maxlen,
               "MaxW = 3": "MaxW = %d" % maxw, '"beh.ndjson"': '"%s"' % beh}
    if rand:
        defines["Rand = FALSE"] = "Rand = TRUE"
    g = vlib.run_tlc(ctx, "Gen_Tracker.tla", "Gen_Tracker.cfg", workers=1, timeout=1500,
                     simulate=("num=%d" % num) if rand else None, depth=maxw + 2, seed=seed, defines=defines)
    if g["timed_out"]:
        raise Infra("Gen_Tracker %s: TLC timed out" % name)
    if not g["ok"] or not os.path.exists(beh):
        raise Infra("Gen_Tracker %s: no behaviours generated (error=%s)\n%s" % (name, g["error"], g["out"][-2000:]))
    return beh


def _count(path):
    n = 0
    with open(path) as f:
        for line in f:
            if line.strip():
                n += 1
    return n


def _dedupe(path):
    """Random walks may repeat a sequence: keep each distinct behaviour once."""
    seen, out = set(), []
    with open(path) as f:
        for line in f:
            if line.strip() and line not in seen:
                seen.add(line)
                out.append(line)
    with open(path, "w") as f:
        f.writelines(out)
    return len(out)


def _replay(ctx, beh, name, shards, extra=()):
    """Replay on the harness' reference tracker first (a disagreement there is a
    defect of the generated expectations or of the comparison: exit 2), then on
    the real tracker."""
    def go(impl):
        tag = "%s_%s" % (name, impl)
        if shards > 1:
            return vlib.replay_sharded(ctx, "tracker", beh, tag, ["--impl", impl] + list(extra), shards=shards, workarg=False)
        return vlib.replay(ctx, "tracker", beh, tag, ["--impl", impl] + list(extra))
    ref = go("reference")
    if ref["mismatches"] or ref["sig_counts"]:
        raise Infra("reference tracker disagrees with Tracker.tla expectations (%s): %s" % (name, ref["sig_counts"]))
    return ref, go("real")


def run(ctx):
    # bounds: writes at 0..maxoff of length 1..maxlen, maxw writes (and, through
    # the step-by-step comparison, every shorter sequence: they are prefixes)
    maxoff, maxlen, maxw = (6, 4, 4) if ctx.thorough else (4, 3, 3)
    roff, rlen, rw = 32, 9, 8                      # random part: offsets 0..40
    rnum = 20000 if ctx.thorough else 300

    # The harness build, the model-checking run and the two generation runs are
    # independent: run them side by side. (run_tlc numbers its scratch directories
    # with a plain counter: the starts are staggered.)
    def staggered(i, fn):
        def job():
            time.sleep(0.5 * i)
            return fn()
        return job

    def mc():
        # 1. the specification itself
        st = vlib.run_tlc(ctx, "MC_Tracker.tla", "MC_Tracker.cfg", workers=4, timeout=900, coverage=ctx.thorough,
                          defines={"MaxOff = 4": "MaxOff = %d" % maxoff, "MaxLen = 3": "MaxLen = %d" % maxlen})
        vlib.require_tlc_ok(st, "MC_Tracker")

    _, _, beh, rbeh = vlib.parallel([
        lambda: vlib.build_harness(ctx),
        staggered(0, mc),
        staggered(1, lambda: _gen(ctx, "bfs", maxoff, maxlen, maxw, rand=False)),
        staggered(2, lambda: _gen(ctx, "rand", roff, rlen, rw, rand=True, num=rnum, seed=ctx.seed)),
    ], max_workers=4)

    # 2. every write sequence within the bound, replayed on the real tracker
    results = []
    expected = ((maxoff + 1) * maxlen) ** maxw
    n_bfs = _count(beh)
    if n_bfs != expected:
        raise Infra("Gen_Tracker enumerated %d behaviours, expected %d" % (n_bfs, expected))
    # the small exhaustive set is cheap: never stop early there, so that on a broken
    # tree every signature is reported with its first (BFS order) failing sequence
    ref, real = _replay(ctx, beh, "bfs", 16 if ctx.thorough else 1, [] if ctx.thorough else ["--max-bad", str(n_bfs + 1)])
    results.append(real)
    selftest = ref["behaviours"]

    # 3. random longer sequences over a larger range
    n_rand = _dedupe(rbeh)
    if n_rand == 0:
        raise Infra("Gen_Tracker -simulate produced nothing")
    ref, real = _replay(ctx, rbeh, "rand", 8 if ctx.thorough else 1)
    results.append(real)
    selftest += ref["behaviours"]

    # 3b. the same sequences under other refinements of "offset": an abstract offset is a run of `scale` bytes starting
    # at `base` (ranges straddling 2^8, 2^16, 2^32: offsets whose keys differ in more than their last byte)
    refinements = [(250, 3), (65530, 7), ((1 << 32) - 9, 5)] if not ctx.thorough else [(250, 3), (65530, 7), ((1 << 32) - 9, 5), (254, 1)]
    for k, (b, sc) in enumerate(refinements):
        src = rbeh if (ctx.thorough or k == 0) else beh
        ref, real = _replay(ctx, src, "ref%d" % k, 8 if ctx.thorough else 1, ["--base", str(b), "--scale", str(sc)])
        results.append(real)
        selftest += ref["behaviours"]

    # 4. as-is transcription of the code's algorithm (prediction only, never a verdict)
    if ctx.thorough:
        a = vlib.run_tlc(ctx, "TrackerAsIs.tla", "MC_TrackerAsIs.cfg", workers=1, timeout=600)
        if a["timed_out"] or not (a["ok"] or a["violated"] == "AsIsAgrees"):
            raise Infra("TrackerAsIs: TLC failed (error=%s)\n%s" % (a["error"], a["out"][-2000:]))
        ctx.notes["asis_counterexamples"] = 1 if a["violated"] else 0
        ctx.notes["asis_model"] = ("TrackerAsIs.tla (transcription of trackWrite/getRangeToRead) violates AsIsAgrees: "
                                   "predicts a failing write sequence" if a["violated"] else
                                   "TrackerAsIs.tla satisfies AsIsAgrees within the bound")

    tot = vlib.account(ctx, results)
    probes = 0
    for r in results:
        probes += int((r.get("extra") or {}).get("probes", 0))
    shorter = sum(((maxoff + 1) * maxlen) ** k for k in range(1, maxw))
    ctx.notes.update(
        behaviours_replayed=tot["behaviours"], steps_compared=tot["steps"], distinct_nontrivial=tot["nontrivial"],
        reference_selftest_behaviours=selftest, exhaustive_sequences=n_bfs, exhaustive_shorter_prefixes_covered=shorter, random_sequences=n_rand,
        bounds=dict(exhaustive=dict(writes=maxw, off="0..%d" % maxoff, len="1..%d" % maxlen),
                    random=dict(writes=rw, off="0..%d" % roff, len="1..%d" % rlen, num=rnum, seed=ctx.seed)),
        rule="behaviour = one write sequence (BFS: every sequence of exactly maxw writes, each distinct; every shorter "
             "sequence is a prefix and is compared step by step; random: distinct TLC random walks); after every write "
             "every offset 0..N+1 is probed with lengths {1, 2, N, 2N+7}; non-trivial = at least one write overlaps or "
             "touches (is adjacent to) data written earlier in the sequence, i.e. exercises marker merging/deletion; "
             "on a broken tree a replay stops after 40 failing behaviours (per shard; not in the quick exhaustive set)")
    if probes:
        ctx.notes["probes_compared"] = probes
    return vlib.finish(ctx, "model_checking", {}, [
        "the tracker is driven through the verif export hook (VerifNewTracker / VerifTrackWrite / VerifRangeToRead), "
        "which calls trackWrite / getRangeToRead unchanged; TFile.ReadAt/WriteAt are stubs in the code and are not exercised",
        "single goroutine: writes and probes are not concurrent",
        "a contiguous length shorter than the distance to the next boundary is accepted (the caller loops); "
        "zero, more than asked for, or crossing a modified/unmodified boundary is not",
        "write lengths are >= 1 (zero-length writes are outside the property's quantification)",
    ])
