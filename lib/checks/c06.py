"""C06 Bundles become visible atomically and are never altered afterwards."""
import vlib
from checks import metacommon as mc


def run(ctx):
    vlib.build_harness(ctx)
    mc.mc_meta(ctx)
    n = 1500 if ctx.thorough else 200
    beh = mc.gen_meta(ctx, "beh.ndjson", n, 12, True, False, False, '{"label", "delete", "download"}')
    big = mc.gen_meta(ctx, "big.ndjson", 30 if ctx.thorough else 4, 6, True, False, False, '{"label"}',
                      bulks="{1001, 2001}" if ctx.thorough else "{1001}", maxbundles=2, seed=ctx.seed + 3)
    cfgs = [["--leaf", "4096", "--conc", "4"] + (["--crc"] if ctx.seed % 2 else []),
            ["--leaf", "64", "--conc", "2", "--batch", "1", "--final-download=false"]]
    if ctx.thorough:
        cfgs += [["--leaf", "4096", "--conc", "1", "--crc", "--batch", "2"], ["--leaf", "64", "--conc", "20", "--batch", "3"]]
    jobs = mc.replay_jobs(ctx, beh, cfgs) + mc.replay_jobs(ctx, big, [["--leaf", "64", "--conc", "8"]], prefix="big")
    results = vlib.parallel(jobs, max_workers=8)
    return mc.finish(ctx, results,
                     "behaviour = random walk over uploads, uploads crashed before/after each metadata write (no index "
                     "file / j index files / everything but the descriptor / descriptor landed), labels, bundle deletes; "
                     "after every step: list, latest, labels, entries of every listed bundle, full state projection; at the "
                     "end every visible bundle is downloaded; non-trivial = at least 3 mutating steps",
                     ["crash = fail-stop of one client: the k-th metadata write is the last thing that happens (or just "
                      "does not happen), every later store call of that client fails"])
