"""C06 Bundles become visible atomically and are never altered afterwards."""
import vlib
from checks import metacommon as mc


def run(ctx):
    vlib.build_harness(ctx)
    mc.mc_meta(ctx)
    n = 1500 if ctx.thorough else 200
    beh = mc.gen_meta(ctx, "beh.ndjson", n, 12, True, False, False, '{"label", "delete", "download"}')
    big = mc.gen_meta(ctx, "big.ndjson", 30 if ctx.thorough else 4, 6, True, False, False, '{"label"}',
                      bulks="{1001, 2001}" if ctx.thorough else "{1001}", maxbundles=2, seed=ctx.seed + 3)
    cfgs = [["--leaf", "4096", "--conc", "4"] + (["--crc"] if ctx.seed % 2 else []),
            ["--leaf", "64", "--conc", "2", "--batch", "1", "--final-download=false"]]
    if ctx.thorough:
        cfgs += [["--leaf", "4096", "--conc", "1", "--crc", "--batch", "2"], ["--leaf", "64", "--conc", "20", "--batch", "3"]]
    jobs = mc.replay_jobs(ctx, beh, cfgs) + mc.replay_jobs(ctx, big, [["--leaf", "64", "--conc", "8"]], prefix="big")
    results = vlib.parallel(jobs, max_workers=8)
    # diamond commits publish bundles too: a commit crashed at each of its writes (before / after), a commit whose
    # index-file write fails (1 and exactly 1000 entries), commits listing with small pages - every store call
    # validated by DiamondTrace.tla (a descriptor only after its file lists, ...)
    import json
    import os
    tr = os.path.join(ctx.work, "commit.ndjson")
    rs = os.path.join(ctx.work, "commit.json")
    vlib.run_vh(ctx, ["diamond", "--out", tr, "--res", rs, "--work", ctx.sub("dia"), "--seed", str(ctx.seed),
                      "--labels", "sequential,commit-crash-retry,commit-index-write-fault,commit-small-pages,split-crash-rerun"]
                + (["--crc"] if ctx.seed % 2 else []), timeout=3000)
    r = json.load(open(rs))
    t = vlib.run_tlc(ctx, "DiamondTrace.tla", "DiamondTrace.cfg", workers=1, timeout=1200, extra_files={"trace.ndjson": tr})
    if t["timed_out"] or t["position"] is None:
        raise vlib.Infra("DiamondTrace did not run:\n" + t["out"][-2000:])
    pos, total = t["position"]
    if pos != total + 1:
        lines = open(tr).read().splitlines()
        scen = "?"
        for ln in lines[:pos][::-1]:
            if '"op":"reset"' in ln:
                scen = json.loads(ln)["scenario"]
                break
        ev = json.loads(lines[pos - 1]) if pos - 1 < len(lines) else {}
        vlib.judge(ctx, [dict(sig="commit/trace-rejected/%s/%s-%s" % (scen, ev.get("op"), ev.get("kind", ev.get("role", ""))), op="trace",
                              step=pos, detail="store call of a diamond commit not allowed by DiamondTrace.tla in scenario " + scen,
                              got=lines[max(0, pos - 15):pos])])
    ctx.traces_validated += r["behaviours"]
    ctx.notes["diamond_commit_scenarios_validated"] = r["behaviours"]
    return mc.finish(ctx, results,
                     "behaviour = random walk over uploads, uploads crashed before/after each metadata write (no index "
                     "file / j index files / everything but the descriptor / descriptor landed), labels, bundle deletes; "
                     "after every step: list, latest, labels, entries of every listed bundle, full state projection; at the "
                     "end every visible bundle is downloaded; non-trivial = at least 3 mutating steps",
                     ["crash = fail-stop of one client: the k-th metadata write is the last thing that happens (or just "
                      "does not happen), every later store call of that client fails"])
