"""X01 (extension, not a listed property): contexts are created once, read back
unchanged and listed exactly, sorted.

TLC: Context.tla bounded model (OnlyValidStored, CreateOnce, CreateLocal).
Binding (A): TLC-sampled walks of create / get / list steps (prefix-related names,
more than one listing page of 16, invalid descriptors, re-creations) replayed on
pkg/context.CreateContext / GetContext and core.ListContexts over the in-memory object
store and over localfs; every result compared with the specification's.
"""
import os

import vlib
from vlib import Infra


def run(ctx):
    vlib.build_harness(ctx)
    st = vlib.run_tlc(ctx, "MC_Context.tla", "MC_Context.cfg", workers=4, timeout=600)
    vlib.require_tlc_ok(st, "MC_Context")
    num, maxlen = (3000, 60) if ctx.thorough else (300, 40)
    beh = os.path.join(ctx.work, "beh.ndjson")
    g = vlib.run_tlc(ctx, "Gen_Context.tla", "Gen_Context.cfg", workers=1, simulate="num=%d" % num, depth=maxlen + 2,
                     timeout=900, seed=ctx.seed, defines={"MaxLen = 40": "MaxLen = %d" % maxlen, '"beh.ndjson"': '"%s"' % beh})
    if not os.path.exists(beh):
        raise Infra("no behaviours generated:\n" + g["out"][-2000:])
    results = []
    for backend in ("model", "localfs"):
        out = os.path.join(ctx.work, "res_%s.json" % backend)
        vlib.run_vh(ctx, ["contexts", "--in", beh, "--out", out, "--backend", backend, "--work", ctx.sub("fs")])
        r = vlib.load_result(ctx, out)
        vlib.judge_result(ctx, r)
        results.append(r)
        ctx.traces_validated += r["behaviours"]
    ctx.notes.update(behaviours_replayed=sum(r["behaviours"] for r in results), steps_compared=sum(r["steps"] for r in results),
                     distinct_nontrivial=sum(r["distinct_nontrivial"] for r in results),
                     rule="behaviour = TLC random walk over create (valid and invalid descriptors, 30 names incl. prefix-related "
                          "and the empty name) / get / list; non-trivial = more than 16 contexts exist (second listing page)")
    return vlib.finish(ctx, "model_checking", {}, [
        "context names are plain names (no '/'); the configuration store behaves like the object store of C16"])
