"""C09 Repository operations affect exactly their own repository."""
import vlib
from checks import metacommon as mc


def run(ctx):
    vlib.build_harness(ctx)
    mc.mc_meta(ctx)
    n = 1500 if ctx.thorough else 200
    beh = mc.gen_meta(ctx, "beh.ndjson", n, 14, False, True, False, '{"label", "download"}')
    big = mc.gen_meta(ctx, "big.ndjson", 30 if ctx.thorough else 4, 8, False, True, False, '{"label"}',
                      bulks="{1001}", maxbundles=2, seed=ctx.seed + 5)
    # delete-files over bundles of two index files (scripted: the same tree in two bundles and in a neighbour repository)
    delf = mc.gen_meta(ctx, "delfiles.ndjson", 0, 8, False, True, False, '{"label"}', bulks="{1001}", maxbundles=3,
                       script="delfiles-all" if ctx.thorough else "delfiles")
    cfgs = [["--leaf", "64"] + (["--crc"] if ctx.seed % 2 else [])]
    if ctx.thorough:
        cfgs += [["--leaf", "4096", "--crc", "--batch", "2"]]
    jobs = mc.replay_jobs(ctx, beh, cfgs) + mc.replay_jobs(ctx, big, [["--leaf", "64", "--conc", "8"]], prefix="big") + \
        mc.replay_jobs(ctx, delf, [["--leaf", "64", "--conc", "1"], ["--leaf", "64", "--conc", "8"]], prefix="delf")
    results = vlib.parallel(jobs, max_workers=8)
    # concurrent creators of one repository: every interleaving of their store calls (gate scheduler),
    # each trace validated call by call against ObjectStore.tla with ExactlyOneWinner (CreateRepoTrace.tla)
    import os
    schedules = 0
    for n in ([2, 3, 4] if ctx.thorough else [2, 3]):
        tr = os.path.join(ctx.work, "create%d.ndjson" % n)
        rs = os.path.join(ctx.work, "create%d.json" % n)
        vlib.run_vh(ctx, ["createrace", "--out", tr, "--res", rs, "--creators", str(n)] + (["--crc"] if ctx.seed % 2 else []))
        r = vlib.load_result(ctx, rs)
        schedules += r["behaviours"]
        t = vlib.run_tlc(ctx, "CreateRepoTrace.tla", "CreateRepoTrace.cfg", workers=1, timeout=600, extra_files={"trace.ndjson": tr})
        if t["timed_out"] or t["position"] is None:
            raise vlib.Infra("CreateRepoTrace did not run: " + t["out"][-1500:])
        pos, total = t["position"]
        if t["violated"] or pos != total + 1:
            lines = open(tr).read().splitlines()
            lo = max(0, pos - 12)
            vlib.judge(ctx, [dict(sig="createrepo/" + ("more-than-one-winner" if t["violated"] else "trace-rejected"),
                                  op="createrepo", step=pos, detail="%d concurrent creators; events up to the rejected one" % n,
                                  got=lines[lo:pos + 1])])
        ctx.traces_validated += r["behaviours"]
    ctx.notes["creator_schedules_validated"] = schedules
    return mc.finish(ctx, results,
                     "behaviour = random walk over createrepo (incl. existing names), uploads with overlapping content into "
                     "prefix-related repositories, labels, delete-repo, rename-repo, delete-files (also on bundles of 1001 "
                     "files, two index files); the full projection of both metadata stores is compared after every step, so "
                     "any effect on another repository is a mismatch; every remaining bundle is downloaded at the end",
                     ["leftovers of interrupted uploads are outside this check (no crashes here)"])
