"""C13 Purging never deletes data that a committed bundle needs.

TLC: Purge.tla (uploads with deduplication, deletions, index build in chunks
with crash/resume and transient chunk-write faults, delete-unused by the
index + age rule): NoNeededBlobDeleted, IndexCoversOld, ChunksDisjoint hold for
the repaired design (RefreshOnDedup); the design without refresh is shown to
violate NoNeededBlobDeleted (record of the defect).
Binding (A/C): TLC-enumerated scenarios (history, chunk size, crash after k
stored chunks + resume, transient faults on chunk writes / attribute reads /
deletes / listing pages, uploads between build and delete-unused, an earlier
index) run on the real PurgeBuildReverseIndex / PurgeDeleteUnused; afterwards
every committed bundle is downloaded and compared byte for byte."""
import os

import vlib
from vlib import Infra


def gen_purge(ctx, name, sample_num=None, exact_only=False, late=False):
    out = os.path.join(ctx.work, name)
    d = {'"purge.ndjson"': '"%s"' % out}
    if late:
        d["Late = FALSE"] = "Late = TRUE"
    if exact_only:
        d["ExactOnly = FALSE"] = "ExactOnly = TRUE"
    if sample_num:
        d["Sample = FALSE"] = "Sample = TRUE"
        g = vlib.run_tlc(ctx, "Gen_Purge.tla", "Gen_Purge.cfg", workers=1, timeout=1800, defines=d,
                         simulate="num=%d" % sample_num, depth=3)
    else:
        g = vlib.run_tlc(ctx, "Gen_Purge.tla", "Gen_Purge.cfg", workers=1, timeout=1800, defines=d)
    if g["timed_out"] or not os.path.exists(out):
        raise Infra("Gen_Purge failed:\n" + g["out"][-2000:])
    if exact_only:
        lines = [l for l in open(out).read().splitlines() if '"exact":true' in l]
        open(out, "w").write("\n".join(lines) + "\n")
    return out


def mc_purge(ctx):
    bound = "clock <= 5" if ctx.thorough else "clock <= 4"
    # the bound lives in MC_Purge.tla: substitute through a copy of the cfg CONSTRAINT name is fixed, so patch the module text
    st = vlib.run_tlc(ctx, "MC_Purge.tla", "MC_Purge.cfg", workers=16, timeout=2400, heap="24g",
                      defines=None if ctx.thorough else {"ChunkSizes = {1, 2}": "ChunkSizes = {1}"})
    vlib.require_tlc_ok(st, "MC_Purge")
    return st


def run(ctx):
    vlib.build_harness(ctx)
    if ctx.thorough:
        mc_purge(ctx)
    else:
        st = vlib.run_tlc(ctx, "MC_Purge.tla", "MC_Purge_quick.cfg", workers=12, timeout=900)
        vlib.require_tlc_ok(st, "MC_Purge")
    asis = vlib.run_tlc(ctx, "MC_Purge.tla", "MC_Purge_asis.cfg", workers=8, timeout=600)
    ctx.notes["design_without_refresh_on_dedup"] = ("violates NoNeededBlobDeleted (upload, delete, build, re-upload, delete-unused)"
                                                    if asis["violated"] == "NoNeededBlobDeleted" else "unexpected: %s" % asis["violated"])
    if ctx.thorough:
        cases = gen_purge(ctx, "purge.ndjson")
        shards = 16
    else:
        cases = gen_purge(ctx, "purge.ndjson", sample_num=130)
        # plus scenarios where an index of more than ten chunks is interrupted late and resumed (seed-dependent selection)
        late = [l for l in open(gen_purge(ctx, "late.ndjson", late=True)).read().splitlines() if '"crash":99' not in l]
        pick = late[ctx.seed % 7::7][:14]
        open(cases, "a").write("\n".join(pick) + "\n")
        shards = 14
        # the same kind of scenario with a file of more than 1024 leaves in the large bundle (root blob > 64 KiB)
        bigcases = os.path.join(ctx.work, "bigfile.ndjson")
        open(bigcases, "w").write("\n".join(late[(ctx.seed + 3) % 7::7][:6]) + "\n")
    results = [vlib.replay_sharded(ctx, "purge", cases, "purge", ["--seed", str(ctx.seed)] + (["--crc"] if ctx.seed % 2 else []),
                                   shards=shards, timeout=6000)]
    if not ctx.thorough:
        results.append(vlib.replay_sharded(ctx, "purge", bigcases, "bigfile", ["--seed", str(ctx.seed), "--big-file"], shards=6, timeout=6000))
    tot = vlib.account(ctx, results)
    ctx.notes.update(scenarios_replayed=tot["behaviours"], steps=tot["steps"], distinct_nontrivial=tot["nontrivial"],
                     rule="scenario = (history of <= 3 uploads/deletions over 4 bundles sharing deduplicated blobs, incl. re-use of "
                          "orphaned blobs; optional earlier index; chunk size 1,2,3,7; crash once 0,1,2 chunks are stored + resumed "
                          "build; transient fault on the 1st/2nd chunk write after its keys were read; upload between build and "
                          "delete-unused; transient fault on the n-th attribute read / delete / listing page of delete-unused); "
                          "enumerated exhaustively by TLC in the thorough tier, sampled in the quick tier; verdict only when both "
                          "commands reported success; non-trivial = at least two history steps or an upload in between")
    return vlib.finish(ctx, "model_checking", {}, [
        "crash = fail-stop of the build client before a metadata write; faults are transient single failures of one store call",
        "the uploader's periodic timer never fires (5 min): chunks are written by the final flush, which is the same code path",
        "protected = bundles committed before the index was started or uploaded after it",
    ])
