"""C15 Concurrent uploads, downloads and commits do not interfere.

(1) TLC on MC_Concurrent.tla (Concurrent.tla + one program per client, one
    step = one store call): 3 clients, every assignment of {upload, split
    upload + commit of an own diamond, download of a pre-existing bundle,
    label set} on disjoint names and overlapping content: store discipline,
    NoFailure, EachResultAsAlone, AnyOrder (final state = the operations run
    alone in every order), progress.  A clash configuration (two uploads
    sharing one bundle id) must be refuted: teeth.
(2) Binding (B): seeded random workloads of 2..16 real operations started
    behind a barrier over shared in-memory stores (harness "concurrent"):
    every operation succeeds, every result is read back and compared with
    what the operation produces alone, the stores are projected and compared
    with the union of the per-operation states, and the recorded store-call
    trace is validated event by event by ConcurrentTrace.tla.
(3) The same workloads from a harness built with -race: a data race report
    with a datamon frame is a violation.  THIS CONJUNCT IS DECIDED BY THE GO
    RACE DETECTOR, not by TLA+."""
import glob
import json
import os
import re
import threading
import time

import vlib
from vlib import Infra

SIZES = [2, 5, 9, 16, 12, 16, 3, 7, 14, 4, 10, 16, 6, 8, 13, 11, 15, 2]


def workloads(path, seed, n, tag, bulk_every):
    """One line per workload: everything else is derived from the seed inside the harness."""
    with open(path, "w") as f:
        for i in range(n):
            f.write(json.dumps(dict(w=i, seed=seed * 100000 + tag * 10000 + i, n=SIZES[i % len(SIZES)],
                                    bulk=bool(bulk_every and i % bulk_every == 1))) + "\n")
    return path


RACE_HDR = "WARNING: DATA RACE"


def parse_races(text):
    """Returns [(signature, block)] for every race report. signature = race/<top datamon frame of the first stack>,
    falling back to the later stacks of the report; None when no stack has a datamon frame."""
    out = []
    for block in text.split("==================")[1:]:
        if RACE_HDR not in block:
            continue
        lines = block.splitlines()
        frames = []     # (stack number, function, file)
        stack = -1
        i = 0
        while i < len(lines):
            ln = lines[i]
            if re.match(r"^(Write|Read|Previous write|Previous read|Goroutine \d+ \(.*\) created) at", ln) or \
                    re.match(r"^(Atomic|Previous atomic)", ln):
                stack += 1
            elif ln.startswith("  ") and not ln.startswith("      ") and i + 1 < len(lines) and lines[i + 1].startswith("      "):
                frames.append((stack, ln.strip(), lines[i + 1].strip()))
                i += 1
            i += 1
        sig = None
        for _, fn, fl in frames:
            if fl.startswith("/repo/") or "github.com/oneconcern/datamon/" in fn:
                fn = re.sub(r"\(.*\)$", "", fn)              # drop the argument list
                fn = fn.replace("github.com/oneconcern/datamon/pkg/", "").replace("github.com/oneconcern/datamon/", "")
                fn = re.sub(r"\.func\d+(\.\d+)*$", "", fn)   # closures count for their function
                sig = "race/" + fn
                break
        out.append((sig, block.strip()))
    return out


def run(ctx):
    vlib.build_harness(ctx)
    race_err = []

    def build_race():
        try:
            vlib.build_harness(ctx, race=True)
        except Infra as e:
            race_err.append(e)
    timings = {}
    t_build = time.time()
    bt = threading.Thread(target=lambda: (build_race(), timings.__setitem__("race_build_s", round(time.time() - t_build, 1))))
    bt.start()

    # ---------------------------------------------------------------- (1) the model
    def mc():
        if ctx.thorough:
            a = vlib.run_tlc(ctx, "MC_Concurrent.tla", "MC_Concurrent.cfg", workers=8, timeout=2400, heap="8g", coverage=True,
                             defines={"Trees <- TreesOne": "Trees <- TreesSmall", "Order <- Order3": "Order <- OrderNone"})
            vlib.require_tlc_ok(a, "MC_Concurrent (two trees, every assignment)")
            vac = re.findall(r"^<(\w+) line [^>]* of module MC_Concurrent(?: \([\d ]+\))?>: \d+:0$", a["out"], re.M)
            ctx.notes["vacuous_actions"] = sorted(set(vac))
            b = vlib.run_tlc(ctx, "MC_Concurrent.tla", "MC_Concurrent.cfg", workers=8, timeout=2400, heap="8g",
                             defines={"Trees <- TreesOne": "Trees <- TreesBig", "PreSeq <- PreSmall": "PreSeq <- PreBig",
                                      "E = 1": "E = 2"})
            vlib.require_tlc_ok(b, "MC_Concurrent (three trees, E = 2)")
            c = vlib.run_tlc(ctx, "MC_Concurrent.tla", "MC_Concurrent.cfg", workers=8, timeout=2400, heap="8g",
                             defines={"E = 1": "E = 2", "Order <- Order3": "Order <- Order4",
                                      'Clients = {"c1", "c2", "c3"}': 'Clients = {"c1", "c2", "c3", "c4"}'})
            vlib.require_tlc_ok(c, "MC_Concurrent (four clients)")
        else:
            a = vlib.run_tlc(ctx, "MC_Concurrent.tla", "MC_Concurrent.cfg", workers=8, timeout=900)
            vlib.require_tlc_ok(a, "MC_Concurrent")
        t = vlib.run_tlc(ctx, "MC_Concurrent.tla", "MC_Concurrent_clash.cfg", workers=2, timeout=600)
        if t["timed_out"] or not t["violated"]:
            raise Infra("MC_Concurrent_clash: two uploads sharing a bundle id must violate the properties, got violated=%s error=%s"
                        % (t["violated"], t["error"]))
        ctx.notes["teeth_shared_bundle_id"] = "refuted as it must: %s" % t["violated"]

    # ---------------------------------------------------------------- (2)+(3) the real code
    crc = ["--crc"] if ctx.seed % 2 else []
    jobs = []   # (name, workload file, race?, GOMAXPROCS, extra args)
    if ctx.thorough:
        tag = 0
        for procs in (2, 16):
            for s in range(4):          # 4 x 30 workloads per GOMAXPROCS
                tag += 1
                jobs.append(("n%d_%d" % (procs, s), workloads(os.path.join(ctx.work, "wl_n%d_%d.ndjson" % (procs, s)), ctx.seed, 30, tag, 10),
                             False, procs, ["--leaves", "64,256,1024,1024,4096,4096", "--max-files", "9"]))
        for procs in (2, 16):
            for s in range(3):          # 3 x 10 workloads per GOMAXPROCS under the race detector
                tag += 1
                jobs.append(("r%d_%d" % (procs, s), workloads(os.path.join(ctx.work, "wl_r%d_%d.ndjson" % (procs, s)), ctx.seed, 10, tag, 0),
                             True, procs, ["--readback", "3", "--split-pct", "10"]))
    else:
        jobs.append(("n", workloads(os.path.join(ctx.work, "wl_n.ndjson"), ctx.seed, 6, 1, 6), False, 0, []))
        jobs.append(("r", workloads(os.path.join(ctx.work, "wl_r.ndjson"), ctx.seed, 6, 2, 0), True, 0, ["--readback", "3", "--split-pct", "10"]))

    races = []
    lock = threading.Lock()

    def drive(name, wl, race, procs, extra):
        if race:
            bt.join()
            if race_err:
                raise race_err[0]
        tr = os.path.join(ctx.work, "trace_%s.ndjson" % name)
        rs = os.path.join(ctx.work, "res_%s.json" % name)
        env = {}
        if procs:
            env["GOMAXPROCS"] = str(procs)
        if race:
            logp = os.path.join(ctx.work, "race_%s.log" % name)
            # exitcode=0: a report must not look like a crash of the child; the reports are read from the log files
            env["GORACE"] = "halt_on_error=0 exitcode=0 log_path=%s" % logp
        args = ["concurrent", "--in", wl, "--out", rs, "--trace", tr, "--work", ctx.sub("w_" + name),
                "--stall", "180" if race else "90"] + crc + extra
        t0 = time.time()
        p = vlib.run_vh(ctx, args, timeout=3300, race=race, env=env)
        timings["run_%s_s" % name] = round(time.time() - t0, 1)
        r = json.load(open(rs))
        r["config"] = "%s GOMAXPROCS=%s %s" % ("race" if race else "plain", procs or "default", " ".join(extra + crc))
        nrace = 0
        if race:
            text = p.stderr or ""
            for f in sorted(glob.glob(logp + ".*")):
                text += "\n" + open(f, errors="replace").read()
            found = parse_races(text)
            nrace = len(found)
            with lock:
                races.extend((sig, block, name) for sig, block in found)
        # the recorded store calls, event by event
        t = vlib.run_tlc(ctx, "ConcurrentTrace.tla", "ConcurrentTrace.cfg", workers=1, timeout=2400, heap="4g",
                         extra_files={"trace.ndjson": tr})
        if t["timed_out"] or t["position"] is None:
            raise Infra("ConcurrentTrace did not run (%s):\n%s" % (name, t["out"][-2000:]))
        pos, total = t["position"]
        lines = None
        rejected = re.findall(r'<<\s*"rejected",\s*(\d+),\s*"([^"]*)",\s*"([^"]*)",\s*"([^"]*)"\s*>>', t["out"])
        mism = []
        for at, wlabel, op, rule in rejected:
            lines = lines or open(tr).read().splitlines()
            at = int(at)
            mism.append(dict(sig="concurrent/trace/" + rule, op=op, step=at,
                             detail="workload %s (%s): event %d is not allowed by ConcurrentTrace.tla: %s" % (wlabel, r["config"], at, rule),
                             got=[ln[:600] for ln in lines[max(0, at - 12):at]]))
        if t["violated"]:
            lines = lines or open(tr).read().splitlines()
            mism.append(dict(sig="concurrent/trace/invariant/" + t["violated"], op="trace", step=pos,
                             detail="%s of Concurrent.tla is false in a state of the recorded execution (%s)" % (t["violated"], r["config"]),
                             got=[ln[:600] for ln in lines[max(0, pos - 12):pos]]))
        elif pos != total + 1:
            raise Infra("ConcurrentTrace stopped at %d of %d without a verdict (%s):\n%s" % (pos, total, name, t["out"][-1500:]))
        dev = re.findall(r'<<"deviations", (\d+)>>', t["out"])
        return r, mism, int(dev[-1]) if dev else 0, total, nrace

    # Phase 1: the model checker next to the plain workloads. Phase 2: the race-instrumented workloads -- measured: they
    # are several times slower while TLC model-checks next to them (quick tier: 26 s alone, 110-170 s side by side).
    mc_err = []
    mct = threading.Thread(target=lambda: mc_err.extend(_guard(mc)))
    mct.start()
    plain = [j for j in jobs if not j[2]]
    raced = [j for j in jobs if j[2]]
    outs = vlib.parallel([lambda j=j: drive(*j) for j in plain], max_workers=8)
    mct.join()
    if mc_err:
        raise mc_err[0]
    outs += vlib.parallel([lambda j=j: drive(*j) for j in raced], max_workers=6)
    jobs = plain + raced

    results = []
    deviations = events = 0
    per_cfg = {}
    for (r, mism, dev, total, nrace), j in zip(outs, jobs):
        ctx.results.append(r)
        results.append(r)
        for s in r.get("samples", [])[:1]:
            if len(ctx.samples) < 3:
                ctx.samples.append(s)
        vlib.judge(ctx, mism)
        deviations += dev
        events += total
        c = per_cfg.setdefault(r["config"], dict(workloads=0, operations=0, store_events=0, race_reports=0))
        c["workloads"] += r["behaviours"]
        c["operations"] += r.get("extra", {}).get("operations", 0)
        c["store_events"] += r.get("extra", {}).get("store_events", 0)
        c["race_reports"] += nrace
    tot = vlib.account(ctx, results)

    # ---------------------------------------------------------------- race reports
    unattributed = [b for sig, b, _ in races if sig is None]
    if unattributed:
        # no datamon frame in any stack: the harness itself (or a dependency driven by it) races -- not a verdict
        raise Infra("data race without a datamon frame (harness bug?):\n" + unattributed[0][:3000])
    seen = {}
    for sig, block, name in races:
        seen.setdefault(sig, []).append((name, block))
    for sig, lst in sorted(seen.items()):
        vlib.judge(ctx, [dict(sig=sig, op="race-detector", detail="%d report(s) of the Go race detector, first in run %s; "
                              "signature = top datamon frame of the first stack" % (len(lst), lst[0][0]), got=lst[0][1][:6000])])

    ops = {}
    for r in results:
        for k, v in r.get("extra", {}).items():
            if k.startswith("op_") or k in ("operations", "contents_stored_by_several_operations"):
                ops[k] = ops.get(k, 0) + v
    ctx.notes.update(
        workloads=tot["behaviours"], distinct_nontrivial=tot["nontrivial"], store_events_validated=events,
        deviations=deviations, operations=ops, configurations=per_cfg, timings=timings,
        race_reports=len(races), race_signatures=sorted(seen),
        race_detector="the conjunct 'no data race occurs' is decided by the Go race detector (harness built with -race, "
                      "GORACE=halt_on_error=0, reports read from log_path files), not by TLA+; a report is a violation with "
                      "signature race/<top datamon frame of the first stack>; a report without any datamon frame is exit 2",
        rule="workload = 2 pre-existing bundles + 2..16 operations (upload with caller-chosen or generated id / split upload "
             "into an own diamond + commit / download of a pre-existing bundle / label set on it) started together behind a "
             "barrier, own client control block each, trees of 1..6(9) files over 14 paths and 14 content words sharing whole "
             "files, leading leaves and single leaves (1/3 of the trees are copies of another operation's tree), file "
             "concurrency 1..20, leaf size 256..4096 (64 in thorough), seeded scheduling noise at store calls, some workloads "
             "with two operations of ~1000 files (two index files); non-trivial = at least two concurrent writers store a "
             "common file content")
    return vlib.finish(ctx, "model_checking", {}, [
        "one store call = one atomic step (object store semantics: C16); the in-memory stores linearize calls under one mutex, "
        "so store-level interleavings are real but there is no intra-call tearing",
        "names are disjoint by construction (own bundle id, own diamond, own label): two commits of the SAME diamond are C12's "
        "subject, not this one",
        "result-as-alone is judged against declarative operators (BundleAlone, PortionOK, AloneEffect), not against a second "
        "execution: timestamps and generated ids are not compared",
        "the race conjunct covers the schedules the Go runtime happened to produce for these seeds (GOMAXPROCS 2 and 16 in the "
        "thorough tier); the race detector has no false positives but misses races that did not occur",
    ])


def _guard(fn):
    try:
        fn()
        return []
    except Infra as e:
        return [e]
