"""Common plumbing of the verification checks: build the harness from /repo's
working tree, run TLC in scratch copies, match findings, write evidence."""
import hashlib
import json
import os
import re
import shutil
import subprocess
import sys
import time

VERIF = os.path.dirname(os.path.dirname(os.path.abspath(__file__)))
SPEC = os.path.join(VERIF, "spec")
HARNESS = os.path.join(VERIF, "harness")
REPO = os.environ.get("VERIF_REPO", "/repo")
TLA_CP = "/opt/veriftools/tla/tla2tools.jar:/opt/veriftools/tla/CommunityModules-deps.jar"

GOENV = dict(GOFLAGS="-mod=mod", GOPROXY="off", GOSUMDB="off", GOTOOLCHAIN="local")


class Infra(Exception):
    """The checker itself failed (exit 2); never a verdict about the code."""


class Ctx:
    def __init__(self, pid, tier, seed):
        self.pid = pid
        self.tier = tier
        self.seed = seed
        self.t0 = time.time()
        self.work = os.path.join(VERIF, ".work", "%s.%d" % (pid, os.getpid()))
        shutil.rmtree(self.work, ignore_errors=True)
        os.makedirs(self.work)
        self.vh = None
        self.tlc_runs = []          # dicts with stats per TLC run
        self.results = []           # harness result dicts
        self.violations = []        # (sig, mismatch)
        self.known = []             # (sig, what)
        self.traces_validated = 0
        self.samples = []
        self.notes = {}
        self.thorough = tier == "thorough"

    def cleanup(self):
        shutil.rmtree(self.work, ignore_errors=True)

    def sub(self, name):
        d = os.path.join(self.work, name)
        os.makedirs(d, exist_ok=True)
        return d


def log(*a):
    print(*a, flush=True)


def build_harness(ctx, race=False):
    """go build the harness against /repo's current working tree, hooks on."""
    env = dict(os.environ, **GOENV)
    try:
        # (atomic, and only when it differs: several checks may build side by side)
        src, dst = os.path.join(REPO, "go.sum"), os.path.join(HARNESS, "go.sum")
        if not os.path.exists(dst) or open(src, "rb").read() != open(dst, "rb").read():
            tmp = "%s.%d" % (dst, os.getpid())
            shutil.copyfile(src, tmp)
            os.replace(tmp, dst)
    except OSError:
        pass
    out = os.path.join(ctx.work, "vh-race" if race else "vh")
    cmd = ["go", "build", "-tags", "verif", "-o", out]
    if race:
        cmd.append("-race")
    cmd.append("./cmd/vh")
    modfile = None
    if REPO != "/repo":
        # scratch copy of the repository (mutant runs): temporary modfile
        modfile = os.path.join(ctx.work, "go.alt.mod")
        src = open(os.path.join(HARNESS, "go.mod")).read().replace("=> /repo", "=> " + REPO)
        open(modfile, "w").write(src)
        shutil.copyfile(os.path.join(HARNESS, "go.sum"), os.path.join(ctx.work, "go.alt.sum"))
        cmd[2:2] = ["-modfile", modfile]
    p = subprocess.run(cmd, cwd=HARNESS, env=env, stdout=subprocess.PIPE, stderr=subprocess.STDOUT, text=True)
    if p.returncode != 0:
        # A tree that does not compile is not a property violation.
        raise Infra("harness build failed:\n" + p.stdout[-4000:])
    if race:
        ctx.vh_race = out
    else:
        ctx.vh = out
    return out


def run_vh(ctx, args, timeout=3600, race=False, env=None, check=True):
    exe = ctx.vh_race if race else ctx.vh
    e = dict(os.environ, **GOENV)
    if env:
        e.update(env)
    try:
        p = subprocess.run([exe] + args, stdout=subprocess.PIPE, stderr=subprocess.PIPE, text=True, timeout=timeout, env=e,
                           cwd=ctx.work)
    except subprocess.TimeoutExpired:
        raise Infra("harness timed out: vh %s" % " ".join(args[:3]))
    if check and p.returncode != 0:
        raise Infra("harness failed (rc=%d): vh %s\n%s" % (p.returncode, " ".join(args), (p.stderr or p.stdout)[-3000:]))
    return p


def load_result(ctx, path):
    r = json.load(open(path))
    ctx.results.append(r)
    for s in r.get("samples", [])[:2]:
        if len(ctx.samples) < 4:
            ctx.samples.append(s)
    return r


import itertools
import threading
_tlc_counter = itertools.count(1)
_tlc_lock = threading.Lock()


def run_tlc(ctx, module, cfg, mode="bfs", workers=8, timeout=900, simulate=None, depth=None, extra_files=None,
            heap="6g", coverage=False, seed=None, defines=None, dfs=False):
    """Run TLC on a scratch copy of the spec directory. Returns a stats dict.
    simulate: "num=N" string for -simulate. extra_files: {name: path} copied in."""
    with _tlc_lock:
        n = next(_tlc_counter)
    d = ctx.sub("tlc%d" % n)
    for f in os.listdir(SPEC):
        if f.endswith(".tla") or f.endswith(".cfg"):
            shutil.copyfile(os.path.join(SPEC, f), os.path.join(d, f))
    for name, path in (extra_files or {}).items():
        if os.path.abspath(path) != os.path.join(d, name):
            shutil.copyfile(path, os.path.join(d, name))
    if defines:
        # textual substitution of cfg constants: {"MaxLen = 12": "MaxLen = 20"}
        cp = os.path.join(d, cfg)
        s = open(cp).read()
        for k, v in defines.items():
            if k not in s:
                raise Infra("cfg %s has no %r" % (cfg, k))
            s = s.replace(k, v)
        open(cp, "w").write(s)
    cmd = ["java", "-Xmx" + heap, "-Xss64m", "-XX:+UseParallelGC"]
    if dfs:
        cmd.append("-Dtlc2.tool.queue.IStateQueue=StateDeque")
    cmd += ["-cp", TLA_CP, "tlc2.TLC", "-workers", str(workers), "-metadir", os.path.join(d, "md"), "-config", cfg]
    if simulate:
        cmd += ["-simulate", simulate]
        if depth:
            cmd += ["-depth", str(depth)]
        cmd += ["-seed", str(seed if seed is not None else ctx.seed)]
    if coverage:
        cmd += ["-coverage", "1"]
    cmd.append(module)
    t0 = time.time()
    try:
        p = subprocess.run(cmd, cwd=d, stdout=subprocess.PIPE, stderr=subprocess.STDOUT, text=True, timeout=timeout)
        out, rc, timed_out = p.stdout, p.returncode, False
    except subprocess.TimeoutExpired as e:
        out, rc, timed_out = (e.stdout or b"").decode() if isinstance(e.stdout, bytes) else (e.stdout or ""), -1, True
        subprocess.run(["pkill", "-f", os.path.join(d, "md")])
    st = parse_tlc(out)
    st.update(module=module, cfg=cfg, rc=rc, timed_out=timed_out, wall_s=round(time.time() - t0, 1), dir=d, out=out,
              mode="simulate" if simulate else "bfs")
    ctx.tlc_runs.append(st)
    shutil.rmtree(os.path.join(d, "md"), ignore_errors=True)
    return st


def parse_tlc(out):
    st = dict(generated=0, distinct=0, depth=0, violated=None, error=None, position=None, ok=False)
    m = re.search(r"(\d[\d,]*) states generated, (\d[\d,]*) distinct states found", out)
    if m:
        st["generated"] = int(m.group(1).replace(",", ""))
        st["distinct"] = int(m.group(2).replace(",", ""))
    m = re.search(r"The number of states generated: (\d+)", out)
    if m:
        st["generated"] = int(m.group(1))
        st["distinct"] = st["distinct"] or int(m.group(1))
    m = re.search(r"depth of the complete state graph search is (\d+)", out)
    if m:
        st["depth"] = int(m.group(1))
    m = re.search(r"Invariant (\S+) is violated", out)
    if m:
        st["violated"] = m.group(1)
    m = re.search(r"Temporal properties were violated|Action property (\S+) is violated|property (\S+) is violated", out)
    if m and not st["violated"]:
        st["violated"] = m.group(1) or m.group(2) or "temporal"
    m = re.search(r"Error: (Postcondition .*? is false|.*)", out)
    if m:
        st["error"] = m.group(1)[:400]
    pos = re.findall(r'<<"trace-position", (\d+), "of", (\d+)>>', out)
    if pos:
        st["position"] = (int(pos[-1][0]), int(pos[-1][1]))
    st["ok"] = ("No error has been found" in out or "Finished in" in out and "Error" not in out) and not st["violated"] \
        and not st["error"]
    st["traces"] = 0
    m = re.search(r"(\d+) traces generated", out)
    if m:
        st["traces"] = int(m.group(1))
    return st


def require_tlc_ok(st, what):
    """A model-checking run on the specification itself must pass; if it does
    not, the specification (not the code) is wrong or TLC failed: exit 2."""
    if st["timed_out"]:
        raise Infra("%s: TLC timed out after %ss" % (what, st["wall_s"]))
    if not st["ok"]:
        raise Infra("%s: TLC did not succeed (violated=%s error=%s)\n%s" % (what, st["violated"], st["error"], st["out"][-2500:]))


# --------------------------------------------------------------------------
# findings

def load_known(pid):
    known, fixed = {}, {}
    p = os.path.join(VERIF, "known_findings.jsonl")
    if os.path.exists(p):
        for line in open(p):
            line = line.strip()
            if not line or line.startswith("#"):
                continue
            r = json.loads(line)
            if r.get("property") != pid:
                continue
            if r.get("status") == "known":
                known[r["sig"]] = r
            else:
                fixed[r["sig"]] = r
    return known, fixed


def sig_matches(sig, pattern):
    if pattern.endswith("*"):
        return sig.startswith(pattern[:-1])
    return sig == pattern


def judge(ctx, mismatches):
    """Split real-code mismatches into known findings and violations."""
    known, _ = load_known(ctx.pid)
    for m in mismatches:
        sig = m["sig"]
        hit = None
        for pat, rec in known.items():
            if sig_matches(sig, pat):
                hit = rec
                break
        if hit:
            ctx.known.append((sig, hit, m))
        else:
            ctx.violations.append((sig, m))


def judge_result(ctx, r):
    judge(ctx, r.get("mismatches", []))
    # signatures beyond the per-signature cap are in sig_counts only
    return r


def write_replay(ctx, sig, m):
    d = os.path.join(VERIF, "replays", ctx.pid) if REPO == "/repo" else os.path.join(VERIF, ".work", "alt-replays", ctx.pid)
    os.makedirs(d, exist_ok=True)
    h = hashlib.sha1((sig + json.dumps(m, sort_keys=True, default=str)).encode()).hexdigest()[:12]
    p = os.path.join(d, "%s.json" % h)
    json.dump(dict(property=ctx.pid, sig=sig, seed=ctx.seed, tier=ctx.tier, mismatch=m), open(p, "w"), indent=1, default=str)
    return p


def finish(ctx, level, coverage, assumptions):
    """Print verdict lines, write evidence, return the exit code."""
    seen = set()
    for sig, rec, m in ctx.known:
        if sig in seen:
            continue
        seen.add(sig)
        log("KNOWN-FINDING: property=%s %s [%s]" % (ctx.pid, rec.get("what", ""), sig))
    vseen = {}
    for sig, m in ctx.violations:
        if sig in vseen:
            continue
        vseen[sig] = write_replay(ctx, sig, m)
    for sig, path in vseen.items():
        log("VIOLATION property=%s replay=%s" % (ctx.pid, path))
        log("  signature: %s" % sig)
    cov = dict(coverage)
    states = sum(r["distinct"] for r in ctx.tlc_runs if r["mode"] == "bfs")
    trans = sum(r["generated"] for r in ctx.tlc_runs if r["mode"] == "bfs")
    if "states" not in cov:
        cov["states"] = states
    if "transitions" not in cov:
        cov["transitions"] = trans
    cov.setdefault("traces_validated_against_impl", ctx.traces_validated)
    samples = cov.get("samples") or ctx.samples
    cov["samples"] = [trim(s) for s in samples[:4]] or ["(none)"]
    cov["tlc_runs"] = [dict(module=r["module"], cfg=r["cfg"], mode=r["mode"], generated=r["generated"], distinct=r["distinct"],
                            depth=r["depth"], wall_s=r["wall_s"], traces=r.get("traces", 0)) for r in ctx.tlc_runs]
    cov["known_findings_seen"] = sorted(seen)
    cov["violation_signatures"] = sorted(vseen)
    cov.update(ctx.notes)
    ev = dict(property_id=ctx.pid, tier=ctx.tier, seed=ctx.seed, level=level, coverage=cov,
              assumptions=assumptions, wall_s=round(time.time() - ctx.t0, 1), violations=len(vseen))
    # extension checks (ids X..: behaviour beyond the listed properties) keep their evidence apart
    evdir = os.path.join(VERIF, "evidence", "extra") if ctx.pid.startswith("X") else os.path.join(VERIF, "evidence")
    if REPO != "/repo":
        # a run against a scratch copy (seeded changes, candidate fixes) never touches the evidence of /repo
        evdir = os.path.join(VERIF, ".work", "alt-evidence")
    os.makedirs(evdir, exist_ok=True)
    tmp = os.path.join(evdir, ".%s.json.tmp%d" % (ctx.pid, os.getpid()))
    json.dump(ev, open(tmp, "w"), indent=1, default=str)
    os.replace(tmp, os.path.join(evdir, "%s.json" % ctx.pid))
    log("%s %s: %s (wall %.0fs, states=%d, bound=%d, known=%d, violations=%d)" % (
        ctx.pid, ctx.tier, "FAIL" if vseen else "ok", time.time() - ctx.t0, cov["states"],
        cov["traces_validated_against_impl"], len(seen), len(vseen)))
    return 1 if vseen else 0


def trim(s, n=1500):
    t = json.dumps(s, default=str)
    if len(t) <= n:
        return s
    return t[:n] + "...(trimmed)"


def main(pid, fn):
    """Entry point used by every check module."""
    import argparse
    ap = argparse.ArgumentParser()
    ap.add_argument("--tier", default=os.environ.get("VERIF_TIER", "quick"))
    ap.add_argument("--seed", type=int, default=int(os.environ.get("VERIF_SEED", "1") or 1))
    ap.add_argument("--keep", action="store_true")
    a = ap.parse_args(sys.argv[2:])
    ctx = Ctx(pid, a.tier if a.tier in ("quick", "thorough") else "quick", a.seed)
    try:
        rc = fn(ctx)
    except Infra as e:
        log("INFRA-ERROR %s: %s" % (pid, e))
        rc = 2
    except subprocess.TimeoutExpired as e:
        log("INFRA-ERROR %s: timeout %s" % (pid, e))
        rc = 2
    finally:
        if not a.keep:
            ctx.cleanup()
    return rc


def parallel(jobs, max_workers=6):
    """Run callables concurrently; re-raise the first Infra."""
    from concurrent.futures import ThreadPoolExecutor
    with ThreadPoolExecutor(max_workers=max_workers) as ex:
        futs = [ex.submit(j) for j in jobs]
        return [f.result() for f in futs]


def replay(ctx, sub, beh, name, extra_args, timeout=7200):
    """Run a replay subcommand of the harness over a behaviour file and judge the result."""
    out = os.path.join(ctx.work, "res_%s.json" % name)
    run_vh(ctx, [sub, "--in", beh, "--out", out] + extra_args, timeout=timeout)
    r = load_result(ctx, out)
    r["config"] = " ".join(extra_args)
    return r


def account(ctx, results):
    """Judge a list of replay results; returns totals."""
    tot = dict(behaviours=0, steps=0, nontrivial=0)
    for r in results:
        judge_result(ctx, r)
        tot["behaviours"] += r["behaviours"]
        tot["steps"] += r["steps"]
        tot["nontrivial"] += r["distinct_nontrivial"]
    ctx.traces_validated += tot["behaviours"]
    return tot


def replay_sharded(ctx, sub, beh, name, extra_args, shards=8, timeout=7200, workarg=True):
    """Split a behaviour file round-robin into shards, replay them in parallel, merge the results."""
    lines = open(beh).read().splitlines()
    shards = max(1, min(shards, len(lines)))
    files = []
    for i in range(shards):
        p = os.path.join(ctx.work, "%s.shard%d.ndjson" % (name, i))
        open(p, "w").write("\n".join(lines[i::shards]) + "\n")
        files.append(p)

    def one(i):
        args = list(extra_args)
        if workarg:
            args += ["--work", ctx.sub("w_%s_%d" % (name, i))]
        out = os.path.join(ctx.work, "res_%s_%d.json" % (name, i))
        run_vh(ctx, [sub, "--in", files[i], "--out", out] + args, timeout=timeout)
        return json.load(open(out))
    parts = parallel([lambda i=i: one(i) for i in range(shards)], max_workers=shards)
    merged = dict(family=parts[0]["family"], behaviours=0, steps=0, distinct_nontrivial=0, mismatches=[], samples=[],
                  sig_counts={}, extra={}, config=" ".join(extra_args))
    for r in parts:
        merged["behaviours"] += r["behaviours"]
        merged["steps"] += r["steps"]
        merged["distinct_nontrivial"] += r["distinct_nontrivial"]
        merged["mismatches"] += r["mismatches"]
        merged["samples"] += r.get("samples", [])[:1]
        for k, v in r.get("sig_counts", {}).items():
            merged["sig_counts"][k] = merged["sig_counts"].get(k, 0) + v
    ctx.results.append(merged)
    for s in merged["samples"][:2]:
        if len(ctx.samples) < 4:
            ctx.samples.append(s)
    return merged
