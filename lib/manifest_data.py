HOOKS = dict(
    guard="verif",
    enable="go build -tags verif (the harness module /verif/harness replaces github.com/oneconcern/datamon with /repo)",
    baseline_off_cmd="bin/baseline_off.sh",
    source_commits=["79be83f"],
    add_only=True,
)
ENGINES = [
    dict(name="tlc+vh", path="bin/vcheck",
         serves_properties=[],
         kind_free_text="TLA+ specifications (spec/*.tla) model-checked with TLC; TLC-generated behaviours replayed on the real "
                        "packages and store-call traces recorded from the real packages validated against the trace "
                        "specifications by the Go harness (harness/, built against /repo's working tree with -tags verif)"),
]
NOTES = ("All checks: exit 0 = held on everything explored, 1 = VIOLATION lines, 2 = the checker itself failed "
         "(never a verdict). Known findings: known_findings.jsonl. Design: DESIGN.md.")
ALL = ["C%02d" % i for i in range(1, 23)]
CHECKS = [
    dict(id="C01",
         text="Cafs.tla (writer state machine: Write sizes, leaf buffer, concurrent flushes completing in any order, Flush "
              "assembling keys by index; layout and read operators) is model-checked; every behaviour TLC enumerates within the "
              "bound is replayed on pkg/cafs with the source chunking and the flush completion order forced, PutRes and the "
              "blob store compared with the specification, followed by the full read matrix (Read/ReadAt/WriteTo)",
         design_ref="§3 C01",
         note="Trusted: TLC, the refinement map cells->bytes, the in-memory object store (itself checked against "
              "ObjectStore.tla). Bounds: quick = all behaviours with <= 2 leaves+1 cell, 5 chunk sizes, concurrency 1-2, "
              "leaf sizes 64/65/96/4096; thorough adds 6 leaves, concurrency up to 16, leaf sizes up to 5 MiB (sampled)",
         technique="TLA+ model checking (TLC) + exhaustive replay of TLC-enumerated behaviours on pkg/cafs"),
    dict(id="C02",
         text="Histories of Puts generated from Gen_Cafs.tla (key functional in the content, duplicate flag, write-once blobs "
              "checked by TLC) are replayed on pkg/cafs; keys are compared with the abstract keys of the specification "
              "concretized by the tree layout and recomputed by an independent BLAKE2b tree implementation; instances with a key "
              "prefix sharing one backend keep their duplicate flag and blobs per namespace",
         design_ref="§3 C02",
         note="Trusted: Python hashlib BLAKE2b (primitive), TLC, refinement map. The layout (node offsets, last-node flag, root "
              "over leaf digests) comes from Cafs.tla",
         technique="TLA+ model checking (TLC) + replay of TLC-generated Put histories + independent hash oracle"),
    dict(id="C03",
         text="TLC enumerates (object length x damaged blob x damage kind) and derives from Cafs.tla the outcomes each read "
              "may have; each case is applied to the real blob store and observed through every read style of pkg/cafs (fresh readers, and "
              "a reader that fetched the leaf before the damage and lost it from its one-leaf cache) and through a bundle download "
              "(core.Publish; for a few cases into a destination store that retries failed writes)",
         design_ref="§3 C03",
         note="Trusted: TLC, refinement map; damage is applied at rest. A leaf still held in a reader's cache may be served "
              "unchanged; a partial file left behind by a FAILED download is not judged",
         technique="TLC-enumerated fault cases with specification-derived oracles, replayed on pkg/cafs"),
    dict(id="C04",
         text='Meta.tla (repos, bundles as index files + descriptor, labels; API operations as actions, results as operators) is model-checked exhaustively for small constants; TLC-generated histories of uploads (trees, explicit key lists), selective and single-file downloads by a client that knows only repository and id, and diffs are replayed on pkg/core; after every step the real stores are projected and compared with the specification, and every visible bundle is downloaded and compared byte for byte',
         design_ref="§3 C04",
         note='Trusted: TLC, the projection (real store -> abstract state), the in-memory object store (checked against ObjectStore.tla), harness-chosen KSUIDs. Bounds: 3 prefix-related repos, 13 paths incl. generated decoys, look-alikes of the reserved names and a dotted sibling, 4 contents, <= 5-7 bundles, histories of 12-14 steps (random walks); 1000/1001-file bundles in a separate small run',
         technique='TLA+ model checking (TLC) of Meta.tla + replay of TLC-generated API behaviours on pkg/core with state projection compare'),
    dict(id="C05",
         text='TLC-generated histories of uploads over a shared path pool (and delete-files rewrites) followed by diff and in-place update; diff compared with Meta!DiffOp, the updated directory - a fresh download or a copy taken before the bundle was rewritten - compared with a fresh download of the target (files and metadata); one scripted history replaces a file by a directory of the same name (one worker)',
         design_ref="§3 C05",
         note='Trusted: TLC, the projection (real store -> abstract state), the in-memory object store (checked against ObjectStore.tla), harness-chosen KSUIDs. Bounds: 3 prefix-related repos, 13 paths incl. generated decoys, look-alikes of the reserved names and a dotted sibling, 4 contents, <= 5-7 bundles, histories of 12-14 steps (random walks); 1000/1001-file bundles in a separate small run',
         technique='TLA+ model checking (TLC) of Meta.tla + replay of TLC-generated API behaviours on pkg/core with state projection compare'),
    dict(id="C06",
         text='Meta.tla with interrupted uploads (VisibleComplete, CommittedImmutable checked exhaustively by TLC); TLC-generated histories in which uploads crash before/after each metadata write (and single transient write faults, a second writer under a committed id, two uploads racing for one id) are replayed with the crash wrapper; after every step full and minimal listing, latest, labels, entries and the full store projection are compared with the specification; diamond commits (crash at every write, failed index write with 1 and exactly 1000 entries, small listing pages) are validated call by call by DiamondTrace.tla',
         design_ref="§3 C06",
         note='Trusted: TLC, the projection (real store -> abstract state), the in-memory object store (checked against ObjectStore.tla), harness-chosen KSUIDs. Bounds: 3 prefix-related repos, 13 paths incl. generated decoys, look-alikes of the reserved names and a dotted sibling, 4 contents, <= 5-7 bundles, histories of 12-14 steps (random walks); 1000/1001-file bundles in a separate small run. Crash = fail-stop of one client with atomic single-object writes',
         technique='TLA+ model checking (TLC) of Meta.tla + replay of TLC-generated API behaviours on pkg/core with state projection compare'),
    dict(id="C07",
         text="Listing.tla (pages -> basename filter -> mergeKeys) equals the reference listing for every content and page size within bounds (TLC, exhaustive); the same contents are built with real split runs / crashed runs / cancels and listed with 6 page sizes x 2 concurrency levels; TLC-generated histories of repos, bundles (with leftovers) and labels are listed after every step with page sizes 1-3 in strict order through slice and Apply variants; 1030 bundles/labels and a diamond with 350 splits cross the default page size",
         design_ref="§3 C07",
         note="Trusted: TLC, the projection, the in-memory object store (ListOp checked against ObjectStore.tla). Order: bundles by id, labels by name, repos name-or-key order; diamonds/splits completeness and exactness only",
         technique="TLA+ model checking (TLC) of the scan algorithm + replay of TLC-enumerated contents and TLC-generated histories on the listing API"),
    dict(id="C08",
         text='TLC-generated label histories (set, overwrite - also through a re-used or just resolved label object -, delete, bundle delete, repo delete/rename; LabelNames.tla: accepted names - documented alphabet and hostile ones - resolve, are listed once and under every prefix of theirs and only there) over prefix-related repositories replayed on pkg/core; get/list of every label after every step compared with Meta!GetLabelOp/ListLabelsOp; full projection shows that a label set changes nothing else',
         design_ref="§3 C08",
         note='Trusted: TLC, the projection (real store -> abstract state), the in-memory object store (checked against ObjectStore.tla), harness-chosen KSUIDs. Bounds: 3 prefix-related repos, 13 paths incl. generated decoys, look-alikes of the reserved names and a dotted sibling, 4 contents, <= 5-7 bundles, histories of 12-14 steps (random walks); 1000/1001-file bundles in a separate small run',
         technique='TLA+ model checking (TLC) of Meta.tla + replay of TLC-generated API behaviours on pkg/core with state projection compare'),
    dict(id="C09",
         text='TLC-generated histories with delete-repo, rename-repo and delete-files over prefix-related repositories sharing content; plus scripted delete-files scenarios over bundles of two index files ending with a rename of that repository; the complete projection of both metadata stores is compared with the specification after every step (frame conditions also model-checked: AtMostTwoReposTouched)',
         design_ref="§3 C09",
         note='Trusted: TLC, the projection (real store -> abstract state), the in-memory object store (checked against ObjectStore.tla), harness-chosen KSUIDs. Bounds: 3 prefix-related repos, 13 paths incl. generated decoys, look-alikes of the reserved names and a dotted sibling, 4 contents, <= 5-7 bundles, histories of 12-14 steps (random walks); 1000/1001-file bundles in a separate small run. Concurrent creators: all interleavings of the store calls of 2-3 (4) concurrent CreateRepo under the gate scheduler, traces validated by CreateRepoTrace.tla (ExactlyOneWinner)',
         technique='TLA+ model checking (TLC) of Meta.tla + replay of TLC-generated API behaviours on pkg/core with state projection compare'),
    dict(id="C10",
         text='Meta!KeepSet (model-checked: SquashKeepsLatest) against RepoSquash on TLC-generated histories with leftovers of uploads interrupted at every metadata write, semver / non-semver labels, retain-N 1..3 and every combination of the retain-tags options; kept bundles downloaded',
         design_ref="§3 C10",
         note='Trusted: TLC, the projection (real store -> abstract state), the in-memory object store (checked against ObjectStore.tla), harness-chosen KSUIDs. Bounds: 3 prefix-related repos, 13 paths incl. generated decoys, look-alikes of the reserved names and a dotted sibling, 4 contents, <= 5-7 bundles, histories of 12-14 steps (random walks); 1000/1001-file bundles in a separate small run',
         technique='TLA+ model checking (TLC) of Meta.tla + replay of TLC-generated API behaviours on pkg/core with state projection compare'),
    dict(id="C11",
         text="Merge.tla: declarative MergeOp (latest write wins, losing versions with different content kept under the uploading split, forbid fails iff two splits differ, ignore adds nothing) and the collect-then-resolve algorithm, checked by TLC for every enumerated input and every arrival order; each case is built with real CreateSplit/Split.Upload, re-timed, committed with the arrival order of the split file lists forced, and the committed entries compared with MergeOp",
         design_ref="§3 C11",
         note="Trusted: TLC, refinement of abstract contents, harness re-timing of stored file lists. Bounds: quick = exhaustive for <= 2 versions over 3 splits x 2 paths x 2 contents x 4 modes x all orders + 500 sampled up to 5 versions/3 contents; thorough = exhaustive <= 3 versions (14 736 cases) + 3 000 sampled over 8 splits, 4 paths, 3 contents",
         technique="TLA+ model checking (TLC) + replay of TLC-enumerated merge cases on Diamond.Commit with forced arrival order"),
    dict(id="C12",
         text="Diamond.tla (protocol at store-call granularity: split runs incl. reruns, committers with retry, canceler, crash anywhere) model-checked exhaustively; the real operations are driven by a gate scheduler through window and random interleavings of their store calls, crashes at every write, transient read and write faults (diamond / split state, split file lists, index files) and retries, and every recorded trace is validated event by event by DiamondTrace.tla (read results = spec state, create-if-absent discipline, operation results, content of committed bundles)",
         design_ref="§3 C12",
         note="Trusted: TLC, the event classifier (store key -> marker kind), gate scheduler. Known finding: AtMostOneBundle is violated by the protocol itself for concurrent commits / crash before diamond-done + retry (shown on the model and reproduced on the code); all other properties hold. Bounds: quick = 12-runner-free small model (84 k states) + 205 scenarios; thorough = 12.7 M-state model, repaired protocol checked, ~1 900 scenarios",
         technique="TLA+ model checking (TLC) of the protocol + TLC trace validation of gate-scheduled executions of the real code"),
    dict(id="C13",
         text="Purge.tla (deduplicated uploads, deletions, index build in chunks with crash/resume and transient faults, "
              "delete-unused by index + age) model-checked: NoNeededBlobDeleted holds for the repaired design and is shown "
              "violated without refresh-on-dedup; TLC-enumerated scenarios (history, earlier index, chunk size, crash after k "
              "stored chunks + resume, transient faults on chunk writes / attribute reads / deletes / listing pages, uploads in "
              "between) run on the real PurgeBuildReverseIndex / PurgeDeleteUnused, then every committed bundle is downloaded "
              "and compared byte for byte",
         design_ref="§3 C13",
         note="Trusted: TLC, crash/fault wrappers of the in-memory store, pebble KV in a scratch dir. Verdict only when both "
              "commands report success. Bounds: quick = 140 sampled scenarios + 1.6 M-state model; thorough = all 13 k+ scenarios, "
              "13 M-state model",
         technique="TLA+ model checking (TLC) + TLC-enumerated crash/fault scenarios replayed on the purge commands"),
    dict(id="C14",
         text="Fault-free, crash-free scenarios of Purge.tla enumerated by TLC: the index chunk files read back must hold "
              "exactly the keys (roots and leaves) of the scanned bundles, for chunk sizes 1,2,3,7 and with an earlier larger "
              "index present, and the blob store after delete-unused must be exactly the initial one minus the unreferenced "
              "old blobs; concurrent PurgeLock rounds validated against ObjectStore!Put by TLC",
         design_ref="§3 C14",
         note="Trusted: TLC, the abstract<->concrete key map of the fixture (3 files sharing a leaf). A blob updated exactly at "
              "the index time is unconstrained",
         technique="TLA+ model checking (TLC) + TLC-enumerated scenarios replayed on the purge commands + TLC trace validation of "
                   "the lock race"),
    dict(id="C20",
         text="Paths.tla defines the metadata path grammar as executable TLA+ operators over code-point sequences (Build, the "
              "strict parsers of the metadata / consumable / purge namespaces, GeneratedPath, the name alphabets; index values "
              "as digit strings up to 2^64-1). TLC checks ParseInvertsBuild, NoCrossKindCollision, PrefixIsolation, "
              "ReservedAreGenerated and ValidNamesNeverContainSeparators on the abstract domain (every name up to a length "
              "over one representative per character class, KSUID tokens and extreme literals). Gen_Paths then emits every "
              "object, path mutation, reserved-location candidate, name and descriptor population together with the values "
              "the specification defines; the harness instantiates the class tokens with random members of the Unicode "
              "classes, calls every GetArchivePath*/GetConsumablePath*/Generate*Path builder, GetArchivePathComponents, "
              "GetConsumableStorePathMetadata, ReverseIndexChunk, IsGeneratedFile, ValidateRepo, ValidateLabel and the yaml "
              "Marshal/Unmarshal of every descriptor type, and compares",
         design_ref="§3 C20",
         note="Trusted: TLC, the refinement map (class token -> member of Go's unicode tables), the comparison code. Valid "
              "values: repo/context names = letters, digits, hyphen; labels additionally connector punctuation; ids = KSUIDs; "
              "split ids = KSUIDs or label-alphabet names (none documented). Non-ASCII Unicode-Hyphen characters are "
              "ambiguous in the docs: either answer accepted. Parsers accepting malformed paths, hostile ids and unclean "
              "paths are observations, not verdicts. yaml fidelity is exercised with spec-chosen value classes, not modelled. "
              "Bounds: quick = 9 k model states, 7.7 k cases; thorough = 64 k states, 88.7 k cases x 3 instantiations",
         technique="TLA+ model checking (TLC) of the path grammar + TLC-generated cases with specification-defined results "
                   "compared against pkg/model (TLC as oracle)"),
    dict(id="C21",
         text="Params.tla states the sidecar's env-var format as an executable decoder (first character item separator, "
              "second key/value separator, neither '.', empty items dropped, item without separator = flag, only field 2 of "
              "cut kept) and is model-checked on itself (Decode(Encode(p)) = Expected(p); Unambiguous is exactly 'decodes back' "
              "for any separators); parameter sets chosen by TLC from value classes (exhaustive single substitutions + random "
              "sets) and a fixed literal corpus are encoded by the REAL FUSEParamsToEnvVars / PGParamsToEnvVars (builder API and "
              "YAML route) and every call is judged by TLC trace validation: err or (Decode(out) = Expected(in), Unambiguous(out), "
              "ShellSafe(key/value separator))",
         design_ref="§3 C21",
         note="Trusted: TLC, the class instantiation and event logging of the harness (the structure handed to the encoder is "
              "compared with the logged input). Bounds: quick = 1 435 single substitutions + 400 random sets + 19 literal sets; "
              "thorough = 1 435 + 30 000 + 20; codec model: alphabet of 6 characters, 2 keyed values of length <= 2 (quick) / 3 "
              "(thorough) + 1 flag. An error of the encoder is accepted except on well-formed lower-case sets",
         technique="TLA+ model checking (TLC) of the codec + TLC-chosen parameter sets encoded by pkg/sidecar/param + TLC trace "
                   "validation of every call"),
    dict(id="C22",
         text="Tracker.tla (bitmap of written offsets; ModifiedOp / ContigBound result operators checked sound and maximal, "
              "marker encoding faithful, writes commutative/idempotent/exact by exhaustive TLC); TLC enumerates every write "
              "sequence within the bound and samples longer ones, each step carrying the expected answer for every probe offset; "
              "the sequences are replayed on the real tracker (trackWrite/getRangeToRead through the verif export hook) and after "
              "every write every offset 0..N+1 is probed with lengths {1,2,N,2N+7}: modified == ModifiedOp(off) and "
              "1 <= contiguous <= min(len, ContigBound(off))",
         design_ref="§3 C22",
         note="Trusted: TLC, the harness' comparison code (self-tested in every run against an independent interval-list "
              "tracker inside the harness), the export hook pkg/filetracker/verif_export.go. Single goroutine. Zero-length "
              "writes are outside the quantification. A contiguous length shorter than the distance to the boundary is accepted. "
              "Bounds: quick = all sequences of 3 writes, off 0..4, len 1..3 + 300 random of 8 writes; thorough = all sequences "
              "of 4 writes, off 0..6, len 1..4 (614 656) + 20 000 random",
         technique="TLA+ model checking (TLC) + replay of TLC-enumerated and TLC-sampled write sequences on pkg/filetracker"),
    dict(id="C17",
         text="FuseRO.tla (bundle = file paths -> size/tag; nodes = entries + implied directories; LookupOp, AttrOp, ChildrenOp, "
              "ReadDirOp with resume offsets, ReadOp; TreeIsExactlyBundle, ReadDirResumable for every ordering/start/capacity "
              "sequence, ReadExact, UploadExact by exhaustive TLC); TLC enumerates every tiny bundle with the complete operation "
              "table and samples random trees (nesting, siblings, empty/one-leaf/multi-leaf files, hostile names) with random "
              "lookup/getattr/readdir(k,cap)/read(off,len) programs, each step carrying the operator's value; every bundle is "
              "uploaded with core.Upload, mounted with fuse.NewReadOnlyFS pre-downloaded and streamed, and the program is run on "
              "the mount's file system operation interface: inodes learnt from lookups (injective), listings with small buffers "
              "resumed at the last offset = every child exactly once, reads byte for byte incl. past EOF",
         design_ref="§3 C17",
         note="Trusted: TLC, the harness' comparison code (self-tested in every run against an independent in-memory file system "
              "inside the harness; disagreement = exit 2), the in-memory object stores (C16), the export hook "
              "pkg/fuse/verif_export.go. Not through the kernel; single goroutine. Only type and size of the attributes; '.'/'..' "
              "acceptable; order of listings and entry inodes observed only. The mounting client is given the bundle's leaf size. "
              "The many-reads program runs under RLIMIT_NOFILE=1024 with the GC held off. Bounds: quick = all bundles of 0..2 "
              "entries over 6 paths x sizes {0,7} cells with complete tables (57) + 60 random trees <= 6 entries x 20 ops + 1 400 "
              "reads, leaf 64; thorough = 0..2 entries over 12 paths x {0,4,7} x 2 byte maps (1 100) + 500 random trees <= 60 "
              "entries, depth <= 6, 40 ops, leaf 64 and 4096 + one directory with 1 000 siblings + 1 400 reads; both modes",
         technique="TLA+ model checking (TLC) + replay of TLC-enumerated and TLC-sampled bundles/programs on pkg/fuse"),
    dict(id="C18",
         text="FuseRW.tla (POSIX tree with kernel lookup counts and abstract inode numbers; one action per FUSE operation taking "
              "the observed outcome and inode number; Allowed(op) = admissible outcomes, singletons where POSIX/Linux are "
              "unambiguous, sets elsewhere) is model-checked exhaustively on a bounded model (tree well-formed, counts never "
              "negative, live entries have distinct inodes, inode stable while held, every operation has an admissible outcome). "
              "TLC enumerates every operation program within the bound and samples longer ones; each step carries the operation "
              "class, Allowed(op), the node of the entry reply and the post tree. The programs are replayed on the real mutable "
              "mount (fuse.NewMutableFS, operations through fuseutil.FileSystem, every behaviour in a child process): outcome in "
              "Allowed, inode number/type/size of replies, attributes of every held inode, content of written files after every "
              "operation; finally every entry is looked up, the mount committed, the bundle downloaded and compared with CommitOp",
         design_ref="§3 C18",
         note="Trusted: TLC, the harness' comparison code, the in-memory object stores (checked in C16), the export hook "
              "pkg/fuse/verif_export.go. No kernel: single goroutine; the generator plays the kernel's part (parents are held, "
              "linked inodes; forget(N) with N <= count; last reference of a directory only when none of its entries is held; no "
              "rename into the own subtree). Operations the Linux VFS would answer itself (existing names, file as parent, type "
              "mismatches, rename onto itself) are sent and recognisable by their class. Bounds: quick = all 313 programs of <= 2 "
              "operations over {a,b} + 300 random of 3..20; thorough = all 9 913 programs of <= 3 operations + 5 000 random of "
              "3..60 over {a,b,c}, depth 3. ReadDir and short reads are not judged.",
         technique="TLA+ model checking (TLC) + replay of TLC-enumerated (BFS) and TLC-sampled (-simulate) operation programs on "
                   "pkg/fuse's mutable mount, commit and download"),
    dict(id="C19",
         text="Wal.tla (token generator time, Add as Touch / GetAttr / create-if-absent Put, ListOp with the 20-minute look-back "
              "as start key) is model-checked: every interleaving of 3 appenders x <= 2 appends with clock ticks and colliding "
              "nonces (TokensUnique, LaterSecondSortsAfter, IssuedStored, AppendOnly), and the listing operator over every log of "
              "a token universe, every start token and max (ListNoDupOrdered, ListIncludesWindow, EntryUnchanged). The real "
              "wal.Add / wal.ListEntries are driven over the in-memory object store with the clock and the KSUID random bits under "
              "driver control: TLC-generated schedules force the store calls of up to 3 concurrent Adds through the generated "
              "interleaving; seeded workloads run batches of free-running concurrent Adds under a ticking clock with payload "
              "classes (empty, multi-line, > 1 KiB, YAML-looking) and listings from issued and synthetic tokens, max 1..1000, up "
              "to 1200 entries; every history is recorded as a trace of store calls and API results and validated by "
              "WalTrace.tla, which names every disagreement with the properties",
         design_ref="§3 C19",
         note="Trusted: TLC, the refinement token -> <<second, rank of random bits>> / payload -> content id, the in-memory object "
              "store (start-key listings; checked against ObjectStore.tla in C16). Weak reading: entries older than the look-back "
              "may be returned, `next` is observed only; look-back 1200 s inclusive as in the code; listings at quiescence or while "
              "other Adds are held between two store calls. Bounds: quick 176 histories / ~20k events; thorough 2900 histories / "
              "~430k events, one history of 1200 entries",
         technique="TLA+ model checking (TLC) + TLC-generated schedules forced on pkg/wal through the gate scheduler + TLC trace "
                   "validation of recorded histories"),
    dict(id="C15",
         text="Concurrent.tla (shared stores at object level, store discipline WriteVerdict, result operators BundleAlone / "
              "AloneEffect / ResultAlone / PortionOK) is model-checked with one program per client (MC_Concurrent.tla: upload, "
              "split upload + commit of an own diamond, download, label set; one step = one store call; every assignment of "
              "operations to 3 clients, 4 clients in thorough): discipline, NoFailure, EachResultAsAlone, AnyOrder (final state = "
              "the operations run alone in every order), progress. Seeded random workloads of 2..16 real operations are started "
              "behind a barrier over shared in-memory stores: every operation must succeed, every resulting bundle is read back "
              "(DownloadMetadata + full Publish, byte for byte against the source tree), every download / label / diamond is "
              "compared, the projection of all stores (incl. every blob) must equal the union of the per-operation states, and the "
              "recorded store-call trace is validated event by event by ConcurrentTrace.tla. The same workloads run from a "
              "harness built with -race: a data race report with a datamon frame is a violation (race/<top datamon frame>)",
         design_ref="§3 C15",
         note="The conjunct 'no data race occurs in the process' is decided by the Go race detector, not by TLA+ (no false "
              "positives; races that did not happen on the explored schedules are missed). Trusted: TLC, the in-memory object "
              "store (linearizes calls under one mutex; checked against ObjectStore.tla in C16), the harness' projection and "
              "independent BLAKE2b tree keys. Names are disjoint by construction (two commits of the SAME diamond belong to "
              "C12). Result-as-alone is judged against declarative operators, not a second execution (timestamps, generated ids "
              "not compared). Bounds: quick 6 plain + 6 race workloads x seed; thorough 240 plain + 60 race workloads, "
              "GOMAXPROCS 2 and 16. A child crash that does not reproduce when the workload is re-run alone is exit 2, not a verdict",
         technique="TLA+ model checking (TLC) + TLC trace validation of recorded concurrent executions + result/projection "
                   "comparison + Go race detector"),
    dict(id="C16",
         text="ObjectStore.tla is model-checked exhaustively over a hostile key set (pagination = one-page listing, sorted, "
              "duplicate free, exclusive winner); TLC-generated operation histories are replayed on the real localfs store with "
              "every result compared to the specification's, and concurrent exclusive writers are validated as a trace",
         design_ref="§3 C16",
         note="Trusted: TLC, the harness' comparison code; keys never nest an object under another object's name; scans use "
              "store-issued tokens",
         technique="TLA+ model checking (TLC) + replay of TLC-generated behaviours on localfs + TLC trace validation of "
                   "concurrent exclusive puts"),
]
_claimed = {c["id"] for c in CHECKS}
ENGINES[0]["serves_properties"] = sorted(_claimed)
NOT_APPLICABLE = [dict(property_id=p, reason="check not built yet in this round (planned, see DESIGN.md §8)")
                  for p in ALL if p not in _claimed]
