HOOKS = dict(
    guard="verif",
    enable="go build -tags verif (the harness module /verif/harness replaces github.com/oneconcern/datamon with /repo)",
    baseline_off_cmd="bin/baseline_off.sh",
    source_commits=[],
    add_only=True,
)
ENGINES = [
    dict(name="tlc+vh", path="bin/vcheck",
         serves_properties=[],
         kind_free_text="TLA+ specifications (spec/*.tla) model-checked with TLC; TLC-generated behaviours replayed on the real "
                        "packages and store-call traces recorded from the real packages validated against the trace "
                        "specifications by the Go harness (harness/, built against /repo's working tree with -tags verif)"),
]
NOTES = ("All checks: exit 0 = held on everything explored, 1 = VIOLATION lines, 2 = the checker itself failed "
         "(never a verdict). Known findings: known_findings.jsonl. Design: DESIGN.md.")
ALL = ["C%02d" % i for i in range(1, 23)]
CHECKS = [
    dict(id="C16",
         text="ObjectStore.tla is model-checked exhaustively over a hostile key set (pagination = one-page listing, sorted, "
              "duplicate free, exclusive winner); TLC-generated operation histories are replayed on the real localfs store with "
              "every result compared to the specification's, and concurrent exclusive writers are validated as a trace",
         design_ref="§3 C16",
         note="Trusted: TLC, the harness' comparison code; keys never nest an object under another object's name; scans use "
              "store-issued tokens",
         technique="TLA+ model checking (TLC) + replay of TLC-generated behaviours on localfs + TLC trace validation of "
                   "concurrent exclusive puts"),
]
_claimed = {c["id"] for c in CHECKS}
ENGINES[0]["serves_properties"] = sorted(_claimed)
NOT_APPLICABLE = [dict(property_id=p, reason="check not built yet in this round (planned, see DESIGN.md §8)")
                  for p in ALL if p not in _claimed]
