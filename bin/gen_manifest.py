#!/usr/bin/env python3
"""Regenerates MANIFEST.json from lib/manifest_data.py (single source)."""
import json, os, sys
sys.path.insert(0, os.path.join(os.path.dirname(os.path.dirname(os.path.abspath(__file__))), "lib"))
import manifest_data as md
m = dict(version=1,
         setup_cmd="bin/setup.sh",
         hooks=md.HOOKS,
         engines=md.ENGINES,
         checks=[],
         notes=md.NOTES,
         not_applicable=md.NOT_APPLICABLE)
for c in md.CHECKS:
    pid = c["id"]
    e = dict(property_id=pid,
             quick_cmd="bin/vcheck %s --tier quick" % pid,
             thorough_cmd="bin/vcheck %s --tier thorough" % pid,
             evidence_file="/verif/evidence/%s.json" % pid,
             engine=c.get("engine", "tlc+vh"),
             level_claimed=dict(category=c.get("category", "model_checking"), text=c["text"], design_ref=c["design_ref"]),
             level_note=c["note"],
             technique=c["technique"])
    m["checks"].append(e)
json.dump(m, open(os.path.join(os.path.dirname(os.path.dirname(os.path.abspath(__file__))), "MANIFEST.json"), "w"), indent=1)
print("MANIFEST.json: %d checks, %d not applicable" % (len(m["checks"]), len(m["not_applicable"])))
