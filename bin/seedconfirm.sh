#!/bin/sh
# seedconfirm.sh <seed-dir> <demo-package-dir> "<test packages>": confirm in a scratch worktree that
# (1) existing tests pass with the patch, (2) the demo fails with it, (3) passes without it.
S=$(cd "$1" && pwd); PKG=$2; TESTS=$3
export GOFLAGS=-mod=mod GOPROXY=off GOSUMDB=off GOTOOLCHAIN=local
W=/tmp/seedconfirm.$$
git -C /repo worktree add --detach $W HEAD -q || exit 2
cd $W
git apply $S/patch.diff || { echo "PATCH DOES NOT APPLY"; cd /; git -C /repo worktree remove --force $W; exit 2; }
go build ./... >/dev/null 2>&1 && echo "build: ok" || echo "build: FAILED"
go test -count=1 -vet=off $TESTS > $W/t1.log 2>&1; grep -E '^(FAIL|---  FAIL|--- FAIL)' $W/t1.log | grep -v 'TestWAL_GetToken|pkg/wal' | head -5; echo "existing tests with patch: done (failures other than the offline pkg/wal one are listed above)"
mkdir -p $PKG; cp $S/demo_test.go $PKG/zz_demo_test.go
go test -count=1 -vet=off -run 'Demo|Seed|Seeded' ./$PKG/ > $W/t2.log 2>&1 && echo "demo with patch: PASSES (bad)" || echo "demo with patch: fails (good)"
git checkout -q -- . 
go test -count=1 -vet=off -run 'Demo|Seed|Seeded' ./$PKG/ > $W/t3.log 2>&1 && echo "demo without patch: passes (good)" || { echo "demo without patch: FAILS (bad)"; tail -5 $W/t3.log; }
cd /; git -C /repo worktree remove --force $W
