#!/bin/sh
# Builds the harness once (warms the Go build cache) and parses every spec.
set -e
cd "$(dirname "$0")/.."
export GOFLAGS=-mod=mod GOPROXY=off GOSUMDB=off GOTOOLCHAIN=local
cp /repo/go.sum harness/go.sum
(cd harness && go build -tags verif -o ../bin/vh ./cmd/vh)
mkdir -p .work/sany evidence
for f in spec/*.tla; do
  (cd spec && java -cp /opt/veriftools/tla/tla2tools.jar:/opt/veriftools/tla/CommunityModules-deps.jar tla2sany.SANY "$(basename "$f")" > ../.work/sany/"$(basename "$f")".log 2>&1) || { echo "SANY failed on $f"; cat .work/sany/"$(basename "$f")".log; exit 1; }
done
rm -rf .work/sany
echo setup ok
