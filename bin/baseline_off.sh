#!/bin/sh
# Runs the repository's pinned test suite with the verif build tag OFF and
# compares the outcome with /root/.vp/BASELINE.json (221 stable passes).
export GOFLAGS=-mod=mod GOPROXY=off GOSUMDB=off GOTOOLCHAIN=local
OUT=${1:-/tmp/verif_baseline_$$.json}
(cd /repo && go test -mod=mod -json -vet=off -count=1 -timeout 25m ./... > "$OUT" 2>/dev/null)
python3 - "$OUT" <<'PY'
import json,sys
base=json.load(open('/root/.vp/BASELINE.json'))
want=set(base['stable_pass'])
res={}
for l in open(sys.argv[1]):
    try: e=json.loads(l)
    except Exception: continue
    if e.get('Test') and e.get('Action') in ('pass','fail','skip'):
        res[e['Package']+'::'+e['Test']]=e['Action']
missing=[t for t in sorted(want) if res.get(t)!='pass']
print('baseline: %d/%d stable tests pass'%(len(want)-len(missing),len(want)))
for t in missing: print('NOT PASSING:',t,res.get(t))
sys.exit(1 if missing else 0)
PY
rc=$?
[ -z "$1" ] && rm -f "$OUT"
exit $rc
