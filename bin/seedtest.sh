#!/bin/sh
# seedtest.sh <patch.diff> <property-id> [tier]: apply a seeded change to /repo, run the check, undo it.
P=$(readlink -f "$1"); ID=$2; TIER=${3:-quick}
cd /repo || exit 2
git diff --quiet || { echo "/repo has uncommitted changes"; exit 2; }
git apply "$P" || { echo "patch does not apply"; exit 2; }
(cd /verif && bin/vcheck "$ID" --tier "$TIER" 2>&1 | tail -12)
RC=$?
git -C /repo checkout -- . 
git -C /repo status --short
exit $RC
