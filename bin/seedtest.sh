#!/bin/sh
# seedtest.sh <patch.diff> <property-id> [tier]: run a check against a seeded change.
# Default: a scratch worktree of /repo under /tmp with the patch applied, used through VERIF_REPO
# (parallel-safe; evidence/ and replays/ of /repo are left alone; the worktree is removed afterwards).
# With SEED_IN_REPO=1: apply the patch to /repo itself, run the registered check, undo it.
P=$(readlink -f "$1"); ID=$2; TIER=${3:-quick}
if [ -n "$SEED_IN_REPO" ]; then
  cd /repo || exit 2
  git diff --quiet || { echo "/repo has uncommitted changes"; exit 2; }
  git apply "$P" || { echo "patch does not apply"; exit 2; }
  (cd /verif && bin/vcheck "$ID" --tier "$TIER" 2>&1 | tail -12)
  RC=$?
  git -C /repo checkout -- .
  git -C /repo status --short
  exit $RC
fi
W=/tmp/seedtest.$$
git -C /repo worktree add --detach $W HEAD -q || exit 2
(cd $W && git apply "$P") || { echo "patch does not apply"; git -C /repo worktree remove --force $W; exit 2; }
(cd /verif && VERIF_REPO=$W bin/vcheck "$ID" --tier "$TIER" 2>&1 | tail -12)
RC=$?
git -C /repo worktree remove --force $W
exit $RC
