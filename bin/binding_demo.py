#!/usr/bin/env python3
"""Self-validation of the trace bindings (DESIGN.md §2.8): record traces from the REAL code,
check that the trace specifications accept them, then corrupt single events
(flip a logged result, drop a successful write, duplicate an exclusive winner, swap the
winner of a race) and count how many corrupted traces the specifications reject.

A binding that accepts corrupted traces constrains nothing; the expected outcome is
"original accepted, (nearly) every corruption rejected".  Corruptions that cannot be
observed (e.g. dropping a read) are not generated.  Prints one line per trace family and
writes evidence/selfvalidation_binding.json.  Exit 0 when every original is accepted and
every family rejects at least 90 % of its corruptions, 2 otherwise (never 1: this is
not a verdict about datamon).
"""
import json
import os
import random
import sys

HERE = os.path.dirname(os.path.abspath(__file__))
sys.path.insert(0, os.path.join(os.path.dirname(HERE), "lib"))
import vlib  # noqa: E402


def validate(ctx, module, cfg, path):
    t = vlib.run_tlc(ctx, module, cfg, workers=1, timeout=600, extra_files={"trace.ndjson": path})
    if t["timed_out"] or t["position"] is None:
        raise vlib.Infra("%s did not run: %s" % (module, t["out"][-1200:]))
    pos, n = t["position"]
    return (not t["violated"]) and pos == n + 1


def segments(lines):
    """split a concatenated trace at its reset events (kept as first line of the segment)"""
    segs, cur = [], []
    for ln in lines:
        if '"op":"reset"' in ln and cur:
            segs.append(cur)
            cur = []
        cur.append(ln)
    if cur:
        segs.append(cur)
    return segs


def corrupt_store(seg, rnd):
    """single-event corruptions of a store-call trace; returns list of (name, new segment)"""
    out = []
    ev = [json.loads(x) for x in seg]
    puts_ok = [i for i, e in enumerate(ev) if e.get("op") == "put" and e.get("res") == "ok"]
    puts_ex = [i for i, e in enumerate(ev) if e.get("op") == "put" and e.get("res") == "exists"]
    ends = [i for i, e in enumerate(ev) if e.get("op") == "end"]
    gets = [i for i, e in enumerate(ev) if e.get("op") in ("get", "final", "has") and ("val" in e or "found" in e)]

    def dump(es):
        return [json.dumps(e, separators=(",", ":"), sort_keys=True) for e in es]
    if puts_ex:
        i = rnd.choice(puts_ex)
        c = [dict(e) for e in ev]
        c[i]["res"] = "ok"
        out.append(("loser-reported-as-winner", dump(c)))
    if puts_ok and any(e.get("excl") for e in ev):
        i = rnd.choice(puts_ok)
        c = [dict(e) for e in ev]
        if len([j for j in puts_ok if ev[j].get("key") == ev[i].get("key")]) >= 1 and (puts_ex or len(puts_ok) > 1):
            c[i]["res"] = "exists"
            out.append(("winner-reported-as-loser", dump(c)))
    if ends:
        i = rnd.choice(ends)
        c = [dict(e) for e in ev]
        c[i]["ok"] = not c[i]["ok"]
        out.append(("operation-result-flipped", dump(c)))
    if gets:
        i = rnd.choice(gets)
        c = [dict(e) for e in ev]
        if "val" in c[i]:
            c[i]["val"] = "zz" if isinstance(c[i]["val"], str) else c[i]["val"] + 17
        else:
            c[i]["found"] = not c[i]["found"]
        out.append(("read-result-changed", dump(c)))
    if puts_ok and (gets or puts_ex):
        i = puts_ok[0]
        later = [j for j in gets + puts_ex if j > i and ev[j].get("key") == ev[i].get("key")]
        if later:
            c = [dict(e) for k, e in enumerate(ev) if k != i]
            out.append(("successful-write-dropped", dump(c)))
    return out


def family(ctx, name, module, cfg, record, per_segment, rnd, budget):
    path = record()
    lines = open(path).read().splitlines()
    if not validate(ctx, module, cfg, path):
        return dict(family=name, original_accepted=False, events=len(lines))
    segs = segments(lines)
    rnd.shuffle(segs)
    tried, rejected, accepted_kinds = 0, 0, {}
    kinds = {}
    for seg in segs:
        for kind, new in per_segment(seg, rnd):
            if tried >= budget:
                break
            p = os.path.join(ctx.work, "%s_c%d.ndjson" % (name, tried))
            if '"op":"reset"' in seg[0]:
                # a segment cut out of a concatenated trace: close it as the recording does, so that the end-of-schedule
                # conditions (exactly one winner) are evaluated on it
                new = new + ['{"op":"reset","schedule":"end"}']
            open(p, "w").write("\n".join(new) + "\n")
            ok = validate(ctx, module, cfg, p)
            tried += 1
            kinds[kind] = kinds.get(kind, 0) + 1
            if ok:
                accepted_kinds[kind] = accepted_kinds.get(kind, 0) + 1
            else:
                rejected += 1
        if tried >= budget:
            break
    return dict(family=name, original_accepted=True, events=len(lines), segments=len(segs), corruptions=tried, rejected=rejected,
                kinds=kinds, accepted_corruptions=accepted_kinds)


def main():
    seed = int(os.environ.get("VERIF_SEED", "1"))
    budget = int(sys.argv[1]) if len(sys.argv) > 1 else 12
    ctx = vlib.Ctx("SELF", "quick", seed)
    rnd = random.Random(seed)
    try:
        vlib.build_harness(ctx)

        def rec_create():
            tr = os.path.join(ctx.work, "create.ndjson")
            vlib.run_vh(ctx, ["createrace", "--out", tr, "--res", tr + ".json", "--creators", "3"])
            return tr

        def rec_lock():
            tr = os.path.join(ctx.work, "lock.ndjson")
            vlib.run_vh(ctx, ["createrace", "--op", "lock", "--out", tr, "--res", tr + ".json", "--creators", "2"])
            return tr

        def rec_excl():
            tr = os.path.join(ctx.work, "excl.ndjson")
            vlib.run_vh(ctx, ["objstore-excl", "--out", tr, "--res", tr + ".json", "--backend", "localfs", "--work", ctx.sub("fs"),
                              "--rounds", "12", "--writers", "4"])
            return tr

        def seg_excl(seg, rnd):
            # objstore-excl has no reset events: one segment = the whole trace; corrupt a window around one key
            return corrupt_store(seg, rnd)

        fams = [
            family(ctx, "createrepo-race", "CreateRepoTrace.tla", "CreateRepoTrace.cfg", rec_create, corrupt_store, rnd, budget),
            family(ctx, "purgelock-race", "CreateRepoTrace.tla", "CreateRepoTrace.cfg", rec_lock, corrupt_store, rnd, budget),
            family(ctx, "exclusive-writers", "ObjectStoreTrace.tla", "ObjectStoreTrace.cfg", rec_excl, seg_excl, rnd, budget),
        ]
        ok = True
        for f in fams:
            if not f["original_accepted"]:
                ok = False
                print("binding %-20s ORIGINAL TRACE REJECTED" % f["family"])
                continue
            rate = f["rejected"] / max(1, f["corruptions"])
            print("binding %-20s original accepted (%d events); %d/%d single-event corruptions rejected %s"
                  % (f["family"], f["events"], f["rejected"], f["corruptions"],
                     ("(accepted: %s)" % f["accepted_corruptions"]) if f["accepted_corruptions"] else ""))
            if f["corruptions"] == 0 or rate < 0.9:
                ok = False
        os.makedirs(os.path.join(vlib.VERIF, "evidence"), exist_ok=True)
        json.dump(dict(seed=seed, families=fams), open(os.path.join(vlib.VERIF, "evidence", "selfvalidation_binding.json"), "w"), indent=1)
        return 0 if ok else 2
    except vlib.Infra as e:
        print("selfvalidation: infrastructure failure: %s" % e)
        return 2
    finally:
        ctx.cleanup()


if __name__ == "__main__":
    sys.exit(main())
