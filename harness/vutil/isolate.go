package vutil

import (
	"bufio"
	"bytes"
	"encoding/json"
	"fmt"
	"io"
	"os"
	"os/exec"
	"runtime/debug"
	"strings"
	"sync"
	"syscall"
	"time"
)

// BehResult is what a child reports for one behaviour.
type BehResult struct {
	I          int            `json:"i"`
	Steps      int            `json:"steps"`
	Nontrivial bool           `json:"nontrivial"`
	Mismatches []Mismatch     `json:"mismatches,omitempty"`
	Sample     interface{}    `json:"sample,omitempty"`
	Extra      map[string]int `json:"extra,omitempty"`
	Start      bool           `json:"start,omitempty"`   // heartbeat: behaviour i is starting
	Recycle    bool           `json:"recycle,omitempty"` // the child must be replaced after this behaviour (leaked goroutines)
}

// MaxBadBehaviours stops a replay early: once that many behaviours have
// failed the verdict is clear and broken trees must not cost hours.
var MaxBadBehaviours = 40

// BehFunc runs one behaviour against the real code. It may panic.
type BehFunc func(i int, line []byte, r *BehResult)

// Isolated runs every behaviour of an NDJSON file through fn, in child
// processes of this very binary. The parent survives panics in goroutines,
// fatal runtime errors and hangs of the code under test: the behaviour that
// killed (or hung) the child is re-run alone once to confirm, recorded as a
// mismatch with a crash/hang signature, and the run continues after it.
//
// childArgs are the arguments to re-invoke this subcommand; the child is told
// apart by the environment variable VH_CHILD=from[:only].
func Isolated(family, in string, res *Result, fn BehFunc, perBehTimeout time.Duration) error {
	if spec := os.Getenv("VH_CHILD"); spec != "" {
		return runChild(in, spec, fn)
	}
	total := 0
	if err := ReadNDJSON(in, func(i int, _ []byte) error { total++; return nil }); err != nil {
		return err
	}
	from := 0
	crashes := 0
	for from < total {
		last, died, sig, stderr, err := spawn(fmt.Sprintf("%d", from), res, perBehTimeout)
		if err != nil {
			return err
		}
		if os.Getenv("VH_DEBUG") != "" {
			fmt.Fprintf(os.Stderr, "%s spawn from=%d last=%d died=%v sig=%s beh=%d bad=%d\n", time.Now().Format("15:04:05"), from, last, died, sig, res.Behaviours, res.badBeh)
		}
		if res.BadBehaviours() >= MaxBadBehaviours {
			res.Extra["stopped_early_at"] = last
			break
		}
		if !died && sig == "recycle" {
			from = last + 1
			continue
		}
		if !died {
			break
		}
		// behaviour `last` was in progress when the child died
		culprit := last
		if culprit < from {
			culprit = from
		}
		// confirm alone
		tmp := NewResult(family)
		_, died2, sig2, stderr2, err := spawn(fmt.Sprintf("%d:only", culprit), tmp, perBehTimeout)
		if err != nil {
			return err
		}
		if died2 {
			res.Behaviours++
			res.Add(Mismatch{Beh: culprit, Op: "behaviour", Sig: sig2, Detail: tail(stderr2, 1500)})
		} else {
			// not reproducible alone: a driver-level problem, never a verdict
			return fmt.Errorf("child died at behaviour %d (%s) but not when re-run alone: %s", culprit, sig, tail(stderr, 800))
		}
		crashes++
		if crashes > 200 {
			return fmt.Errorf("more than 200 child crashes; giving up")
		}
		from = culprit + 1
	}
	return nil
}

func tail(s string, n int) string {
	if len(s) > n {
		return s[len(s)-n:]
	}
	return s
}

func spawn(spec string, res *Result, perBeh time.Duration) (last int, died bool, sig string, stderr string, err error) {
	cmd := exec.Command(os.Args[0], os.Args[1:]...)
	cmd.Env = append(os.Environ(), "VH_CHILD="+spec)
	cmd.SysProcAttr = &syscall.SysProcAttr{Setpgid: true}
	var errBuf bytes.Buffer
	cmd.Stderr = &limitedWriter{w: &errBuf, n: 1 << 20}
	stdout, e := cmd.StdoutPipe()
	if e != nil {
		return 0, false, "", "", e
	}
	if e := cmd.Start(); e != nil {
		return 0, false, "", "", e
	}
	last = -1
	var mu sync.Mutex
	lastBeat := time.Now()
	hung := false
	done := make(chan struct{})
	go func() {
		t := time.NewTicker(200 * time.Millisecond)
		defer t.Stop()
		for {
			select {
			case <-done:
				return
			case <-t.C:
				mu.Lock()
				if time.Since(lastBeat) > perBeh {
					hung = true
					mu.Unlock()
					_ = syscall.Kill(-cmd.Process.Pid, syscall.SIGKILL)
					return
				}
				mu.Unlock()
			}
		}
	}()
	rd := bufio.NewReaderSize(stdout, 1<<20)
	for {
		line, rerr := rd.ReadBytes('\n')
		if len(line) > 1 && bytes.HasPrefix(line, []byte(protoMark)) {
			var br BehResult
			if json.Unmarshal(line[len(protoMark):], &br) == nil {
				mu.Lock()
				lastBeat = time.Now()
				mu.Unlock()
				if br.Start {
					last = br.I
				} else {
					res.Behaviours++
					res.Steps += br.Steps
					if br.Nontrivial {
						res.Nontrivial++
					}
					for _, m := range br.Mismatches {
						res.Add(m)
					}
					if len(br.Mismatches) > 0 {
						res.badBeh++
						if res.badBeh >= MaxBadBehaviours {
							_ = syscall.Kill(-cmd.Process.Pid, syscall.SIGKILL)
						}
					}
					if br.Sample != nil {
						res.Sample(br.Sample, 3)
					}
					for k, v := range br.Extra {
						cur, _ := res.Extra[k].(int)
						res.Extra[k] = cur + v
					}
				}
			}
		}
		if rerr != nil {
			if rerr != io.EOF {
				err = rerr
			}
			break
		}
	}
	werr := cmd.Wait()
	close(done)
	_ = syscall.Kill(-cmd.Process.Pid, syscall.SIGKILL)
	stderr = errBuf.String()
	mu.Lock()
	h := hung
	mu.Unlock()
	if res.badBeh >= MaxBadBehaviours {
		return last, false, "", stderr, nil
	}
	if h {
		return last, true, "hang/behaviour", stderr, nil
	}
	if ee, ok := werr.(*exec.ExitError); ok && ee.ExitCode() == 3 {
		return last, false, "recycle", stderr, nil
	}
	if werr != nil {
		return last, true, crashSig(stderr), stderr, nil
	}
	return last, false, "", stderr, nil
}

type limitedWriter struct {
	w *bytes.Buffer
	n int
}

func (l *limitedWriter) Write(p []byte) (int, error) {
	if l.w.Len() < l.n {
		l.w.Write(p)
	}
	return len(p), nil
}

func crashSig(stderr string) string {
	kind := "crash"
	lines := strings.Split(stderr, "\n")
	for _, l := range lines {
		if strings.HasPrefix(l, "fatal error:") {
			kind = "fatal"
			break
		}
		if strings.HasPrefix(l, "panic:") {
			kind = "panic"
			break
		}
	}
	s := PanicSig([]byte(stderr))
	return kind + "/" + strings.TrimPrefix(s, "panic/")
}

// protoMark prefixes protocol lines on the child's stdout (the code under test
// may log to stdout as well).
const protoMark = "@@VH "

func runChild(in, spec string, fn BehFunc) error {
	only := strings.HasSuffix(spec, ":only")
	var from int
	fmt.Sscanf(strings.TrimSuffix(spec, ":only"), "%d", &from)
	w := bufio.NewWriter(os.Stdout)
	enc := json.NewEncoder(w)
	return ReadNDJSON(in, func(i int, line []byte) error {
		if i < from || (only && i != from) {
			return nil
		}
		_, _ = w.WriteString(protoMark)
		_ = enc.Encode(BehResult{I: i, Start: true})
		_ = w.Flush()
		r := &BehResult{I: i}
		fn(i, line, r)
		_, _ = w.WriteString(protoMark)
		_ = enc.Encode(r)
		if err := w.Flush(); err != nil {
			return err
		}
		if r.Recycle && !only {
			os.Exit(3)
		}
		return nil
	})
}

// Guard runs f and converts a panic of the calling goroutine into a mismatch.
func Guard(r *BehResult, step int, op string, replay interface{}, f func()) (panicked bool) {
	defer func() {
		if e := recover(); e != nil {
			panicked = true
			st := debug.Stack()
			r.Mismatches = append(r.Mismatches, Mismatch{Beh: r.I, Step: step, Op: op, Sig: PanicSig(st),
				Detail: fmt.Sprint(e), Replay: replay})
		}
	}()
	f()
	return false
}
