// Package vutil holds helpers shared by the harness subcommands.
package vutil

import (
	"bufio"
	"encoding/json"
	"fmt"
	"io/ioutil"
	"os"
	"sort"
)

// Mismatch is a candidate violation found on the real code.
type Mismatch struct {
	Beh      int         `json:"beh"`
	Step     int         `json:"step"`
	Op       string      `json:"op"`
	Sig      string      `json:"sig"`
	Expected interface{} `json:"expected,omitempty"`
	Got      interface{} `json:"got,omitempty"`
	Detail   string      `json:"detail,omitempty"`
	Replay   interface{} `json:"replay,omitempty"`
}

// Result is what every subcommand writes for the orchestrator.
type Result struct {
	Family     string                 `json:"family"`
	Behaviours int                    `json:"behaviours"`
	Steps      int                    `json:"steps"`
	Nontrivial int                    `json:"distinct_nontrivial"`
	Mismatches []Mismatch             `json:"mismatches"`
	Samples    []interface{}          `json:"samples"`
	Extra      map[string]interface{} `json:"extra,omitempty"`
	SigCounts  map[string]int         `json:"sig_counts"`
	MaxPerSig  int                    `json:"-"`
	perSigSeen map[string]int
	badBeh     int
}

// BadBehaviours is the number of behaviours with at least one mismatch.
func (r *Result) BadBehaviours() int { return r.badBeh }

// NewResult creates a result for a family.
func NewResult(family string) *Result {
	return &Result{Family: family, Extra: map[string]interface{}{}, SigCounts: map[string]int{}, MaxPerSig: 5, perSigSeen: map[string]int{}}
}

// Add records a mismatch, keeping at most MaxPerSig full records per signature.
func (r *Result) Add(m Mismatch) {
	r.SigCounts[m.Sig]++
	if r.perSigSeen[m.Sig] < r.MaxPerSig {
		r.perSigSeen[m.Sig]++
		r.Mismatches = append(r.Mismatches, m)
	}
}

// Sample keeps up to n samples.
func (r *Result) Sample(v interface{}, n int) {
	if len(r.Samples) < n {
		r.Samples = append(r.Samples, v)
	}
}

// Write writes the result as JSON.
func (r *Result) Write(path string) error {
	if r.Mismatches == nil {
		r.Mismatches = []Mismatch{}
	}
	if r.Samples == nil {
		r.Samples = []interface{}{}
	}
	b, err := json.MarshalIndent(r, "", " ")
	if err != nil {
		return err
	}
	return ioutil.WriteFile(path, b, 0644)
}

// ReadNDJSON calls fn for every line of an NDJSON file.
func ReadNDJSON(path string, fn func(i int, line []byte) error) error {
	f, err := os.Open(path)
	if err != nil {
		return err
	}
	defer f.Close()
	sc := bufio.NewScanner(f)
	sc.Buffer(make([]byte, 1<<20), 1<<28)
	i := 0
	for sc.Scan() {
		b := sc.Bytes()
		if len(b) == 0 {
			continue
		}
		if err := fn(i, append([]byte(nil), b...)); err != nil {
			return fmt.Errorf("line %d: %w", i+1, err)
		}
		i++
	}
	return sc.Err()
}

// WriteNDJSON writes values one per line.
func WriteNDJSON(path string, vals []interface{}) error {
	f, err := os.Create(path)
	if err != nil {
		return err
	}
	w := bufio.NewWriter(f)
	enc := json.NewEncoder(w)
	for _, v := range vals {
		if err := enc.Encode(v); err != nil {
			return err
		}
	}
	if err := w.Flush(); err != nil {
		return err
	}
	return f.Close()
}

// SortedCopy returns a sorted copy.
func SortedCopy(s []string) []string {
	out := append([]string{}, s...)
	sort.Strings(out)
	return out
}

// EqStrings compares two string slices.
func EqStrings(a, b []string) bool {
	if len(a) != len(b) {
		return false
	}
	for i := range a {
		if a[i] != b[i] {
			return false
		}
	}
	return true
}

// PanicSig turns a recovered panic and its stack into a stable signature:
// "panic/<first frame inside the repository>".
func PanicSig(stack []byte) string {
	lines := splitLines(string(stack))
	for i, l := range lines {
		if i+1 < len(lines) && containsStr(lines[i+1], "/repo/") && containsStr(l, "github.com/oneconcern/datamon/") {
			fn := l
			if j := lastIndex(fn, "("); j > 0 {
				fn = fn[:j]
			}
			if j := lastIndex(fn, "/"); j >= 0 {
				fn = fn[j+1:]
			}
			return "panic/" + fn
		}
	}
	return "panic/unknown"
}

func splitLines(s string) []string {
	var out []string
	cur := ""
	for _, c := range s {
		if c == '\n' {
			out = append(out, cur)
			cur = ""
		} else {
			cur += string(c)
		}
	}
	return append(out, cur)
}

func containsStr(s, sub string) bool { return indexOf(s, sub) >= 0 }

func indexOf(s, sub string) int {
	for i := 0; i+len(sub) <= len(s); i++ {
		if s[i:i+len(sub)] == sub {
			return i
		}
	}
	return -1
}

func lastIndex(s, sub string) int {
	for i := len(s) - len(sub); i >= 0; i-- {
		if s[i:i+len(sub)] == sub {
			return i
		}
	}
	return -1
}
