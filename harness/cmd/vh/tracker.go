package main

import (
	"encoding/json"
	"flag"
	"fmt"
	"os"
	"sort"
	"time"

	"github.com/oneconcern/datamon/pkg/filetracker"

	"verif/harness/vutil"
)

// C22: replay of Gen_Tracker behaviours (write sequences) on the real
// write-range tracker through the pkg/filetracker export hook. After every
// write, for every probe offset and a few read lengths, the answer of
// getRangeToRead is compared with what Tracker.tla defines for the state:
//
//	modified   == ModifiedOp(written, off)
//	1 <= contiguous <= min(len, ContigBound(written, off))
//
// A contiguous range shorter than the bound is allowed (the caller loops).
func init() {
	subcmds["tracker"] = trackerReplay
}

// trStep is one step of a behaviour: the write and the specification's
// expectation per probe offset 0..len(M)-1 after the write.
type trStep struct {
	O int64   `json:"o"`
	N int64   `json:"n"`
	M []int   `json:"m"` // ModifiedOp: 1 modified, 0 base
	C []int64 `json:"c"` // ContigBound: distance to the next boundary, 0 = unbounded
}

// trTracker is what a behaviour is replayed on.
type trTracker interface {
	VerifTrackWrite(offset int64, length int64)
	VerifRangeToRead(offset int64, length int64) (int64, bool)
}

// trReference is an independent, obviously correct tracker (a list of disjoint
// half-open intervals, merged on write). Replaying the behaviours on it
// (--impl reference) validates the generated expectations and the comparison
// themselves: a disagreement there is a defect of the checker, never a verdict.
type trReference struct{ iv [][2]int64 }

func (t *trReference) VerifTrackWrite(offset int64, length int64) {
	lo, hi := offset, offset+length
	var out [][2]int64
	for _, v := range t.iv {
		if v[1] < lo || v[0] > hi { // neither overlapping nor adjacent
			out = append(out, v)
			continue
		}
		if v[0] < lo {
			lo = v[0]
		}
		if v[1] > hi {
			hi = v[1]
		}
	}
	out = append(out, [2]int64{lo, hi})
	sort.Slice(out, func(i, j int) bool { return out[i][0] < out[j][0] })
	t.iv = out
}

func (t *trReference) VerifRangeToRead(offset int64, length int64) (int64, bool) {
	for _, v := range t.iv {
		if v[0] <= offset && offset < v[1] {
			return min64(length, v[1]-offset), true
		}
		if v[0] > offset {
			return min64(length, v[0]-offset), false
		}
	}
	return length, false
}

func min64(a, b int64) int64 {
	if a < b {
		return a
	}
	return b
}

func trackerReplay(args []string) error {
	fs := flag.NewFlagSet("tracker", flag.ExitOnError)
	in := fs.String("in", "", "behaviours (NDJSON)")
	out := fs.String("out", "", "result JSON")
	_ = fs.String("work", "", "scratch directory (unused)")
	impl := fs.String("impl", "real", "real: pkg/filetracker; reference: the harness' own interval list (self-test of the checker)")
	maxBad := fs.Int("max-bad", 0, "stop after that many failing behaviours (0: the harness default); for investigation")
	base := fs.Int64("base", 0, "refinement: abstract offset o is the byte range [base+o*scale, base+(o+1)*scale)")
	scale := fs.Int64("scale", 1, "refinement: bytes per abstract offset")
	_ = fs.Parse(args)
	B, K := *base, *scale
	if K < 1 {
		K = 1
	}
	if *maxBad > 0 {
		vutil.MaxBadBehaviours = *maxBad
	}
	res := vutil.NewResult("tracker/" + *impl)
	res.Extra["base"], res.Extra["scale"] = B, K
	run := func(i int, line []byte, r *vutil.BehResult) {
		var steps []trStep
		if err := json.Unmarshal(line, &steps); err != nil {
			panic(err)
		}
		if i < 2 {
			r.Sample = json.RawMessage(line)
		}
		r.Extra = map[string]int{}
		var t trTracker = filetracker.VerifNewTracker()
		if *impl == "reference" {
			t = &trReference{}
		}
		writes := make([][2]int64, 0, len(steps))
		seen := map[string]bool{} // one record per signature and behaviour: the earliest
		var prev []int
		touching := false
		for j, st := range steps {
			r.Steps++
			writes = append(writes, [2]int64{st.O, st.N})
			replay := json.RawMessage(mustJSON(map[string]interface{}{"writes": writes}))
			if len(st.M) != len(st.C) || len(st.M) == 0 {
				panic(fmt.Sprintf("behaviour %d step %d: malformed expectation", i, j))
			}
			// does this write overlap or touch data written before? (merge paths)
			for x := st.O - 1; x <= st.O+st.N; x++ {
				if x >= 0 && int(x) < len(prev) && prev[x] == 1 {
					touching = true
				}
			}
			prev = st.M
			nProbe := int64(len(st.M)) // probes 0..N+1
			lens := []int64{1, 2, nProbe - 2, 2*nProbe + 3}
			bad := func(sig string, off, l int64, exp, got interface{}, detail string) {
				if seen[sig] {
					return
				}
				seen[sig] = true
				r.Mismatches = append(r.Mismatches, vutil.Mismatch{Beh: i, Step: j, Op: "write+probe", Sig: sig,
					Expected: exp, Got: got,
					Detail: fmt.Sprintf("after write #%d (off=%d,len=%d): getRangeToRead(off=%d,len=%d) %s", j+1, st.O, st.N, off, l, detail),
					Replay: replay})
			}
			panicked := vutil.Guard(r, j, "write", replay, func() {
				t.VerifTrackWrite(B+st.O*K, st.N*K)
			})
			if panicked {
				return
			}
			type probe struct{ abs, conc, bound int64 }
			var probes []probe
			for a := int64(0); a < nProbe; a++ {
				cb := st.C[a] * K // bytes from the first byte of the cell to the boundary (0: none ahead)
				probes = append(probes, probe{a, B + a*K, cb})
				if K > 1 {
					last := probe{a, B + a*K + K - 1, 0}
					if cb != 0 {
						last.bound = cb - (K - 1)
					}
					probes = append(probes, last)
				}
			}
			for _, pr := range probes {
				off := pr.conc
				expMod := st.M[pr.abs] == 1
				bound := pr.bound
				for _, l0 := range lens {
					if l0 < 1 {
						continue
					}
					l := l0 * K
					var (
						got int64
						mut bool
					)
					if vutil.Guard(r, j, "probe", replay, func() { got, mut = t.VerifRangeToRead(off, l) }) {
						return
					}
					r.Extra["probes"]++
					if mut != expMod {
						if expMod {
							bad("tracker/modified-wrong/written-reported-base", off, l, "modified", "base", "misclassifies a written offset")
						} else {
							bad("tracker/modified-wrong/unwritten-reported-modified", off, l, "base", "modified", "misclassifies an offset no write covered")
						}
					}
					limit := l
					if bound != 0 && bound < limit {
						limit = bound
					}
					exp := fmt.Sprintf("1..%d", limit)
					switch {
					case got < 1:
						bad("tracker/contiguous-zero", off, l, exp, got, "returns an empty or negative range")
					case got > l:
						bad("tracker/contiguous-exceeds-length", off, l, exp, got, "returns more than was asked for")
					case bound != 0 && got > bound:
						bad("tracker/contiguous-crosses-boundary", off, l, exp, got,
							fmt.Sprintf("crosses the modified/unmodified boundary at offset %d", off+bound))
					}
				}
			}
		}
		r.Nontrivial = touching
	}
	if err := vutil.Isolated("tracker", *in, res, run, 30*time.Second); err != nil {
		return err
	}
	if os.Getenv("VH_CHILD") != "" {
		return nil
	}
	return res.Write(*out)
}
