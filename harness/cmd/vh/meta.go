package main

import (
	"bytes"
	"context"
	"encoding/json"
	"flag"
	"fmt"
	"io/ioutil"
	"os"
	"path/filepath"
	"sort"
	"strings"
	"time"

	"github.com/oneconcern/datamon/pkg/cafs"
	context2 "github.com/oneconcern/datamon/pkg/context"
	"github.com/oneconcern/datamon/pkg/core"
	"github.com/oneconcern/datamon/pkg/model"
	"github.com/oneconcern/datamon/pkg/storage"
	"github.com/oneconcern/datamon/pkg/storage/localfs"
	"github.com/segmentio/ksuid"
	"github.com/spf13/afero"
	"go.uber.org/zap"
	"gopkg.in/yaml.v2"

	"verif/harness/store"
	"verif/harness/vutil"
)

func init() {
	subcmds["meta"] = metaReplay
}

// ---------------------------------------------------------------- environment

type metaEnv struct {
	w        *store.World
	crc      bool
	lambda   int
	seed     uint64
	work     string
	conc     int
	batch    int
	listConc int
	ids      map[int]string
	rev      map[string]int
	nclient  int
	scratchN int
	destKind string // localfs | model
}

func newMetaEnv(work string, lambda int, seed uint64, crc bool) *metaEnv {
	w := store.NewWorld()
	w.KeepData["meta"] = true
	w.KeepData["vmeta"] = true
	return &metaEnv{w: w, crc: crc, lambda: lambda, seed: seed, work: work, conc: 4, ids: map[int]string{}, rev: map[string]int{},
		destKind: "localfs"}
}

func (e *metaEnv) view(name string, ctl *store.Ctl) storage.Store {
	v := store.NewView(e.w, name, ctl)
	if e.crc {
		return &store.CRCView{View: v}
	}
	v.NoCRC = true
	return v
}

// client returns the stores of a new client (own control block).
func (e *metaEnv) client() (context2.Stores, *store.Ctl) {
	e.nclient++
	ctl := &store.Ctl{Name: fmt.Sprintf("c%d", e.nclient)}
	return context2.NewStores(e.view("wal", ctl), e.view("readlog", ctl), e.view("blob", ctl), e.view("meta", ctl), e.view("vmeta", ctl)), ctl
}

// ksuidFor gives abstract bundle id k a KSUID whose byte order is the order of k.
func (e *metaEnv) ksuidFor(k int) string {
	if id, ok := e.ids[k]; ok {
		return id
	}
	payload := make([]byte, 16)
	st := splitmix(e.seed*1000003 + uint64(k))
	for i := 0; i < 16; i++ {
		st = splitmix(st)
		payload[i] = byte(st)
	}
	id, err := ksuid.FromParts(time.Unix(1600000000+int64(k)*3, 0), payload)
	if err != nil {
		panic(err)
	}
	e.ids[k] = id.String()
	e.rev[id.String()] = k
	return id.String()
}

// contentBytes concretizes an abstract content id.
func (e *metaEnv) contentBytes(c string) []byte {
	gen := func(tag uint64, n int) []byte {
		out := make([]byte, n)
		st := splitmix(e.seed ^ tag*0x9e37)
		for i := range out {
			if i%8 == 0 {
				st = splitmix(st)
			}
			out[i] = byte(st >> (8 * uint(i%8)))
		}
		return out
	}
	switch c {
	case "e":
		return []byte{}
	case "s":
		return gen(1, 10)
	case "t":
		return gen(2, 10)
	case "m":
		return gen(3, 2*e.lambda+1)
	case "x": // exactly one leaf
		return gen(4, e.lambda)
	default:
		if strings.HasPrefix(c, "bulk") {
			return []byte(c)
		}
		var h uint64 = 1469598103934665603
		for i := 0; i < len(c); i++ {
			h = (h ^ uint64(c[i])) * 1099511628211
		}
		return gen(h|1<<40, 9)
	}
}

func (e *metaEnv) contentKey(c string) string {
	b := e.contentBytes(c)
	lam := e.lambda
	nfull := len(b) / lam
	var cat []byte
	for i := 0; i < nfull; i++ {
		k := treeKey(b[i*lam:(i+1)*lam], uint32(lam), 0, uint64(i+1), false)
		cat = append(cat, k[:]...)
	}
	if len(b)%lam != 0 {
		k := treeKey(b[nfull*lam:], uint32(lam), 0, uint64(nfull), true)
		cat = append(cat, k[:]...)
	}
	r := treeKey(cat, uint32(lam), 1, 0, true)
	return r.String()
}

func (e *metaEnv) scratch(kind string) string {
	e.scratchN++
	d := filepath.Join(e.work, fmt.Sprintf("%s%d", kind, e.scratchN))
	_ = os.MkdirAll(d, 0700)
	return d
}

func localStore(dir string) storage.Store {
	return localfs.New(afero.NewBasePathFs(afero.NewOsFs(), dir), localfs.WithRetry(false), localfs.WithLogger(zap.NewNop()))
}

type treeEntry struct {
	P   string `json:"p"`
	C   string `json:"c"`
	Gen bool   `json:"gen"`
}

func bulkName(i int) string { return fmt.Sprintf("bulk/f%05d", i) }

// writeTree materializes a tree in a fresh source directory.
func (e *metaEnv) writeTree(tree []treeEntry, bulk int) (storage.Store, string) {
	dir := e.scratch("src")
	for _, t := range tree {
		p := filepath.Join(dir, filepath.FromSlash(t.P))
		_ = os.MkdirAll(filepath.Dir(p), 0700)
		if err := ioutil.WriteFile(p, e.contentBytes(t.C), 0600); err != nil {
			panic(err)
		}
	}
	for i := 0; i < bulk; i++ {
		p := filepath.Join(dir, filepath.FromSlash(bulkName(i)))
		_ = os.MkdirAll(filepath.Dir(p), 0700)
		if err := ioutil.WriteFile(p, []byte(fmt.Sprintf("bulk%05d", i%7)), 0600); err != nil {
			panic(err)
		}
	}
	return localStore(dir), dir
}

func (e *metaEnv) newBundle(stores context2.Stores, repo, id string, consumable storage.Store) *core.Bundle {
	bd := model.NewBundleDescriptor(model.Message("verif"), model.BundleContributor(model.Contributor{Name: "v", Email: "v@example.com"}))
	bd.LeafSize = uint32(e.lambda)
	if k, ok := e.rev[id]; ok {
		// descriptor timestamps run against the id order: listings are ordered by id, never by time
		bd.Timestamp = time.Unix(1700000000-int64(k)*60, 0).UTC()
	}
	opts := []core.BundleOption{
		core.Repo(repo), core.ContextStores(stores), core.BundleDescriptor(bd), core.Logger(zap.NewNop()),
		core.ConcurrentFileUploads(e.conc), core.ConcurrentFileDownloads(e.conc), core.ConcurrentFilelistDownloads(e.conc),
		core.BundleWithRetry(false),
	}
	if id != "" {
		opts = append(opts, core.BundleID(id))
	}
	if consumable != nil {
		opts = append(opts, core.ConsumableStore(consumable))
	}
	return core.NewBundle(opts...)
}

// newReaderBundle is the bundle object of a client that only knows repository and bundle id (a download):
// no descriptor is given, the leaf size and the rest must come from the stored descriptor.
func (e *metaEnv) newReaderBundle(stores context2.Stores, repo, id string, consumable storage.Store) *core.Bundle {
	opts := []core.BundleOption{
		core.Repo(repo), core.ContextStores(stores), core.BundleID(id), core.Logger(zap.NewNop()),
		core.ConcurrentFileUploads(e.conc), core.ConcurrentFileDownloads(e.conc), core.ConcurrentFilelistDownloads(e.conc),
		core.BundleWithRetry(false),
	}
	if consumable != nil {
		opts = append(opts, core.ConsumableStore(consumable))
	}
	return core.NewBundle(opts...)
}

func (e *metaEnv) listOpts() []core.Option {
	var o []core.Option
	if e.batch > 0 {
		o = append(o, core.BatchSize(e.batch))
	}
	if e.listConc > 0 {
		o = append(o, core.ConcurrentList(e.listConc))
	}
	return o
}

// ---------------------------------------------------------------- behaviour steps

type postBundle struct {
	ID   int         `json:"id"`
	Repo string      `json:"repo"`
	Tree []treeEntry `json:"tree"`
	Bulk int         `json:"bulk"`
	Idx  int         `json:"idx"`
	Desc bool        `json:"desc"`
}

type postLabel struct {
	Repo   string `json:"repo"`
	Name   string `json:"name"`
	Bundle int    `json:"bundle"`
}

type postState struct {
	Repos   []string     `json:"repos"`
	Bundles []postBundle `json:"bundles"`
	Labels  []postLabel  `json:"labels"`
	Obs     struct {
		Repos []string `json:"repos"`
		List  []struct {
			Repo string `json:"repo"`
			IDs  []int  `json:"ids"`
		} `json:"list"`
		Latest []struct {
			Repo string `json:"repo"`
			ID   int    `json:"id"`
		} `json:"latest"`
	} `json:"obs"`
}

type metaStep struct {
	Op        string      `json:"op"`
	Repo      string      `json:"repo"`
	New       string      `json:"new"`
	Res       string      `json:"res"`
	Tree      []treeEntry `json:"tree"`
	Bulk      int         `json:"bulk"`
	ID        int         `json:"id"`
	After     int         `json:"after"`
	Fail      int         `json:"fail"`
	Name      string      `json:"name"`
	Bundle    int         `json:"bundle"`
	Paths     []string    `json:"paths"`
	N         int         `json:"n"`
	Mode      string      `json:"mode"`
	Leftovers []int       `json:"leftovers"`
	A         int         `json:"a"`
	B         int         `json:"b"`
	Add       []string    `json:"add"`
	Del       []string    `json:"del"`
	Dif       []string    `json:"dif"`
	Select    []string    `json:"select"`
	Files     []treeEntry `json:"files"`
	From      []treeEntry `json:"from"`
	Keys      []string    `json:"keys"`
	Skip      bool        `json:"skip"`
	Stale     bool        `json:"stale"`
	Loser     []treeEntry `json:"loser"`
	Post      postState   `json:"post"`
}

type metaRun struct {
	e        *metaEnv
	r        *vutil.BehResult
	line     []byte
	stepIdx  int
	op       string
	anyFate  map[int]bool // bundles whose leftovers may or may not have been removed
	modified map[int]bool // bundles whose index files were rewritten by delete-entries
	deep     bool
	// strictOrder: listing order is part of the verdict (C07 only)
	strictOrder bool
	applyToo    bool
	// stash: local copies downloaded right after each upload, for updates starting from a copy that is
	// older than the bundle's current metadata (delete-files rewrites a bundle under its id)
	stash    map[int]string
	useStash bool
	// label objects of earlier assignments, re-used by later ones
	labelObjs map[string]*core.Label
}

func (m *metaRun) bad(sig string, exp, got interface{}, detail string) {
	m.r.Mismatches = append(m.r.Mismatches, vutil.Mismatch{Beh: m.r.I, Step: m.stepIdx, Op: m.op, Sig: sig, Expected: exp, Got: got,
		Detail: detail, Replay: map[string]interface{}{"behaviour": json.RawMessage(m.line), "upto": m.stepIdx, "lambda": m.e.lambda,
			"seed": m.e.seed, "crc": m.e.crc, "batch": m.e.batch}})
}

func errString(err error) string {
	if err == nil {
		return "ok"
	}
	return "error: " + err.Error()
}

func sortedStrings(s []string) []string {
	out := append([]string{}, s...)
	sort.Strings(out)
	return out
}

func (m *metaRun) doStep(st metaStep) {
	e := m.e
	ctx := context.Background()
	stores, ctl := e.client()
	switch st.Op {
	case "createrepo":
		err := core.CreateRepo(model.RepoDescriptor{Name: st.Repo, Description: "d", Timestamp: time.Now(),
			Contributor: model.Contributor{Name: "v", Email: "v@example.com"}}, stores)
		got := "ok"
		if err != nil {
			got = "exists"
			if !strings.Contains(err.Error(), "already exists") {
				got = errString(err)
			}
		}
		if got != st.Res {
			m.bad("createrepo/result", st.Res, got, "")
		}
	case "uploadfault":
		src, _ := e.writeTree(st.Tree, st.Bulk)
		b := e.newBundle(stores, st.Repo, e.ksuidFor(st.ID), src)
		ctl.FaultStore, ctl.FaultOp, ctl.FaultAt = "meta", "put", st.Fail
		err := core.Upload(ctx, b)
		if !ctl.FaultFired {
			m.bad("driver/fault-not-reached", nil, errString(err), "")
		} else if err == nil {
			m.bad("uploadfault/reported-success", "error", "ok", fmt.Sprintf("metadata write %d failed", st.Fail))
		}
	case "upload", "uploadcrash":
		src, _ := e.writeTree(st.Tree, st.Bulk)
		b := e.newBundle(stores, st.Repo, e.ksuidFor(st.ID), src)
		if st.Op == "uploadcrash" {
			ctl.CrashStore = "meta"
			if st.After == 99 {
				nfiles := st.Bulk
				for _, t := range st.Tree {
					if !t.Gen {
						nfiles++
					}
				}
				ctl.CrashAt = (nfiles+999)/1000 + 1
				ctl.Before = false
			} else {
				ctl.CrashAt = st.After + 1
				ctl.Before = true
			}
		}
		err := core.Upload(ctx, b)
		if st.Op == "upload" && err != nil {
			m.bad("upload/error", "ok", err.Error(), "")
		}
		if st.Op == "upload" && err == nil && m.useStash && st.Bulk == 0 {
			dir := e.scratch("stash")
			if perr := core.Publish(ctx, e.newBundle(stores, st.Repo, e.ksuidFor(st.ID), localStore(dir))); perr == nil {
				m.stash[st.ID] = dir
			}
		}
		if st.Op == "uploadcrash" && !ctl.Crashed() {
			m.bad("driver/crash-not-reached", nil, errString(err), "the crash point was not reached")
		}
	case "reupload":
		// a second writer under the id of a committed bundle
		src, _ := e.writeTree(st.Tree, 0)
		b := e.newBundle(stores, st.Repo, e.ksuidFor(st.Bundle), src)
		var err error
		if st.Mode == "entries" {
			for _, t := range st.Tree {
				b.BundleEntries = append(b.BundleEntries, model.BundleEntry{NameWithPath: "reuploaded/" + t.P, Hash: strings.Repeat("ab", 64), Size: 1})
			}
			b.BundleEntries = append(b.BundleEntries, model.BundleEntry{NameWithPath: "reuploaded", Hash: strings.Repeat("cd", 64), Size: 2})
			err = b.UploadBundleEntries(ctx)
		} else {
			err = core.Upload(ctx, b)
		}
		if err == nil {
			m.bad("reupload/accepted/"+st.Mode, "error", "ok", "a committed bundle id was written again")
		}
	case "uploadrace":
		// the loser is stopped at its first file-list write (after its existence check), the winner runs to the end
		id := e.ksuidFor(st.ID)
		lsrc, _ := e.writeTree(st.Loser, 0)
		lstores, lctl := e.client()
		lb := e.newBundle(lstores, st.Repo, id, lsrc)
		lctl.HoldFn = func(storeName, op, key string) bool {
			return storeName == "meta" && op == "put" && strings.Contains(key, "bundle-files-")
		}
		done := make(chan error, 1)
		go func() {
			defer func() {
				if p := recover(); p != nil {
					done <- fmt.Errorf("panic: %v", p)
				}
			}()
			done <- core.Upload(ctx, lb)
		}()
		held := false
		var lerr error
		finished := false
		for t0 := time.Now(); !held && !finished && time.Since(t0) < 30*time.Second; {
			if len(lctl.HeldKeys()) > 0 {
				held = true
				break
			}
			select {
			case lerr = <-done:
				finished = true
			case <-time.After(time.Millisecond):
			}
		}
		src, _ := e.writeTree(st.Tree, 0)
		b := e.newBundle(stores, st.Repo, id, src)
		if err := core.Upload(ctx, b); err != nil {
			m.bad("uploadrace/winner-error", "ok", err.Error(), "")
		}
		lctl.ReleaseAll()
		if !finished {
			select {
			case lerr = <-done:
			case <-time.After(60 * time.Second):
				m.bad("uploadrace/loser-hangs", nil, nil, "")
				return
			}
		}
		if !held {
			// the loser never reached a file-list write: it ran alone before the winner; the winner must then
			// have been refused, which is reported above (winner-error): a driver problem, not a verdict
			m.bad("driver/race-not-reached", nil, errString(lerr), "")
		} else if lerr == nil {
			m.bad("uploadrace/loser-reported-success", "error", "ok", "two uploads of one bundle id both succeeded")
		}
	case "uploadkeys":
		src, _ := e.writeTree(st.Tree, 0)
		b := e.newBundle(stores, st.Repo, e.ksuidFor(st.ID), src)
		b.SkipOnError = st.Skip
		keys := st.Keys
		err := core.UploadSpecificKeys(ctx, b, func() ([]string, error) { return keys, nil })
		got := "ok"
		if err != nil {
			got = "error"
		}
		if got != st.Res {
			m.bad("uploadkeys/result", st.Res, errString(err), fmt.Sprintf("keys=%v skip=%v", keys, st.Skip))
		}
	case "update":
		m.update(stores, st)
	case "setlabel":
		b := e.newBundle(stores, st.Repo, e.ksuidFor(st.Bundle), nil)
		// a label object is either fresh, or the one used for the previous assignment of this label (a client
		// that keeps its objects), possibly after resolving it first
		lkey := st.Repo + "\x00" + st.Name
		l := m.labelObjs[lkey]
		if l == nil || m.stepIdx%2 == 0 {
			l = core.NewLabel(core.LabelDescriptor(model.NewLabelDescriptor(model.LabelName(st.Name),
				model.LabelContributor(model.Contributor{Name: "v", Email: "v@example.com"}))))
		} else if m.stepIdx%4 == 3 {
			_ = l.DownloadDescriptor(ctx, e.newBundle(stores, st.Repo, "", nil), true)
		}
		if m.labelObjs == nil {
			m.labelObjs = map[string]*core.Label{}
		}
		m.labelObjs[lkey] = l
		if err := l.UploadDescriptor(ctx, b); err != nil {
			m.bad("setlabel/error", "ok", err.Error(), "")
		}
	case "setlabelcrash":
		// the client dies before its (After+1)-th write on the versioned metadata store
		b := e.newBundle(stores, st.Repo, e.ksuidFor(st.Bundle), nil)
		l := core.NewLabel(core.LabelDescriptor(model.NewLabelDescriptor(model.LabelName(st.Name),
			model.LabelContributor(model.Contributor{Name: "v", Email: "v@example.com"}))))
		ctl.CrashStore, ctl.CrashAt, ctl.Before = "vmeta", st.After+1, true
		_ = l.UploadDescriptor(ctx, b)
	case "deletelabel":
		err := core.DeleteLabel(st.Repo, stores, st.Name)
		got := "ok"
		if err != nil {
			got = "error"
		}
		if got != st.Res {
			m.bad("deletelabel/result", st.Res, errString(err), "")
		}
	case "deletebundle":
		if err := core.DeleteBundle(st.Repo, stores, e.ksuidFor(st.Bundle)); err != nil {
			m.bad("deletebundle/error", "ok", err.Error(), "")
		}
	case "deleterepo":
		if err := core.DeleteRepo(st.Repo, stores); err != nil {
			m.bad("deleterepo/error", "ok", err.Error(), "")
		}
	case "renamerepo":
		if err := core.RenameRepo(st.Repo, st.New, stores); err != nil {
			m.bad("renamerepo/error", "ok", err.Error(), "")
		}
	case "deleteentries":
		if err := core.DeleteEntriesFromRepo(st.Repo, stores, st.Paths); err != nil {
			m.bad("deleteentries/error", "ok", err.Error(), "")
		}
		for _, pb := range st.Post.Bundles {
			if pb.Repo == st.Repo && pb.Desc {
				m.modified[pb.ID] = true
			}
		}
	case "squash":
		opts := []core.Option{core.WithRetainNLatest(st.N)}
		switch st.Mode {
		case "tags":
			opts = append(opts, core.WithRetainTags(true))
		case "semver":
			opts = append(opts, core.WithRetainSemverTags(true))
		case "both":
			opts = append(opts, core.WithRetainTags(true), core.WithRetainSemverTags(true))
		}
		opts = append(opts, e.listOpts()...)
		if err := core.RepoSquash(stores, st.Repo, opts...); err != nil {
			m.bad("squash/error", "ok", err.Error(), "")
		}
		for _, id := range st.Leftovers {
			m.anyFate[id] = true
		}
	case "diff":
		ba := e.newBundle(stores, m.repoOf(st.A), e.ksuidFor(st.A), nil)
		bb := e.newBundle(stores, m.repoOf(st.B), e.ksuidFor(st.B), nil)
		d, err := core.Diff(ctx, ba, bb)
		if err != nil {
			m.bad("diff/error", "ok", err.Error(), "")
			return
		}
		var add, del, dif []string
		seen := map[string]int{}
		for _, en := range d.Entries {
			seen[en.Name]++
			switch en.Type {
			case core.DiffEntryTypeAdd:
				add = append(add, en.Name)
			case core.DiffEntryTypeDel:
				del = append(del, en.Name)
			case core.DiffEntryTypeDif:
				dif = append(dif, en.Name)
			}
		}
		for n, c := range seen {
			if c > 1 {
				m.bad("diff/duplicate", 1, c, n)
			}
		}
		if !vutil.EqStrings(sortedStrings(add), sortedStrings(st.Add)) || !vutil.EqStrings(sortedStrings(del), sortedStrings(st.Del)) ||
			!vutil.EqStrings(sortedStrings(dif), sortedStrings(st.Dif)) {
			m.bad("diff/wrong", map[string][]string{"add": st.Add, "del": st.Del, "dif": st.Dif},
				map[string][]string{"add": add, "del": del, "dif": dif}, "")
		}
	case "download":
		m.download(stores, st.Bundle, st.Select, st.Files, true)
	}
}

var curPost *postState

func (m *metaRun) repoOf(id int) string {
	if curPost != nil {
		for _, b := range curPost.Bundles {
			if b.ID == id {
				return b.Repo
			}
		}
	}
	return ""
}

// download publishes (a selection of) a bundle into a fresh directory and compares the bytes.
func (m *metaRun) download(stores context2.Stores, id int, sel []string, files []treeEntry, selective bool) {
	e := m.e
	ctx := context.Background()
	dir := e.scratch("dst")
	dest := localStore(dir)
	b := e.newReaderBundle(stores, m.repoOf(id), e.ksuidFor(id), dest)
	var err error
	if selective {
		set := map[string]bool{}
		for _, s := range sel {
			set[s] = true
		}
		err = core.PublishSelectBundleEntries(ctx, b, func(name string) (bool, error) { return set[name], nil })
	} else {
		err = core.Publish(ctx, b)
	}
	if err != nil {
		m.bad("download/error", "ok", err.Error(), fmt.Sprintf("bundle %d", id))
		return
	}
	exp := map[string][]byte{}
	for _, f := range files {
		exp[f.P] = e.contentBytes(f.C)
	}
	got := map[string][]byte{}
	_ = filepath.Walk(dir, func(p string, info os.FileInfo, err error) error {
		if err != nil || info.IsDir() {
			return nil
		}
		rel, _ := filepath.Rel(dir, p)
		rel = filepath.ToSlash(rel)
		if strings.HasPrefix(rel, ".datamon/") {
			return nil
		}
		if strings.HasPrefix(rel, "bulk/") {
			return nil
		}
		b, _ := ioutil.ReadFile(p)
		got[rel] = b
		return nil
	})
	for p, eb := range exp {
		gb, ok := got[p]
		if !ok {
			m.bad("download/missing-file", p, nil, fmt.Sprintf("bundle %d", id))
		} else if !bytes.Equal(gb, eb) {
			m.bad("download/wrong-bytes", len(eb), len(gb), fmt.Sprintf("bundle %d file %s", id, p))
		}
	}
	for p := range got {
		if _, ok := exp[p]; !ok {
			m.bad("download/extra-file", nil, p, fmt.Sprintf("bundle %d", id))
		}
	}
	_ = os.RemoveAll(dir)
	// the single-file download of one of the files (the smallest path, and the largest)
	if len(files) > 0 {
		names := make([]string, 0, len(files))
		for _, f := range files {
			names = append(names, f.P)
		}
		sort.Strings(names)
		for _, name := range []string{names[0], names[len(names)-1]}[:1+btoi(len(names) > 1)] {
			one := e.scratch("one")
			ob := e.newReaderBundle(stores, m.repoOf(id), e.ksuidFor(id), localStore(one))
			if err := core.PublishFile(ctx, ob, name); err != nil {
				m.bad("downloadfile/error", "ok", err.Error(), fmt.Sprintf("bundle %d file %s", id, name))
			} else if gb, rerr := ioutil.ReadFile(filepath.Join(one, filepath.FromSlash(name))); rerr != nil || !bytes.Equal(gb, exp[name]) {
				m.bad("downloadfile/wrong-bytes", len(exp[name]), len(gb), fmt.Sprintf("bundle %d file %s", id, name))
			} else {
				// exactly the selected file: nothing else of the bundle
				of, _ := readDir(one)
				for p := range of {
					if p != name {
						m.bad("downloadfile/extra-file", name, p, fmt.Sprintf("bundle %d: single-file download of %s also wrote %s", id, name, p))
						break
					}
				}
			}
			_ = os.RemoveAll(one)
		}
	}
}

func btoi(b bool) int {
	if b {
		return 1
	}
	return 0
}

// readDir returns the data files and the .datamon metadata files of a directory.
func readDir(dir string) (files, metaFiles map[string][]byte) {
	files, metaFiles = map[string][]byte{}, map[string][]byte{}
	_ = filepath.Walk(dir, func(p string, info os.FileInfo, err error) error {
		if err != nil || info.IsDir() {
			return nil
		}
		rel, _ := filepath.Rel(dir, p)
		rel = filepath.ToSlash(rel)
		b, _ := ioutil.ReadFile(p)
		switch {
		case strings.HasPrefix(rel, ".datamon/"):
			metaFiles[rel] = b
		case strings.HasPrefix(rel, "bulk/"):
			// filler files are compared by count in the projection only
		default:
			files[rel] = b
		}
		return nil
	})
	return
}

// update downloads bundle a, updates the directory in place to bundle b and
// compares it with a fresh download of b (data and metadata).
func (m *metaRun) update(stores context2.Stores, st metaStep) {
	e := m.e
	ctx := context.Background()
	repo := m.repoOf(st.A)
	dir := e.scratch("upd")
	if sd, ok := m.stash[st.A]; ok && st.Stale {
		// the local copy was downloaded when #A was uploaded; its metadata may have been rewritten since
		if err := copyTreeAll(sd, dir); err != nil {
			panic(err)
		}
	} else {
		ba := e.newBundle(stores, repo, e.ksuidFor(st.A), localStore(dir))
		if err := core.Publish(ctx, ba); err != nil {
			m.bad("update/download-error", "ok", err.Error(), "")
			return
		}
	}
	local := core.NewBundle(core.ConsumableStore(localStore(dir)), core.Logger(zap.NewNop()))
	remote := e.newBundle(stores, repo, e.ksuidFor(st.B), nil)
	if err := core.Update(ctx, remote, local); err != nil {
		m.bad("update/error", "ok", err.Error(), fmt.Sprintf("#%d -> #%d", st.A, st.B))
		return
	}
	fresh := e.scratch("fresh")
	bb := e.newBundle(stores, repo, e.ksuidFor(st.B), localStore(fresh))
	if err := core.Publish(ctx, bb); err != nil {
		m.bad("update/download-error", "ok", err.Error(), "")
		return
	}
	gotF, gotM := readDir(dir)
	expF, expM := readDir(fresh)
	what := fmt.Sprintf("update #%d -> #%d", st.A, st.B)
	for p, eb := range expF {
		gb, ok := gotF[p]
		if !ok {
			m.bad("update/missing-file", p, nil, what)
		} else if !bytes.Equal(gb, eb) {
			m.bad("update/stale-bytes", len(eb), len(gb), what+" "+p)
		}
	}
	for p := range gotF {
		if _, ok := expF[p]; !ok {
			m.bad("update/file-not-removed", nil, p, what)
		}
	}
	for p, eb := range expM {
		if gb, ok := gotM[p]; !ok || !bytes.Equal(gb, eb) {
			m.bad("update/metadata-missing", p, ok, what)
		}
	}
	for p := range gotM {
		if _, ok := expM[p]; !ok {
			m.bad("update/stale-metadata", nil, p, what)
		}
	}
	// and against the specification's tree of b
	for _, f := range st.Files {
		if gb, ok := gotF[f.P]; !ok || !bytes.Equal(gb, e.contentBytes(f.C)) {
			m.bad("update/wrong-content", f.P, ok, what)
		}
	}
	if len(gotF) != len(st.Files) {
		m.bad("update/file-count", len(st.Files), len(gotF), what)
	}
	_ = os.RemoveAll(dir)
	_ = os.RemoveAll(fresh)
}

// ---------------------------------------------------------------- projection

type realBundle struct {
	repo  string
	desc  *model.BundleDescriptor
	index map[int][]model.BundleEntry
}

func (m *metaRun) project() (repos []string, bundles map[string]map[string]*realBundle, labels []postLabel, junk []string) {
	meta := m.e.w.Snapshot("meta")
	vmeta := m.e.w.Snapshot("vmeta")
	bundles = map[string]map[string]*realBundle{} // id -> repo -> bundle
	for k, data := range meta {
		apc, err := model.GetArchivePathComponents(k)
		if err != nil {
			junk = append(junk, k)
			continue
		}
		switch {
		case strings.HasPrefix(k, "repos/"):
			repos = append(repos, apc.Repo)
		case strings.HasPrefix(k, "bundles/"):
			if bundles[apc.BundleID] == nil {
				bundles[apc.BundleID] = map[string]*realBundle{}
			}
			rb := bundles[apc.BundleID][apc.Repo]
			if rb == nil {
				rb = &realBundle{repo: apc.Repo, index: map[int][]model.BundleEntry{}}
				bundles[apc.BundleID][apc.Repo] = rb
			}
			if apc.ArchiveFileName == "bundle.yaml" {
				var bd model.BundleDescriptor
				if err := yaml.Unmarshal(data, &bd); err != nil {
					junk = append(junk, k)
					continue
				}
				rb.desc = &bd
			} else {
				var n int
				if _, err := fmt.Sscanf(apc.ArchiveFileName, "bundle-files-%d.yaml", &n); err != nil {
					junk = append(junk, k)
					continue
				}
				var be model.BundleEntries
				if err := yaml.Unmarshal(data, &be); err != nil {
					junk = append(junk, k)
					continue
				}
				rb.index[n] = be.BundleEntries
			}
		default:
			junk = append(junk, k)
		}
	}
	for k, data := range vmeta {
		apc, err := model.GetArchivePathComponents(k)
		if err != nil || !strings.HasPrefix(k, "labels/") {
			junk = append(junk, "vmeta:"+k)
			continue
		}
		var ld model.LabelDescriptor
		if err := yaml.Unmarshal(data, &ld); err != nil {
			junk = append(junk, "vmeta:"+k)
			continue
		}
		labels = append(labels, postLabel{Repo: apc.Repo, Name: apc.LabelName, Bundle: m.e.rev[ld.BundleID]})
		if ld.Name != apc.LabelName {
			m.bad("project/label-name", apc.LabelName, ld.Name, k)
		}
	}
	sort.Strings(repos)
	return
}

func (m *metaRun) compare(st metaStep) {
	post := st.Post
	repos, bundles, labels, junk := m.project()
	for _, j := range junk {
		m.bad("project/unknown-object", nil, j, "")
	}
	if !vutil.EqStrings(repos, sortedStrings(post.Repos)) {
		m.bad("project/repos", sortedStrings(post.Repos), repos, "")
	}
	known := map[string]bool{}
	for _, pb := range post.Bundles {
		id := m.e.ksuidFor(pb.ID)
		known[id] = true
		real := bundles[id]
		what := fmt.Sprintf("bundle %d (%s)", pb.ID, pb.Repo)
		for repo, rb := range real {
			if repo != pb.Repo && (rb.desc != nil || len(rb.index) > 0) {
				if m.anyFate[pb.ID] {
					continue
				}
				m.bad("project/bundle-in-other-repo", pb.Repo, repo, what)
			}
		}
		rb := real[pb.Repo]
		if rb == nil {
			rb = &realBundle{index: map[int][]model.BundleEntry{}}
		}
		if pb.Desc {
			if rb.desc == nil {
				m.bad("project/descriptor-missing", true, false, what)
				continue
			}
			nfiles := len(pb.Tree) + pb.Bulk
			if rb.desc.ID != id {
				m.bad("project/descriptor-id", id, rb.desc.ID, what)
			}
			// index files exactly 0..count-1
			cnt := int(rb.desc.BundleEntriesFileCount)
			for i := 0; i < cnt; i++ {
				if _, ok := rb.index[i]; !ok {
					m.bad("project/index-file-missing", i, nil, what)
				}
			}
			for i := range rb.index {
				if i >= cnt {
					m.bad("project/index-file-extra", nil, i, what)
				}
			}
			if !m.modified[pb.ID] && cnt != (nfiles+999)/1000 {
				m.bad("project/index-count", (nfiles+999)/1000, cnt, what)
			}
			// entries = tree, one to one
			seen := map[string]int{}
			for i, ents := range rb.index {
				if !m.modified[pb.ID] && i < cnt-1 && len(ents) != 1000 {
					m.bad("project/index-file-size", 1000, len(ents), fmt.Sprintf("%s index %d", what, i))
				}
				if len(ents) > 1000 {
					m.bad("project/index-file-size", 1000, len(ents), fmt.Sprintf("%s index %d", what, i))
				}
				for _, en := range ents {
					seen[en.NameWithPath]++
				}
			}
			expNames := map[string]treeEntry{}
			for _, t := range pb.Tree {
				expNames[t.P] = t
			}
			nb := 0
			for name, c := range seen {
				if c > 1 {
					m.bad("project/entry-duplicate", 1, c, what+" "+name)
				}
				if strings.HasPrefix(name, "bulk/") {
					nb++
					continue
				}
				if _, ok := expNames[name]; !ok {
					m.bad("project/entry-extra", nil, name, what)
				}
			}
			if nb != pb.Bulk {
				m.bad("project/bulk-entries", pb.Bulk, nb, what)
			}
			for name, t := range expNames {
				if seen[name] == 0 {
					m.bad("project/entry-missing", name, nil, what)
					continue
				}
				for _, ents := range rb.index {
					for _, en := range ents {
						if en.NameWithPath == name {
							if en.Size != uint64(len(m.e.contentBytes(t.C))) {
								m.bad("project/entry-size", len(m.e.contentBytes(t.C)), en.Size, what+" "+name)
							}
							if en.Hash != m.e.contentKey(t.C) {
								m.bad("project/entry-hash", m.e.contentKey(t.C)[:12], en.Hash, what+" "+name)
							}
						}
					}
				}
			}
		} else {
			if m.anyFate[pb.ID] {
				if rb.desc != nil {
					m.bad("project/descriptor-unexpected", false, true, what)
				}
				continue
			}
			if rb.desc != nil {
				m.bad("project/descriptor-unexpected", false, true, what)
			}
			if len(rb.index) != pb.Idx {
				m.bad("project/leftover-index-files", pb.Idx, len(rb.index), what)
			}
		}
	}
	for id := range bundles {
		if !known[id] {
			m.bad("project/unknown-bundle", nil, id, "")
		}
	}
	// labels
	key := func(l postLabel) string { return fmt.Sprintf("%s/%s=%d", l.Repo, l.Name, l.Bundle) }
	var exp, got []string
	for _, l := range post.Labels {
		exp = append(exp, key(l))
	}
	for _, l := range labels {
		got = append(got, key(l))
	}
	sort.Strings(exp)
	sort.Strings(got)
	if !vutil.EqStrings(exp, got) {
		m.bad("project/labels", exp, got, "")
	}
}

// observe compares the API-level observations with the specification's operators.
func (m *metaRun) observe(st metaStep) {
	e := m.e
	post := st.Post
	stores, _ := e.client()
	ctx := context.Background()
	// repos
	rds, err := core.ListRepos(stores, e.listOpts()...)
	if err != nil {
		m.bad("obs/listrepos-error", "ok", err.Error(), "")
	} else {
		var got []string
		for _, rd := range rds {
			got = append(got, rd.Name)
		}
		if got == nil {
			got = []string{}
		}
		if m.strictOrder {
			byKey := append([]string{}, got...)
			sort.Slice(byKey, func(i, j int) bool { return byKey[i]+"/" < byKey[j]+"/" })
			if !vutil.EqStrings(got, sortedStrings(got)) && !vutil.EqStrings(got, byKey) {
				m.bad("obs/listrepos/order", "name order or key order", got, "")
			}
		}
		got = sortedStrings(got)
		if !vutil.EqStrings(got, sortedStrings(post.Obs.Repos)) {
			m.bad(classifySeq("obs/listrepos", sortedStrings(post.Obs.Repos), got), sortedStrings(post.Obs.Repos), got, "")
		}
	}
	for _, l := range post.Obs.List {
		bds, err := core.ListBundles(l.Repo, stores, e.listOpts()...)
		if err != nil {
			m.bad("obs/listbundles-error", "ok", err.Error(), l.Repo)
			continue
		}
		var got []int
		for _, bd := range bds {
			got = append(got, e.rev[bd.ID])
		}
		expIDs := append([]int{}, l.IDs...)
		sort.Ints(expIDs)
		if !m.strictOrder {
			sort.Ints(got)
		}
		if !eqInts(got, expIDs) {
			m.bad(classifyInts("obs/listbundles", expIDs, got), expIDs, got, l.Repo)
		}
		// Exists(id) is true exactly for the visible bundles (leftovers of interrupted uploads are not bundles)
		for _, pb := range post.Bundles {
			if pb.Repo != l.Repo || (pb.Idx == 0 && !pb.Desc) {
				continue
			}
			ex, err := e.newReaderBundle(stores, l.Repo, e.ksuidFor(pb.ID), nil).Exists(ctx)
			if err != nil {
				m.bad("obs/exists-error", pb.Desc, err.Error(), fmt.Sprintf("bundle %d", pb.ID))
			} else if ex != pb.Desc {
				m.bad(fmt.Sprintf("obs/exists-wrong/visible=%v", pb.Desc), pb.Desc, ex, fmt.Sprintf("bundle %d (%d index files stored)", pb.ID, pb.Idx))
			}
		}
		// the minimal listing (ids only; the one squash uses) lists the same bundles
		if mds, err := core.ListBundles(l.Repo, stores, append(e.listOpts(), core.WithMinimalBundle(true))...); err != nil {
			m.bad("obs/listbundles-minimal-error", "ok", err.Error(), l.Repo)
		} else {
			var mgot []int
			for _, bd := range mds {
				mgot = append(mgot, e.rev[bd.ID])
			}
			sort.Ints(mgot)
			sexp := append([]int{}, expIDs...)
			if !eqInts(mgot, sexp) {
				m.bad(classifyInts("obs/listbundles-minimal", sexp, mgot), sexp, mgot, l.Repo)
			}
		}
		// every listed bundle can be read: entries through the API
		if m.deep {
			for _, bd := range bds {
				id := e.rev[bd.ID]
				var pb *postBundle
				for i := range post.Bundles {
					if post.Bundles[i].ID == id {
						pb = &post.Bundles[i]
					}
				}
				if pb == nil || !pb.Desc {
					continue
				}
				b := e.newBundle(stores, l.Repo, bd.ID, nil)
				if err := core.DownloadMetadata(ctx, b); err != nil {
					m.bad("obs/metadata-error", "ok", err.Error(), fmt.Sprintf("bundle %d", id))
					continue
				}
				names := map[string]int{}
				for _, en := range b.GetBundleEntries() {
					if !strings.HasPrefix(en.NameWithPath, "bulk/") {
						names[en.NameWithPath]++
					}
				}
				if len(names) != len(pb.Tree) {
					m.bad("obs/metadata-entries", len(pb.Tree), len(names), fmt.Sprintf("bundle %d", id))
				}
				for _, t := range pb.Tree {
					if names[t.P] != 1 {
						m.bad("obs/metadata-entries", 1, names[t.P], fmt.Sprintf("bundle %d path %s", id, t.P))
					}
				}
			}
		}
	}
	for _, l := range post.Obs.Latest {
		id, err := core.GetLatestBundle(l.Repo, stores)
		got := 0
		if err == nil {
			got = e.rev[id]
			if got == 0 {
				got = -1
			}
		}
		if got != l.ID {
			sig := "obs/latest-wrong"
			for _, pb := range post.Bundles {
				if pb.ID == got && !pb.Desc {
					sig = "obs/latest-is-invisible-bundle"
				}
			}
			m.bad(sig, l.ID, got, fmt.Sprintf("repo %s (%v)", l.Repo, err))
		}
	}
	if m.applyToo {
		m.observeApply(stores, post)
	}
	// labels
	byRepo := map[string][]postLabel{}
	for _, l := range post.Labels {
		byRepo[l.Repo] = append(byRepo[l.Repo], l)
	}
	for _, repo := range post.Repos {
		lds, err := core.ListLabels(repo, stores, e.listOpts()...)
		if err != nil {
			m.bad("obs/listlabels-error", "ok", err.Error(), repo)
			continue
		}
		var got, exp []string
		for i, ld := range lds {
			got = append(got, fmt.Sprintf("%s=%d", ld.Name, e.rev[ld.BundleID]))
			if m.strictOrder && i > 0 && lds[i-1].Name > ld.Name {
				m.bad("obs/listlabels/order", "labels in the order of their keys (by name)", []string{lds[i-1].Name, ld.Name}, repo)
			}
		}
		for _, l := range byRepo[repo] {
			exp = append(exp, fmt.Sprintf("%s=%d", l.Name, l.Bundle))
		}
		sort.Strings(got)
		sort.Strings(exp)
		if !vutil.EqStrings(got, exp) {
			m.bad("obs/listlabels", exp, got, repo)
		}
		for _, l := range byRepo[repo] {
			lab := core.NewLabel(core.LabelDescriptor(model.NewLabelDescriptor(model.LabelName(l.Name))))
			b := e.newBundle(stores, repo, "", nil)
			if err := lab.DownloadDescriptor(ctx, b, true); err != nil {
				m.bad("obs/getlabel-error", l.Bundle, err.Error(), repo+"/"+l.Name)
			} else if e.rev[lab.Descriptor.BundleID] != l.Bundle {
				m.bad("obs/getlabel", l.Bundle, e.rev[lab.Descriptor.BundleID], repo+"/"+l.Name)
			}
		}
	}
}

// observeApply lists through the streaming *Apply variants with a slow consumer
// and compares with the specification's operators (as sets) and page by page order.
func (m *metaRun) observeApply(stores context2.Stores, post postState) {
	e := m.e
	slow := func() { time.Sleep(300 * time.Microsecond) }
	var repos []string
	if err := core.ListReposApply(stores, func(rd model.RepoDescriptor) error { slow(); repos = append(repos, rd.Name); return nil }, e.listOpts()...); err != nil {
		m.bad("obs/listrepos-apply-error", "ok", err.Error(), "")
	} else if !vutil.EqStrings(sortedStrings(repos), sortedStrings(post.Obs.Repos)) {
		m.bad(classifySeq("obs/listrepos-apply", sortedStrings(post.Obs.Repos), sortedStrings(repos)), post.Obs.Repos, repos, "")
	}
	for _, l := range post.Obs.List {
		var got []int
		err := core.ListBundlesApply(l.Repo, stores, func(bd model.BundleDescriptor) error { slow(); got = append(got, e.rev[bd.ID]); return nil }, e.listOpts()...)
		if err != nil {
			m.bad("obs/listbundles-apply-error", "ok", err.Error(), l.Repo)
			continue
		}
		exp := append([]int{}, l.IDs...)
		sort.Ints(exp)
		sort.Ints(got)
		if !eqInts(got, exp) {
			m.bad(classifyInts("obs/listbundles-apply", exp, got), exp, got, l.Repo)
		}
	}
	byRepo := map[string][]string{}
	for _, l := range post.Labels {
		byRepo[l.Repo] = append(byRepo[l.Repo], fmt.Sprintf("%s=%d", l.Name, l.Bundle))
	}
	for _, repo := range post.Repos {
		var got []string
		err := core.ListLabelsApply(repo, stores, func(ld model.LabelDescriptor) error {
			slow()
			got = append(got, fmt.Sprintf("%s=%d", ld.Name, e.rev[ld.BundleID]))
			return nil
		}, e.listOpts()...)
		if err != nil {
			m.bad("obs/listlabels-apply-error", "ok", err.Error(), repo)
			continue
		}
		exp := sortedStrings(byRepo[repo])
		if !vutil.EqStrings(sortedStrings(got), exp) {
			m.bad(classifySeq("obs/listlabels-apply", exp, sortedStrings(got)), exp, got, repo)
		}
	}
}

func eqInts(a, b []int) bool {
	if len(a) != len(b) {
		return false
	}
	for i := range a {
		if a[i] != b[i] {
			return false
		}
	}
	return true
}

func classifyInts(prefix string, exp, got []int) string {
	e := make([]string, len(exp))
	g := make([]string, len(got))
	for i, v := range exp {
		e[i] = fmt.Sprint(v)
	}
	for i, v := range got {
		g[i] = fmt.Sprint(v)
	}
	return classifySeq(prefix, e, g)
}

// classifySeq names how a listing differs: missing / extra / duplicate / order.
func classifySeq(prefix string, exp, got []string) string {
	es, gs := map[string]int{}, map[string]int{}
	for _, v := range exp {
		es[v]++
	}
	dup := false
	for _, v := range got {
		gs[v]++
		if gs[v] > 1 {
			dup = true
		}
	}
	missing, extra := false, false
	for v := range es {
		if gs[v] == 0 {
			missing = true
		}
	}
	for v := range gs {
		if es[v] == 0 {
			extra = true
		}
	}
	switch {
	case dup:
		return prefix + "/duplicate"
	case missing && extra:
		return prefix + "/wrong-items"
	case missing:
		return prefix + "/missing"
	case extra:
		return prefix + "/extra"
	default:
		return prefix + "/order"
	}
}

func metaReplay(args []string) error {
	fl := flag.NewFlagSet("meta", flag.ExitOnError)
	in := fl.String("in", "", "behaviours (NDJSON)")
	out := fl.String("out", "", "result JSON")
	lambda := fl.Int("leaf", 64, "leaf size")
	crc := fl.Bool("crc", false, "CRC-capable stores")
	work := fl.String("work", "", "scratch directory")
	seed := fl.Uint64("seed", 1, "seed")
	conc := fl.Int("conc", 4, "upload/download concurrency")
	batch := fl.Int("batch", 0, "listing batch size (0 = default)")
	listConc := fl.Int("list-conc", 0, "listing concurrency")
	deep := fl.Bool("deep", true, "download metadata of every listed bundle after every step")
	finalDownload := fl.Bool("final-download", true, "download every visible bundle at the end")
	strictOrder := fl.Bool("strict-order", false, "listing order is part of the verdict")
	applyToo := fl.Bool("apply", false, "also list through the streaming Apply variants with a slow consumer")
	useStash := fl.Bool("stash", false, "keep a local copy of every uploaded bundle; stale updates start from it")
	_ = fl.Parse(args)
	res := vutil.NewResult("meta")
	run := func(i int, line []byte, r *vutil.BehResult) {
		var steps []metaStep
		if err := json.Unmarshal(line, &steps); err != nil {
			panic(err)
		}
		if i < 2 {
			r.Sample = compactSteps(steps)
		}
		wdir := filepath.Join(*work, fmt.Sprintf("b%d", i))
		defer os.RemoveAll(wdir)
		e := newMetaEnv(wdir, *lambda, *seed, *crc)
		e.conc, e.batch, e.listConc = *conc, *batch, *listConc
		m := &metaRun{e: e, r: r, line: line, anyFate: map[int]bool{}, modified: map[int]bool{}, deep: *deep, strictOrder: *strictOrder, applyToo: *applyToo,
			stash: map[int]string{}, useStash: *useStash}
		muts := 0
		for j, st := range steps {
			m.stepIdx, m.op = j, st.Op
			stc := st
			curPost = &stc.Post
			if j > 0 {
				// ops refer to the state before the step for repo lookup of bundles
				prev := steps[j-1].Post
				curPost = &prev
			}
			r.Steps++
			if vutil.Guard(r, j, st.Op, nil, func() { m.doStep(stc) }) {
				return
			}
			curPost = &stc.Post
			if st.Op != "diff" && st.Op != "download" && st.Op != "update" {
				muts++
				if vutil.Guard(r, j, st.Op+"/compare", nil, func() { m.compare(stc); m.observe(stc) }) {
					return
				}
			}
		}
		if *finalDownload && len(steps) > 0 {
			last := steps[len(steps)-1]
			m.stepIdx, m.op = len(steps), "final-download"
			stores, _ := e.client()
			for _, pb := range last.Post.Bundles {
				if !pb.Desc {
					continue
				}
				inRepo := false
				for _, rr := range last.Post.Repos {
					if rr == pb.Repo {
						inRepo = true
					}
				}
				if !inRepo {
					continue
				}
				pbc := pb
				vutil.Guard(r, len(steps), "final-download", nil, func() { m.download(stores, pbc.ID, nil, pbc.Tree, false) })
				r.Steps++
			}
		}
		r.Nontrivial = muts >= 3
	}
	if err := vutil.Isolated("meta", *in, res, run, 300*time.Second); err != nil {
		return err
	}
	if os.Getenv("VH_CHILD") != "" {
		return nil
	}
	res.Extra["lambda"] = *lambda
	return res.Write(*out)
}

func compactSteps(steps []metaStep) interface{} {
	var out []string
	for _, s := range steps {
		switch s.Op {
		case "uploadfault":
			out = append(out, fmt.Sprintf("uploadfault(%s,#%d,bulk=%d,failing-write=%d)", s.Repo, s.ID, s.Bulk, s.Fail))
		case "uploadkeys":
			out = append(out, fmt.Sprintf("uploadkeys(%s,#%d,keys=%v,skip=%v)=%s", s.Repo, s.ID, s.Keys, s.Skip, s.Res))
		case "update":
			out = append(out, fmt.Sprintf("update(#%d->#%d,stale=%v)", s.A, s.B, s.Stale))
		case "reupload":
			out = append(out, fmt.Sprintf("reupload(%s,#%d,%s)", s.Repo, s.Bundle, s.Mode))
		case "upload", "uploadcrash", "uploadrace":
			var names []string
			for _, t := range s.Tree {
				names = append(names, t.P+":"+t.C)
			}
			out = append(out, fmt.Sprintf("%s(%s,#%d,{%s},bulk=%d,after=%d)", s.Op, s.Repo, s.ID, strings.Join(names, " "), s.Bulk, s.After))
		case "setlabelcrash":
			out = append(out, fmt.Sprintf("setlabelcrash(%s,%s,#%d,after=%d)", s.Repo, s.Name, s.Bundle, s.After))
		case "setlabel":
			out = append(out, fmt.Sprintf("setlabel(%s,%s,#%d)", s.Repo, s.Name, s.Bundle))
		case "squash":
			out = append(out, fmt.Sprintf("squash(%s,n=%d,%s)", s.Repo, s.N, s.Mode))
		case "renamerepo":
			out = append(out, fmt.Sprintf("rename(%s->%s)", s.Repo, s.New))
		case "diff":
			out = append(out, fmt.Sprintf("diff(#%d,#%d)", s.A, s.B))
		case "download":
			out = append(out, fmt.Sprintf("download(#%d,%v)", s.Bundle, s.Select))
		case "deleteentries":
			out = append(out, fmt.Sprintf("deleteentries(%s,%v)", s.Repo, s.Paths))
		default:
			out = append(out, fmt.Sprintf("%s(%s%s#%d)", s.Op, s.Repo, s.Name, s.Bundle))
		}
	}
	return out
}

var _ = cafs.KeySize

// copyTreeAll copies a directory tree (files and directories) from src to dst.
func copyTreeAll(src, dst string) error {
	return filepath.Walk(src, func(p string, info os.FileInfo, err error) error {
		if err != nil {
			return err
		}
		rel, err := filepath.Rel(src, p)
		if err != nil {
			return err
		}
		target := filepath.Join(dst, rel)
		if info.IsDir() {
			return os.MkdirAll(target, 0700)
		}
		data, err := ioutil.ReadFile(p)
		if err != nil {
			return err
		}
		return ioutil.WriteFile(target, data, 0600)
	})
}
