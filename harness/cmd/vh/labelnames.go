package main

import (
	"context"
	"encoding/json"
	"flag"
	"fmt"
	"os"
	"path/filepath"
	"sort"
	"strings"
	"time"
	"unicode"

	"github.com/oneconcern/datamon/pkg/core"
	"github.com/oneconcern/datamon/pkg/model"
	"go.uber.org/zap"

	"verif/harness/vutil"
)

// Replay of Gen_LabelNames.tla cases (C08: any accepted label name can be listed and resolved; prefix listings).
// The implementation decides whether a name is accepted; GetFound / ListOp / ListPrefixOp of LabelNames.tla are
// evaluated on the accepted set and compared with what core reports.

func init() { subcmds["labelnames"] = labelNamesReplay }

type lnName struct {
	N   []string `json:"n"`
	Doc bool     `json:"doc"`
}

type lnCase struct {
	Names []lnName `json:"names"`
}

// lnClass names what makes a name unusual (for signatures).
func lnClass(n string) string {
	switch {
	case strings.Contains(n, "/"):
		return "slash"
	case n == "." || n == "..":
		return "dot-names"
	case strings.HasPrefix(n, "."):
		return "leading-dot"
	case strings.Contains(n, " "):
		return "space"
	case strings.Contains(n, "%"):
		return "percent"
	case strings.ContainsAny(n, "#?"):
		return "url-delimiter"
	case strings.ContainsAny(n, ":+"):
		return "punctuation"
	case strings.HasSuffix(n, ".yaml"):
		return "yaml-suffix"
	}
	for _, c := range n {
		if c > unicode.MaxASCII {
			return "unicode"
		}
	}
	if strings.Contains(n, ".") {
		return "dotted"
	}
	return "plain"
}

func labelNamesReplay(args []string) error {
	fl := flag.NewFlagSet("labelnames", flag.ExitOnError)
	in := fl.String("in", "", "cases (NDJSON)")
	out := fl.String("out", "", "result JSON")
	work := fl.String("work", "", "scratch directory")
	seed := fl.Uint64("seed", 1, "seed")
	crc := fl.Bool("crc", false, "CRC-capable stores")
	batch := fl.Int("batch", 0, "listing page size (0: default)")
	_ = fl.Parse(args)
	res := vutil.NewResult("labelnames")
	ctx := context.Background()
	run := func(i int, line []byte, r *vutil.BehResult) {
		var c lnCase
		if err := json.Unmarshal(line, &c); err != nil {
			panic(err)
		}
		if i < 2 {
			r.Sample = json.RawMessage(line)
		}
		wdir := filepath.Join(*work, fmt.Sprintf("ln%d", i))
		defer os.RemoveAll(wdir)
		e := newMetaEnv(wdir, 64, *seed, *crc)
		e.batch = *batch
		stores, _ := e.client()
		var names []string
		for _, n := range c.Names {
			names = append(names, strings.Join(n.N, ""))
		}
		replay := json.RawMessage(mustJSON(map[string]interface{}{"names": names, "batch": *batch}))
		bad := func(sig string, exp, got interface{}, detail string) {
			r.Mismatches = append(r.Mismatches, vutil.Mismatch{Beh: i, Op: "labelnames", Sig: sig, Expected: exp, Got: got, Detail: detail, Replay: replay})
		}
		mkRepo := func(name string) {
			if err := core.CreateRepo(model.RepoDescriptor{Name: name, Description: "d", Timestamp: time.Now(), Contributor: contributor()}, stores); err != nil {
				panic(err)
			}
		}
		mkRepo("r1")
		mkRepo("r1-x")
		up := func(repo string, id int) string {
			src, _ := e.writeTree([]treeEntry{{P: "a", C: "s"}}, 0)
			b := e.newBundle(stores, repo, e.ksuidFor(id), src)
			if err := core.Upload(ctx, b); err != nil {
				panic(err)
			}
			return b.BundleID
		}
		b1, b2 := up("r1", 1), up("r1-x", 2)
		set := func(repo, bid, name string) error {
			l := core.NewLabel(core.LabelDescriptor(model.NewLabelDescriptor(model.LabelName(name), model.LabelContributor(contributor()))))
			return l.UploadDescriptor(ctx, e.newBundle(stores, repo, bid, nil))
		}
		// the neighbour repository holds a label of its own and the first name of the case
		if err := set("r1-x", b2, "other"); err != nil {
			panic(err)
		}
		neighbour := map[string]bool{"other": true}
		if len(names) > 0 && set("r1-x", b2, names[0]) == nil {
			neighbour[names[0]] = true
		}
		accepted := map[string]bool{}
		vutil.Guard(r, 0, "set", replay, func() {
			for k, n := range names {
				r.Steps++
				err := set("r1", b1, n)
				if err != nil {
					if c.Names[k].Doc {
						bad("labelnames/documented-name-refused/"+lnClass(n), "accepted", err.Error(), fmt.Sprintf("name %q", n))
					}
					continue
				}
				accepted[n] = true
			}
		})
		list := func(repo string, opts ...core.Option) ([]string, error) {
			lds, err := core.ListLabels(repo, stores, append(e.listOpts(), opts...)...)
			if err != nil {
				return nil, err
			}
			var got []string
			for _, ld := range lds {
				got = append(got, ld.Name)
			}
			sort.Strings(got)
			return got, nil
		}
		setOf := func(m map[string]bool, keep func(string) bool) []string {
			out := []string{}
			for n := range m {
				if keep == nil || keep(n) {
					out = append(out, n)
				}
			}
			sort.Strings(out)
			return out
		}
		worst := "plain"
		for n := range accepted {
			if cl := lnClass(n); cl != "plain" && cl != "dotted" {
				worst = cl
			}
		}
		compare := func(what string, exp []string, got []string, err error) {
			r.Steps++
			if err != nil {
				bad("labelnames/"+what+"-error/"+worst, exp, err.Error(), fmt.Sprintf("accepted names %q", setOf(accepted, nil)))
				return
			}
			if got == nil {
				got = []string{}
			}
			if !vutil.EqStrings(exp, got) {
				bad("labelnames/"+what+"-wrong/"+worst, exp, got, fmt.Sprintf("accepted names %q", setOf(accepted, nil)))
			}
		}
		check := func(stage string) {
			vutil.Guard(r, 1, "observe", replay, func() {
				// GetFound
				for n := range accepted {
					r.Steps++
					l := core.NewLabel(core.LabelDescriptor(model.NewLabelDescriptor(model.LabelName(n))))
					if err := l.DownloadDescriptor(ctx, e.newBundle(stores, "r1", "", nil), true); err != nil {
						bad("labelnames/accepted-name-not-resolvable/"+lnClass(n), b1, err.Error(), fmt.Sprintf("%s: name %q", stage, n))
					} else if l.Descriptor.BundleID != b1 {
						bad("labelnames/accepted-name-resolves-elsewhere/"+lnClass(n), b1, l.Descriptor.BundleID, fmt.Sprintf("%s: name %q", stage, n))
					}
				}
				// ListOp
				got, err := list("r1")
				compare(stage+"list", setOf(accepted, nil), got, err)
				// ListPrefixOp for every prefix of every accepted name, and one prefix of nothing
				prefixes := map[string]bool{"zz": true}
				for n := range accepted {
					rs := []rune(n)
					for k := 1; k <= len(rs); k++ {
						prefixes[string(rs[:k])] = true
					}
				}
				for p := range prefixes {
					p := p
					got, err := list("r1", core.WithLabelPrefix(p))
					compare(stage+"prefix-list", setOf(accepted, func(n string) bool { return strings.HasPrefix(n, p) }), got, err)
				}
				// the neighbour repository is untouched
				got, err = list("r1-x")
				compare(stage+"neighbour-list", setOf(neighbour, nil), got, err)
			})
		}
		check("")
		// deleting one accepted label removes it and nothing else
		if acc := setOf(accepted, nil); len(acc) > 0 {
			victim := acc[int(*seed+uint64(i))%len(acc)]
			vutil.Guard(r, 2, "delete", replay, func() {
				r.Steps++
				if err := core.DeleteLabel("r1", stores, victim); err != nil {
					bad("labelnames/delete-error/"+lnClass(victim), "ok", err.Error(), fmt.Sprintf("name %q", victim))
					return
				}
				delete(accepted, victim)
				check("after-delete-")
			})
		}
		r.Nontrivial = len(names) >= 2
	}
	if err := vutil.Isolated("labelnames", *in, res, run, 60*time.Second); err != nil {
		return err
	}
	if os.Getenv("VH_CHILD") != "" {
		return nil
	}
	return res.Write(*out)
}

var _ = zap.NewNop
