package main

import (
	"bytes"
	"context"
	"encoding/json"
	"flag"
	"fmt"
	"io/ioutil"
	"os"
	"path/filepath"
	"runtime/debug"
	"sort"
	"strings"
	"syscall"
	"time"

	"github.com/jacobsa/fuse/fuseops"
	"github.com/jacobsa/fuse/fuseutil"
	"github.com/oneconcern/datamon/pkg/core"
	dfuse "github.com/oneconcern/datamon/pkg/fuse"
	"github.com/oneconcern/datamon/pkg/model"
	"go.uber.org/zap"

	"verif/harness/vutil"
)

// C18: replay of Gen_FuseRW behaviours (operation programs) on the real mutable
// mount, without a kernel: fuse.NewMutableFS on a scratch staging directory,
// operations through the fuseutil.FileSystem interface (pkg/fuse export hook).
//
// After every operation
//   - the outcome ("ok" or the errno) must be in the step's Allowed set;
//   - an entry reply (create, mkdir, lookup) must carry an inode number that
//     differs from the number the kernel holds for every other live entry, that
//     equals the number the kernel already holds for this node (if it holds
//     one), and attributes of the right type and size;
//   - every inode the kernel holds must answer GetInodeAttributes with the
//     type and size the specification's post tree gives it; written or
//     truncated files are read back.
//
// At the end the mount is committed, the bundle downloaded into a fresh
// directory and compared with the files of the last post tree (CommitOp).
//
// A behaviour stops at its first mismatch that leaves the real state and the
// specification's state apart (everything except a wrong errno of a failing
// call). Fatal runtime errors kill the child process: vutil.Isolated reports
// them as "fatal/<frame>".
func init() {
	subcmds["fuserw"] = fuserwReplay
}

type fwNode struct {
	N int    `json:"n"`
	K string `json:"k"` // "dir" | "file"
	L bool   `json:"l"` // linked (in the tree); false: orphan still held by the kernel
	P string `json:"p"` // path below the root
	D []int  `json:"d"` // content cells: id of the write that stored the cell, 0 = zero bytes
	C int    `json:"c"` // kernel lookup count
}

type fwStep struct {
	O    string   `json:"o"`
	P    int      `json:"p"`
	A    string   `json:"a"`
	Q    int      `json:"q"`
	B    string   `json:"b"`
	N    int      `json:"n"`
	X    int      `json:"x"`
	Y    int      `json:"y"`
	Cls  string   `json:"cls"`
	Al   []string `json:"al"`
	R    int      `json:"r"`
	Post []fwNode `json:"post"`
}

func (s fwStep) String() string {
	switch s.O {
	case "rename":
		return fmt.Sprintf("rename(n%d/%s -> n%d/%s)", s.P, s.A, s.Q, s.B)
	case "write":
		return fmt.Sprintf("write(n%d, off=%d, len=%d)", s.N, s.X, s.Y)
	case "setsize":
		return fmt.Sprintf("setsize(n%d, %d)", s.N, s.X)
	case "forget":
		return fmt.Sprintf("forget(n%d, N=%d)", s.N, s.X)
	default:
		if s.R >= 0 {
			return fmt.Sprintf("%s(n%d/%s) = n%d", s.O, s.P, s.A, s.R)
		}
		return fmt.Sprintf("%s(n%d/%s)", s.O, s.P, s.A)
	}
}

var fwErrnoNames = map[syscall.Errno]string{
	syscall.ENOENT: "ENOENT", syscall.EEXIST: "EEXIST", syscall.ENOTEMPTY: "ENOTEMPTY", syscall.ENOTDIR: "ENOTDIR",
	syscall.EISDIR: "EISDIR", syscall.EPERM: "EPERM", syscall.EINVAL: "EINVAL", syscall.ENOSYS: "ENOSYS",
	syscall.EIO: "EIO", syscall.EACCES: "EACCES", syscall.EBUSY: "EBUSY", syscall.EXDEV: "EXDEV",
}

func fwOutcome(err error) string {
	if err == nil {
		return "ok"
	}
	if e, ok := err.(syscall.Errno); ok {
		if n, ok := fwErrnoNames[e]; ok {
			return n
		}
		return fmt.Sprintf("errno(%d)", int(e))
	}
	return "error: " + err.Error()
}

// fwByte is the byte at absolute offset k of a cell stored by write w (never 0);
// cells with id 0 are zero bytes (holes, extension by truncate).
func fwByte(seed uint64, w int, k int) byte {
	if w == 0 {
		return 0
	}
	return byte(1 + splitmix(seed^(uint64(w)*0x9e3779b97f4a7c15+uint64(k)))%255)
}

func fwContent(seed uint64, cells []int, unit int) []byte {
	out := make([]byte, len(cells)*unit)
	for j, w := range cells {
		for k := j * unit; k < (j+1)*unit; k++ {
			out[k] = fwByte(seed, w, k)
		}
	}
	return out
}

type fwRun struct {
	r      *vutil.BehResult
	fs     fuseutil.FileSystem
	ctx    context.Context
	seed   uint64
	unit   int
	ino    map[int]fuseops.InodeID // model node -> inode number the kernel holds
	cnt    map[int]int             // model node -> kernel lookup count
	prog   []string
	step   int
	cls    string
	halted bool
}

func (m *fwRun) bad(what string, exp, got interface{}, detail string, stop bool) {
	m.badSig("fuserw/"+m.cls+"/"+what, exp, got, detail, stop)
}

func (m *fwRun) badSig(sig string, exp, got interface{}, detail string, stop bool) {
	m.r.Mismatches = append(m.r.Mismatches, vutil.Mismatch{Beh: m.r.I, Step: m.step, Op: m.cls, Sig: sig, Expected: exp, Got: got,
		Detail: detail, Replay: append([]string{}, m.prog...)})
	if stop {
		m.halted = true
	}
}

// call runs one file system operation; a panic of the calling goroutine (which
// would take the whole mount down: the fuse server does not recover) is a
// mismatch "fuserw/<class>/panic/<frame>".
func (m *fwRun) call(f func() error) (out string, panicked bool) {
	defer func() {
		if e := recover(); e != nil {
			panicked = true
			sig := fwPanicSig(string(debug.Stack()))
			m.bad(sig, "no crash", fmt.Sprint(e), "the operation panicked; in a mounted file system this kills the server process", true)
		}
	}()
	return fwOutcome(f()), false
}

// fwPanicSig is "panic/<first frame inside datamon>", wherever the source tree
// of the repository under verification lives.
func fwPanicSig(stack string) string {
	for _, l := range strings.Split(stack, "\n") {
		if strings.HasPrefix(l, "github.com/oneconcern/datamon/") {
			if j := strings.LastIndex(l, "("); j > 0 {
				l = l[:j]
			}
			return "panic/" + l[strings.LastIndex(l, "/")+1:]
		}
	}
	return "panic/unknown"
}

func inSet(s []string, x string) bool {
	for _, y := range s {
		if x == y {
			return true
		}
	}
	return false
}

// doStep performs the operation of a step and returns the outcome and, for
// entry replies, the entry.
func (m *fwRun) doStep(st fwStep) (out string, entry *fuseops.ChildInodeEntry, panicked bool) {
	fs, ctx := m.fs, m.ctx
	switch st.O {
	case "create":
		op := &fuseops.CreateFileOp{Parent: m.ino[st.P], Name: st.A, Mode: 0644}
		out, panicked = m.call(func() error { return fs.CreateFile(ctx, op) })
		if out == "ok" && !panicked {
			entry = &op.Entry
			// the kernel closes the handle the creation opened
			_, _ = m.call(func() error { return fs.FlushFile(ctx, &fuseops.FlushFileOp{Inode: op.Entry.Child, Handle: op.Handle}) })
			_, _ = m.call(func() error { return fs.ReleaseFileHandle(ctx, &fuseops.ReleaseFileHandleOp{Handle: op.Handle}) })
		}
	case "mkdir":
		op := &fuseops.MkDirOp{Parent: m.ino[st.P], Name: st.A, Mode: 0755 | os.ModeDir}
		out, panicked = m.call(func() error { return fs.MkDir(ctx, op) })
		entry = &op.Entry
	case "lookup":
		op := &fuseops.LookUpInodeOp{Parent: m.ino[st.P], Name: st.A}
		out, panicked = m.call(func() error { return fs.LookUpInode(ctx, op) })
		entry = &op.Entry
	case "unlink":
		out, panicked = m.call(func() error { return fs.Unlink(ctx, &fuseops.UnlinkOp{Parent: m.ino[st.P], Name: st.A}) })
	case "rmdir":
		out, panicked = m.call(func() error { return fs.RmDir(ctx, &fuseops.RmDirOp{Parent: m.ino[st.P], Name: st.A}) })
	case "rename":
		out, panicked = m.call(func() error {
			return fs.Rename(ctx, &fuseops.RenameOp{OldParent: m.ino[st.P], OldName: st.A, NewParent: m.ino[st.Q], NewName: st.B})
		})
	case "write":
		// open, write, flush, release: what a pwrite(2) on a freshly opened descriptor sends
		in := m.ino[st.N]
		data := make([]byte, st.Y*m.unit)
		for k := range data {
			data[k] = fwByte(m.seed, m.step+1, st.X*m.unit+k)
		}
		out, panicked = m.call(func() error {
			oo := &fuseops.OpenFileOp{Inode: in}
			if err := fs.OpenFile(ctx, oo); err != nil {
				return err
			}
			if err := fs.WriteFile(ctx, &fuseops.WriteFileOp{Inode: in, Handle: oo.Handle, Offset: int64(st.X * m.unit), Data: data}); err != nil {
				return err
			}
			if err := fs.FlushFile(ctx, &fuseops.FlushFileOp{Inode: in, Handle: oo.Handle}); err != nil {
				return err
			}
			return fs.ReleaseFileHandle(ctx, &fuseops.ReleaseFileHandleOp{Handle: oo.Handle})
		})
	case "setsize":
		sz := uint64(st.X * m.unit)
		out, panicked = m.call(func() error {
			return fs.SetInodeAttributes(ctx, &fuseops.SetInodeAttributesOp{Inode: m.ino[st.N], Size: &sz})
		})
	case "forget":
		out, panicked = m.call(func() error {
			return fs.ForgetInode(ctx, &fuseops.ForgetInodeOp{Inode: m.ino[st.N], N: uint64(st.X)})
		})
	default:
		panic("unknown op " + st.O)
	}
	if out != "ok" {
		entry = nil
	}
	return out, entry, panicked
}

func kindOfMode(mode os.FileMode) string {
	if mode.IsDir() {
		return "dir"
	}
	return "file"
}

// checkReply judges an entry reply about model node st.R.
func (m *fwRun) checkReply(st fwStep, entry *fuseops.ChildInodeEntry, post map[int]fwNode) {
	got := entry.Child
	node := post[st.R]
	if got == 0 {
		m.bad("inode-zero", "an inode number", uint64(got), "the reply carries no inode number", true)
		return
	}
	if m.cnt[st.R] > 0 && m.ino[st.R] != got {
		m.bad("inode-changed", uint64(m.ino[st.R]), uint64(got), "the kernel holds a reference to this node under another inode number", true)
		return
	}
	if got == fuseops.RootInodeID {
		m.bad("inode-collision", "an inode number no other live entry has", uint64(got), "the root's inode number", true)
		return
	}
	for other, in := range m.ino {
		if other != st.R && in == got && m.cnt[other] > 0 && post[other].L {
			m.bad("inode-collision", "an inode number no other live entry has", uint64(got),
				fmt.Sprintf("the reply for %q carries the inode number the kernel holds for the live entry %q (%s)", node.P, post[other].P, post[other].K), true)
			return
		}
	}
	if k := kindOfMode(entry.Attributes.Mode); k != node.K {
		m.bad("wrong-type", node.K, k, "type in the attributes of the reply", true)
		return
	}
	if node.K == "file" && entry.Attributes.Size != uint64(len(node.D)*m.unit) {
		m.bad("wrong-size", len(node.D)*m.unit, entry.Attributes.Size, "size in the attributes of the reply", true)
		return
	}
	m.ino[st.R] = got
	m.cnt[st.R]++
}

// checkHeld asks for the attributes of every inode the kernel holds.
func (m *fwRun) checkHeld(st fwStep, post map[int]fwNode) {
	nodes := make([]int, 0, len(m.ino))
	for n := range m.ino {
		nodes = append(nodes, n)
	}
	sort.Ints(nodes)
	for _, n := range nodes {
		node, ok := post[n]
		if !ok || m.cnt[n] <= 0 {
			continue
		}
		touched := n == st.N || n == st.R
		pre := "bystander-"
		if touched {
			pre = ""
		}
		op := &fuseops.GetInodeAttributesOp{Inode: m.ino[n]}
		out, panicked := m.call(func() error { return m.fs.GetInodeAttributes(m.ctx, op) })
		if panicked {
			return
		}
		if out != "ok" {
			m.bad(pre+"getattr-error", "ok", out, fmt.Sprintf("GetInodeAttributes of an inode the kernel holds (%s, lookup count %d)", node.K, m.cnt[n]), true)
			return
		}
		if k := kindOfMode(op.Attributes.Mode); k != node.K {
			m.bad(pre+"attr-wrong-type", node.K, k, "GetInodeAttributes of an inode the kernel holds", true)
			return
		}
		if node.K == "file" && op.Attributes.Size != uint64(len(node.D)*m.unit) {
			m.bad(pre+"attr-wrong-size", len(node.D)*m.unit, op.Attributes.Size, "GetInodeAttributes of a file the kernel holds", true)
			return
		}
		if touched && node.K == "file" && (st.O == "write" || st.O == "setsize") && len(node.D) > 0 {
			exp := fwContent(m.seed, node.D, m.unit)
			rd := &fuseops.ReadFileOp{Inode: m.ino[n], Offset: 0, Size: int64(len(exp)), Dst: make([]byte, len(exp))}
			out, panicked := m.call(func() error { return m.fs.ReadFile(m.ctx, rd) })
			if panicked {
				return
			}
			if out != "ok" {
				m.bad("read-error", "ok", out, "reading back exactly the size of the file", true)
				return
			}
			if rd.BytesRead != len(exp) || !bytes.Equal(rd.Dst[:rd.BytesRead], exp) {
				m.bad("read-wrong-content", len(exp), rd.BytesRead, "content read back differs from the writes and truncations applied", true)
				return
			}
		}
	}
}

// fwBehTimeout: a behaviour takes milliseconds of CPU; the only way to spend much
// longer is a deadlock or an endless loop of the code under test. The mount
// opens its backing files with O_SYNC and syncs them on flush, so on a busy disk
// a long program can take seconds: the default is generous.
var fwBehTimeout = 60 * time.Second

// finalWalk looks every entry of the specification's final tree up, parents
// first, as a kernel walking the whole mount would: the visible tree before the
// commit. These are ordinary lookups (same classes and checks as the lookups of
// the program); since every live entry is then held, the inode numbers of all
// live entries are compared with each other.
func (m *fwRun) finalWalk(step int, tree map[int]fwNode) {
	var nodes []fwNode
	for _, n := range tree {
		if n.L {
			nodes = append(nodes, n)
		}
	}
	sort.Slice(nodes, func(i, j int) bool {
		di, dj := strings.Count(nodes[i].P, "/"), strings.Count(nodes[j].P, "/")
		if di != dj {
			return di < dj
		}
		return nodes[i].P < nodes[j].P
	})
	byPath := map[string]int{"": 0}
	for _, n := range nodes {
		byPath[n.P] = n.N
	}
	for _, n := range nodes {
		parent, name := "", n.P
		if k := strings.LastIndex(n.P, "/"); k >= 0 {
			parent, name = n.P[:k], n.P[k+1:]
		}
		held := "-forgotten"
		if m.cnt[n.N] > 0 {
			held = "-held"
		}
		st := fwStep{O: "lookup", P: byPath[parent], A: name, N: -1, R: n.N, Cls: "lookup-" + n.K + held, Al: []string{"ok"}}
		m.step, m.cls = step, st.Cls
		m.prog = append(m.prog, "final walk: "+st.String())
		got, entry, panicked := m.doStep(st)
		if panicked {
			return
		}
		if got != "ok" {
			m.bad("unexpected-error", st.Al, got, "the call must succeed", true)
			return
		}
		m.checkReply(st, entry, tree)
		if m.halted {
			return
		}
		m.r.Extra["final_lookups"]++
	}
}

func fwTrivial(cls string) bool {
	return cls == "create-new" || cls == "mkdir-new" || cls == "write-linked" || strings.HasPrefix(cls, "truncate-") && strings.HasSuffix(cls, "-linked")
}

func fuserwReplay(args []string) error {
	fl := flag.NewFlagSet("fuserw", flag.ExitOnError)
	in := fl.String("in", "", "behaviours (NDJSON)")
	out := fl.String("out", "", "result JSON")
	work := fl.String("work", "", "scratch directory")
	lambda := fl.Int("lambda", 4096, "leaf size of the committed bundle")
	seed := fl.Uint64("seed", 1, "content seed")
	maxBad := fl.Int("max-bad", 0, "stop after that many failing behaviours (0: the harness default)")
	chunk := fl.Int("chunk", 100, "behaviours per isolation round (bounds the child crashes per round)")
	verbose := fl.Bool("v", false, "print every step (investigation)")
	behTimeout := fl.Int("beh-timeout", 60, "seconds without progress after which a behaviour counts as hung")
	_ = fl.Parse(args)
	fwBehTimeout = time.Duration(*behTimeout) * time.Second
	if *maxBad > 0 {
		vutil.MaxBadBehaviours = *maxBad
	}
	if *work == "" {
		d, err := ioutil.TempDir("", "fuserw")
		if err != nil {
			return err
		}
		*work = d
	}
	units := []int{1, 7, *lambda/2 + 1} // bytes per content cell, by behaviour: up to ~3.5 leaves per file

	run := func(i int, line []byte, r *vutil.BehResult) {
		var steps []fwStep
		if err := json.Unmarshal(line, &steps); err != nil {
			panic(err)
		}
		r.Extra = map[string]int{}
		dir := filepath.Join(*work, fmt.Sprintf("b%d.%d", os.Getpid(), i))
		_ = os.MkdirAll(dir, 0700)
		defer os.RemoveAll(dir)
		e := newMetaEnv(dir, *lambda, *seed, false)
		stores, _ := e.client()
		if err := core.CreateRepo(model.RepoDescriptor{Name: "r", Description: "d", Timestamp: time.Now(),
			Contributor: model.Contributor{Name: "v", Email: "v@example.com"}}, stores); err != nil {
			panic(err)
		}
		bundle := e.newBundle(stores, "r", "", localStore(e.scratch("staging")))
		mfs, err := dfuse.NewMutableFS(bundle, dfuse.Logger(zap.NewNop()))
		if err != nil {
			panic(err)
		}
		m := &fwRun{r: r, fs: mfs.VerifFileSystem(), ctx: context.Background(), seed: *seed + uint64(i)*7919, unit: units[i%len(units)],
			ino: map[int]fuseops.InodeID{0: fuseops.RootInodeID}, cnt: map[int]int{0: 1}, cls: "init"}
		last := map[int]fwNode{}
		for j, st := range steps {
			r.Steps++
			m.step, m.cls = j, st.Cls
			m.prog = append(m.prog, st.String())
			if !fwTrivial(st.Cls) {
				r.Nontrivial = true
			}
			post := map[int]fwNode{}
			for _, n := range st.Post {
				post[n.N] = n
			}
			got, entry, panicked := m.doStep(st)
			if *verbose {
				fmt.Fprintf(os.Stderr, "beh %d step %d %-40s [%s] allowed %v got %s\n", i, j, st.String(), st.Cls, st.Al, got)
			}
			if panicked {
				break
			}
			r.Extra["ops_"+st.O]++
			if !inSet(st.Al, got) {
				expOK := inSet(st.Al, "ok")
				switch {
				case got == "ok":
					m.bad("unexpected-success", st.Al, got, "the call must fail", true)
				case expOK:
					m.bad("unexpected-error", st.Al, got, "the call must succeed", true)
				default:
					m.bad("wrong-errno", st.Al, got, "", false)
				}
			}
			if m.halted {
				break
			}
			if got == "ok" {
				switch st.O {
				case "create", "mkdir", "lookup":
					m.checkReply(st, entry, post)
				case "forget":
					m.cnt[st.N] -= st.X
					if m.cnt[st.N] <= 0 {
						delete(m.cnt, st.N)
						delete(m.ino, st.N)
					}
				}
			}
			if m.halted {
				break
			}
			m.checkHeld(st, post)
			if m.halted {
				break
			}
			last = post
		}
		if !m.halted {
			m.finalWalk(len(steps), last)
		}
		if !m.halted {
			m.step, m.cls = len(steps), "commit"
			m.prog = append(m.prog, "commit")
			fwCommit(m, e, mfs, bundle, last)
		}
		if len(r.Mismatches) > 1 {
			// a wrong errno does not stop a behaviour: keep each signature once
			seen := map[string]bool{}
			var keep []vutil.Mismatch
			for _, mm := range r.Mismatches {
				if !seen[mm.Sig] {
					seen[mm.Sig] = true
					keep = append(keep, mm)
				}
			}
			r.Mismatches = keep
		}
		if i < 3 && len(steps) > 0 {
			r.Sample = map[string]interface{}{"program": m.prog, "unit_bytes": m.unit}
		}
	}

	// child: the parent tells which chunk file it is working on
	if os.Getenv("VH_CHILD") != "" {
		return vutil.Isolated("fuserw", os.Getenv("VH_FUSERW_IN"), nil, run, fwBehTimeout)
	}

	// parent: rounds of at most *chunk behaviours (vutil.Isolated gives up after
	// 200 child crashes per call; every fatal error of the mount is one)
	var lines [][]byte
	if err := vutil.ReadNDJSON(*in, func(_ int, l []byte) error { lines = append(lines, l); return nil }); err != nil {
		return err
	}
	res := vutil.NewResult("fuserw")
	crashed, badSoFar := 0, 0
	for from := 0; from < len(lines); from += *chunk {
		to := from + *chunk
		if to > len(lines) {
			to = len(lines)
		}
		cf := filepath.Join(*work, fmt.Sprintf("chunk.%d.ndjson", os.Getpid()))
		if err := ioutil.WriteFile(cf, append(bytes.Join(lines[from:to], []byte("\n")), '\n'), 0600); err != nil {
			return err
		}
		_ = os.Setenv("VH_FUSERW_IN", cf)
		part := vutil.NewResult("fuserw")
		err := vutil.Isolated("fuserw", cf, part, run, fwBehTimeout)
		_ = os.Remove(cf)
		if err != nil {
			return err
		}
		res.Behaviours += part.Behaviours
		res.Steps += part.Steps
		res.Nontrivial += part.Nontrivial
		for k, v := range part.SigCounts {
			if strings.HasPrefix(k, "fatal/") || strings.HasPrefix(k, "panic/") || strings.HasPrefix(k, "crash/") || strings.HasPrefix(k, "hang/") {
				crashed += v
			}
			// Add counts one per record: restore the true count afterwards
			res.SigCounts[k] += v
		}
		for _, mm := range part.Mismatches {
			mm.Beh += from
			if mm.Replay == nil && mm.Beh < len(lines) {
				// a child death: the program that was running
				var steps []fwStep
				if json.Unmarshal(lines[mm.Beh], &steps) == nil {
					var prog []string
					for _, s := range steps {
						prog = append(prog, s.String()+" ["+s.Cls+"]")
					}
					mm.Replay = prog
				}
			}
			n := res.SigCounts[mm.Sig]
			res.Add(mm)
			res.SigCounts[mm.Sig] = n
		}
		for _, s := range part.Samples {
			res.Sample(s, 3)
		}
		for k, v := range part.Extra {
			if iv, ok := v.(int); ok {
				cur, _ := res.Extra[k].(int)
				res.Extra[k] = cur + iv
			}
		}
		badSoFar += part.BadBehaviours()
		if badSoFar+crashed >= vutil.MaxBadBehaviours {
			res.Extra["stopped_early_at"] = to
			break
		}
	}
	return res.Write(*out)
}

// fwCommit commits the mount, downloads the bundle and compares it with the
// files of the specification's tree.
func fwCommit(m *fwRun, e *metaEnv, mfs *dfuse.MutableFS, bundle *core.Bundle, tree map[int]fwNode) {
	exp := map[string][]byte{}
	for _, n := range tree {
		if n.L && n.K == "file" {
			exp[n.P] = fwContent(m.seed, n.D, m.unit)
		}
	}
	out, panicked := m.call(func() error { return mfs.Commit() })
	if panicked {
		return
	}
	if out != "ok" {
		m.bad("error", "ok", out, fmt.Sprintf("Commit of a mount with %d files failed", len(exp)), true)
		return
	}
	m.r.Extra["commits"]++
	// the file list of the committed bundle
	names := map[string]int{}
	for _, be := range bundle.BundleEntries {
		names[strings.TrimPrefix(be.NameWithPath, "/")]++
	}
	for n, c := range names {
		if c > 1 {
			m.bad("duplicate-path", 1, c, fmt.Sprintf("the committed file list names %q more than once", n), false)
			break
		}
	}
	dir := e.scratch("dst")
	stores, _ := e.client()
	b2 := e.newBundle(stores, "r", bundle.BundleID, localStore(dir))
	out, panicked = m.call(func() error { return core.Publish(m.ctx, b2) })
	if panicked {
		return
	}
	if out != "ok" {
		m.bad("download-error", "ok", out, fmt.Sprintf("downloading the committed bundle (%d files expected)", len(exp)), true)
		return
	}
	got, _ := readDir(dir)
	var missing, extra, wrong []string
	for p, eb := range exp {
		gb, ok := got[p]
		if !ok {
			missing = append(missing, p)
		} else if !bytes.Equal(gb, eb) {
			wrong = append(wrong, fmt.Sprintf("%s: %d bytes expected, %d bytes got", p, len(eb), len(gb)))
		}
	}
	for p := range got {
		if _, ok := exp[p]; !ok {
			extra = append(extra, p)
		}
	}
	sort.Strings(missing)
	sort.Strings(extra)
	sort.Strings(wrong)
	expNames := make([]string, 0, len(exp))
	for p := range exp {
		expNames = append(expNames, p)
	}
	sort.Strings(expNames)
	if len(missing) > 0 {
		m.bad("missing-file", expNames, missing, "files of the visible tree that the committed bundle lacks", false)
	}
	if len(extra) > 0 {
		m.bad("extra-file", expNames, extra, "files of the committed bundle that the visible tree does not have", false)
	}
	if len(wrong) > 0 {
		m.bad("wrong-content", nil, wrong, "files of the committed bundle whose bytes differ from the visible tree", false)
	}
}
