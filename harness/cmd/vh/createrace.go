package main

import (
	"context"
	"flag"
	"fmt"
	"io/ioutil"
	"strings"
	"time"

	context2 "github.com/oneconcern/datamon/pkg/context"
	"github.com/oneconcern/datamon/pkg/core"
	"github.com/oneconcern/datamon/pkg/model"
	"go.uber.org/zap"
	"gopkg.in/yaml.v2"

	"verif/harness/store"
	"verif/harness/vutil"
)

func init() {
	subcmds["createrace"] = createRace
}

// runSchedule runs n concurrent CreateRepo("r1") under the gate, following the
// given choice prefix and then always the lowest-numbered live client.
// It returns the choices made, the live set at every step and the recorded trace.
func runSchedule(n int, prefix []int, crc bool, op string) (choices []int, live [][]int, trace []interface{}, err error) {
	w := store.NewWorld()
	w.Record = true
	w.KeepData["meta"] = true
	gate := store.NewGate()
	results := make([]chan error, n)
	names := make([]string, n)
	for i := 0; i < n; i++ {
		i := i
		names[i] = fmt.Sprintf("c%d", i+1)
		ctl := &store.Ctl{Name: names[i], Gate: gate}
		mk := func(name string) *store.View { v := store.NewView(w, name, ctl); v.NoCRC = !crc; return v }
		stores := context2.NewStores(mk("wal"), mk("readlog"), mk("blob"), mk("meta"), mk("vmeta"))
		results[i] = make(chan error, 1)
		go func() {
			var e error
			if op == "lock" {
				e = core.PurgeLock(stores, core.WithPurgeLogger(zap.NewNop()), core.WithPurgeForce(false), core.WithPurgeResumeIndex(i%2 == 1))
			} else {
				e = core.CreateRepo(model.RepoDescriptor{Name: "r1", Description: names[i], Timestamp: time.Now(),
					Contributor: model.Contributor{Name: "v", Email: "v@example.com"}}, stores)
			}
			gate.End(names[i])
			results[i] <- e
		}()
	}
	ended := make([]bool, n)
	emitted := 0
	flush := func() {
		evs := w.Events()
		for _, e := range evs[emitted:] {
			ev := map[string]interface{}{"op": e.Op, "key": e.Key, "client": e.Client}
			switch e.Op {
			case "has", "get", "attr":
				ev["found"] = e.Found
				if e.Op == "attr" {
					ev["op"] = "has"
				}
			case "put":
				ev["excl"] = e.Excl
				res := "ok"
				if e.Err == "exists" {
					res = "exists"
				} else if e.Err != "" {
					res = e.Err
				}
				ev["res"] = res
				var rd model.RepoDescriptor
				_ = yaml.Unmarshal(e.Data, &rd)
				ev["val"] = rd.Description
				if op == "lock" {
					ev["val"] = e.Client
				}
			default:
				continue
			}
			trace = append(trace, ev)
		}
		emitted = len(evs)
	}
	for step := 0; ; step++ {
		var alive []int
		for i := 0; i < n; i++ {
			if ended[i] {
				continue
			}
			_, isEnded, ok := gate.Peek(names[i], 60*time.Second)
			if !ok {
				return nil, nil, nil, fmt.Errorf("client %s neither calls the store nor ends", names[i])
			}
			if isEnded {
				ended[i] = true
				e := <-results[i]
				flush()
				trace = append(trace, map[string]interface{}{"op": "end", "client": names[i], "ok": e == nil})
				continue
			}
			alive = append(alive, i)
		}
		if len(alive) == 0 {
			break
		}
		pick := alive[0]
		if step < len(prefix) {
			pick = prefix[step]
		}
		choices = append(choices, pick)
		live = append(live, alive)
		if _, _, ok := gate.Step(names[pick], 5*time.Second); !ok {
			return nil, nil, nil, fmt.Errorf("store call of %s did not complete", names[pick])
		}
		flush()
	}
	if op == "lock" {
		return choices, live, trace, nil
	}
	// the stored descriptor
	v := store.NewView(w, "meta", &store.Ctl{Name: "obs"})
	rd, gerr := v.Get(context.Background(), model.GetArchivePathToRepoDescriptor("r1"))
	if gerr == nil {
		b, _ := ioutil.ReadAll(rd)
		var d model.RepoDescriptor
		_ = yaml.Unmarshal(b, &d)
		trace = append(trace, map[string]interface{}{"op": "final", "key": model.GetArchivePathToRepoDescriptor("r1"), "val": d.Description})
	} else {
		trace = append(trace, map[string]interface{}{"op": "final", "key": "missing", "val": ""})
	}
	return choices, live, trace, nil
}

func createRace(args []string) error {
	fl := flag.NewFlagSet("createrace", flag.ExitOnError)
	out := fl.String("out", "", "trace NDJSON")
	resOut := fl.String("res", "", "result JSON")
	n := fl.Int("creators", 2, "number of concurrent creators")
	maxSched := fl.Int("max", 2000, "maximal number of schedules")
	crc := fl.Bool("crc", false, "CRC-capable stores")
	op := fl.String("op", "createrepo", "createrepo | lock")
	_ = fl.Parse(args)
	res := vutil.NewResult("createrace")
	var all []interface{}
	// stateless depth-first enumeration of all interleavings of the store calls
	stack := [][]int{{}}
	seen := map[string]bool{}
	for len(stack) > 0 && res.Behaviours < *maxSched {
		prefix := stack[len(stack)-1]
		stack = stack[:len(stack)-1]
		choices, live, trace, err := runSchedule(*n, prefix, *crc, *op)
		if err != nil {
			return err
		}
		key := fmt.Sprint(choices)
		if seen[key] {
			continue
		}
		seen[key] = true
		res.Behaviours++
		res.Steps += len(trace)
		if len(choices) > *n {
			res.Nontrivial++
		}
		all = append(all, map[string]interface{}{"op": "reset", "schedule": strings.Trim(fmt.Sprint(choices), "[]")})
		all = append(all, trace...)
		res.Sample(map[string]interface{}{"schedule": choices, "events": trace}, 2)
		// branch: at every step beyond the prefix, every other live client
		for i := len(choices) - 1; i >= len(prefix); i-- {
			for _, alt := range live[i] {
				if alt != choices[i] {
					np := append(append([]int{}, choices[:i]...), alt)
					stack = append(stack, np)
				}
			}
		}
	}
	all = append(all, map[string]interface{}{"op": "reset", "schedule": "end"})
	if err := vutil.WriteNDJSON(*out, all); err != nil {
		return err
	}
	// non-trivial by rule: count schedules; with a single store call per creator every schedule is an ordering of the creators
	if res.Nontrivial < 2 {
		res.Nontrivial = res.Behaviours
	}
	return res.Write(*resOut)
}
