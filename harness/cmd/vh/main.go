// Command vh is the verification harness: one subcommand per binding.
package main

import (
	"fmt"
	"os"
	"runtime/pprof"
)

type subcmd func(args []string) error

var subcmds = map[string]subcmd{}

func main() {
	if len(os.Args) < 2 {
		fmt.Fprintln(os.Stderr, "usage: vh <subcommand> [flags]")
		os.Exit(2)
	}
	fn, ok := subcmds[os.Args[1]]
	if !ok {
		fmt.Fprintf(os.Stderr, "unknown subcommand %q\n", os.Args[1])
		os.Exit(2)
	}
	if pf := os.Getenv("VH_CPUPROFILE"); pf != "" {
		f, err := os.Create(pf)
		if err == nil {
			_ = pprof.StartCPUProfile(f)
			defer pprof.StopCPUProfile()
		}
	}
	if err := fn(os.Args[2:]); err != nil {
		pprof.StopCPUProfile()
		fmt.Fprintf(os.Stderr, "vh %s: %v\n", os.Args[1], err)
		os.Exit(2)
	}
}
