package main

import (
	"context"
	"flag"
	"fmt"
	"math/rand"
	"os"
	"path"
	"path/filepath"
	"strings"
	"time"

	context2 "github.com/oneconcern/datamon/pkg/context"
	"github.com/oneconcern/datamon/pkg/core"
	"github.com/oneconcern/datamon/pkg/model"
	"github.com/segmentio/ksuid"
	"go.uber.org/zap"
	"gopkg.in/yaml.v2"

	"verif/harness/store"
	"verif/harness/vutil"
)

func init() {
	subcmds["diamond"] = diamondDriver
}

// a client of a scenario
type dClient struct {
	name   string
	role   string // split | commit | cancel
	split  string
	crash  int    // crash at this mutation (0: never)
	before bool   // crash before the write lands
	after  string // start only after this client has ended ("" = from the beginning)
	batch  int    // listing page size used by a commit (0: default)
	// faultGet: the first read (Get/Has/GetAttr) of a key containing this text fails with a transient error
	faultGet string
	// faultPut: the first write of a key containing this text fails with a transient error
	faultPut string
	// bulk: number of filler files a split run uploads besides its own file
	bulk int
}

type dScenario struct {
	label  string
	setup  []dClient // run to completion, one after the other, before the race
	racers []dClient
	policy string // "seq" | "window:<k>" | "random"
	seed   int64
	then   []dClient // run sequentially after the race (retries, late splits)
}

type dRun struct {
	e        *metaEnv
	repo     string
	did      string
	gate     *store.Gate
	events   []interface{}
	emitted  int
	genOf    map[string]string // runner content key -> gen
	runKey   map[string][2]string
	bundleBy map[string]string
	sawDone  map[string]bool
	ends     []map[string]interface{}
}

func (d *dRun) stores(name string, gated bool, c dClient) (context2.Stores, *store.Ctl) {
	ctl := &store.Ctl{Name: name}
	if gated {
		ctl.Gate = d.gate
	}
	if c.crash > 0 {
		ctl.CrashAt, ctl.Before = c.crash, c.before
	}
	if c.faultPut != "" {
		fired := false
		ctl.FaultFn = func(storeName, op, key string, nth int) bool {
			if !fired && op == "put" && strings.Contains(key, c.faultPut) {
				fired = true
				return true
			}
			return false
		}
	}
	if c.faultGet != "" {
		fired := false
		ctl.FaultFn = func(storeName, op, key string, nth int) bool {
			if !fired && (op == "get" || op == "has" || op == "attr") && strings.Contains(key, c.faultGet) {
				fired = true
				return true
			}
			return false
		}
	}
	free := &store.Ctl{Name: name + "-blob"}
	e := d.e
	return context2.NewStores(e.view("wal", free), e.view("readlog", free), e.view("blob", free), e.view("meta", ctl), e.view("vmeta", ctl)), ctl
}

// classify turns a store key into (kind, split, gen, bundle).
func (d *dRun) classify(storeName, key string) (kind, split, gen, bundle string) {
	apc, err := model.GetArchivePathComponents(key)
	if err != nil {
		return "", "", "", ""
	}
	base := path.Base(key)
	switch {
	case storeName == "vmeta" && strings.HasPrefix(key, "diamonds/"):
		switch {
		case base == "diamond-done.yaml":
			return "ddone", "", "", ""
		case base == "diamond-running.yaml":
			return "drunning", "", "", ""
		case base == "split-done.yaml":
			return "sdone", apc.SplitID, "", ""
		case base == "split-running.yaml":
			return "srunning", apc.SplitID, "", ""
		case apc.GenerationID != "":
			return "list", apc.SplitID, apc.GenerationID, ""
		}
	case storeName == "meta" && strings.HasPrefix(key, "bundles/"):
		if base == "bundle.yaml" {
			return "bdesc", "", "", apc.BundleID
		}
		return "bidx", "", "", apc.BundleID
	}
	return "", "", "", ""
}

// flush converts the store events recorded since the last call.
func (d *dRun) flush() {
	evs := d.e.w.Events()
	for _, e := range evs[d.emitted:] {
		if e.Store != "meta" && e.Store != "vmeta" {
			continue
		}
		if !strings.HasPrefix(e.Client, "k") && !strings.HasPrefix(e.Client, "u") && !strings.HasPrefix(e.Client, "x") {
			continue // set-up and observation clients
		}
		kind, split, gen, bundle := d.classify(e.Store, e.Key)
		if kind == "" {
			continue
		}
		switch e.Op {
		case "get", "has", "attr":
			if e.Err != "" && e.Err != "notexist" {
				continue
			}
			found := e.Found
			d.events = append(d.events, map[string]interface{}{"op": "read", "client": e.Client, "kind": kind, "split": split, "gen": gen,
				"bundle": bundle, "found": found, "readycheck": kind == "ddone"})
			if kind == "sdone" && found && strings.HasPrefix(e.Client, "u") {
				d.sawDone[e.Client] = true
			}
		case "put":
			if e.Err == "crashed" {
				d.events = append(d.events, map[string]interface{}{"op": "crash", "client": e.Client, "kind": kind})
				continue
			}
			if e.Err == "fault" {
				// a write that failed transiently: it never reached the store
				d.events = append(d.events, map[string]interface{}{"op": "fault", "client": e.Client, "kind": kind})
				continue
			}
			res := "ok"
			if e.Err == "exists" {
				res = "exists"
			} else if e.Err != "" {
				res = e.Err
			}
			ev := map[string]interface{}{"op": "write", "client": e.Client, "kind": kind, "split": split, "gen": gen, "bundle": bundle,
				"excl": e.Excl, "res": res, "state": ""}
			if kind == "ddone" && res == "ok" {
				var dd model.DiamondDescriptor
				_ = yaml.Unmarshal(e.Data, &dd)
				ev["state"] = string(dd.State)
			}
			if kind == "sdone" {
				var sd model.SplitDescriptor
				_ = yaml.Unmarshal(e.Data, &sd)
				ev["gen"] = sd.GenerationID
				if res != "ok" {
					// the generation the failed write carried is not in the event data: take the client's list generation
					ev["gen"] = d.genOf[e.Client]
				}
			}
			if kind == "list" {
				d.genOf[e.Client] = gen
			}
			if kind == "bdesc" && res == "ok" {
				d.bundleBy[bundle] = e.Client
			}
			d.events = append(d.events, ev)
		}
	}
	d.emitted = len(evs)
}

// start launches the operation of a client; it returns a channel delivering its end event.
func (d *dRun) start(c dClient, gated bool) chan map[string]interface{} {
	stores, _ := d.stores(c.name, gated, c)
	done := make(chan map[string]interface{}, 1)
	go func() {
		end := map[string]interface{}{"op": "end", "client": c.name, "role": c.role, "ok": false, "bundle": "", "split": c.split, "gen": "", "sawdone": false}
		defer func() {
			if r := recover(); r != nil {
				end["panic"] = fmt.Sprint(r)
			}
			if gated {
				d.gate.End(c.name)
			}
			done <- end
		}()
		switch c.role {
		case "split":
			files := []treeEntry{{P: "sp/" + c.split, C: "run:" + c.name}}
			src, _ := d.e.writeTree(files, c.bulk)
			sd := model.NewSplitDescriptor(model.SplitID(c.split), model.SplitContributor(contributor()))
			opts := []core.SplitOption{core.SplitDescriptor(sd), core.SplitConsumableStore(src), core.SplitLogger(zap.NewNop()),
				core.SplitConcurrentFileUploads(1)}
			got, err := core.CreateSplit(d.repo, d.did, stores, opts...)
			if err != nil {
				return
			}
			opts[0] = core.SplitDescriptor(model.NewSplitDescriptor(model.SplitClone(got)))
			s := core.NewSplit(d.repo, d.did, stores, opts...)
			s.BundleDescriptor.LeafSize = uint32(d.e.lambda)
			err = s.Upload()
			end["gen"] = s.SplitDescriptor.GenerationID
			end["ok"] = err == nil
		case "commit":
			dm := core.NewDiamond(d.repo, stores,
				core.DiamondDescriptor(model.NewDiamondDescriptor(model.DiamondID(d.did), model.DiamondMode(model.EnableConflicts))),
				core.DiamondMessage("commit"), core.DiamondLogger(zap.NewNop()))
			dm.BundleDescriptor.LeafSize = uint32(d.e.lambda)
			var copts []core.Option
			if c.batch > 0 {
				copts = append(copts, core.BatchSize(c.batch))
			}
			err := dm.Commit(copts...)
			end["ok"] = err == nil
			end["bundle"] = dm.BundleID
		case "cancel":
			dm := core.NewDiamond(d.repo, stores,
				core.DiamondDescriptor(model.NewDiamondDescriptor(model.DiamondID(d.did))), core.DiamondLogger(zap.NewNop()))
			err := dm.Cancel()
			end["ok"] = err == nil
		}
	}()
	return done
}

func (d *dRun) finish(c dClient, end map[string]interface{}) {
	d.flush()
	end["sawdone"] = d.sawDone[c.name]
	d.events = append(d.events, end)
	d.ends = append(d.ends, end)
}

// runSeq runs a client alone, ungated.
func (d *dRun) runSeq(c dClient) error {
	ch := d.start(c, false)
	select {
	case end := <-ch:
		d.finish(c, end)
		return nil
	case <-time.After(90 * time.Second):
		return fmt.Errorf("client %s does not end", c.name)
	}
}

func (d *dRun) race(sc dScenario) error {
	d.gate = store.NewGate()
	chans := map[string]chan map[string]interface{}{}
	byName := map[string]dClient{}
	for _, c := range sc.racers {
		byName[c.name] = c
		chans[c.name] = d.start(c, true)
	}
	rng := rand.New(rand.NewSource(sc.seed))
	ended := map[string]bool{}
	window := -1
	if strings.HasPrefix(sc.policy, "window:") {
		fmt.Sscanf(sc.policy, "window:%d", &window)
	}
	steps := map[string]int{}
	for iter := 0; iter < 5000; iter++ {
		var alive []string
		for _, c := range sc.racers {
			if ended[c.name] {
				continue
			}
			_, isEnded, ok := d.gate.Peek(c.name, 60*time.Second)
			if !ok {
				return fmt.Errorf("client %s neither calls the store nor ends", c.name)
			}
			if isEnded {
				ended[c.name] = true
				d.finish(c, <-chans[c.name])
				continue
			}
			alive = append(alive, c.name)
		}
		if len(alive) == 0 {
			return nil
		}
		pick := alive[0]
		switch {
		case sc.policy == "random":
			pick = alive[rng.Intn(len(alive))]
		case window >= 0:
			// the first racer runs `window` store calls, then the others run to completion, then the first resumes
			first := sc.racers[0].name
			if !ended[first] && steps[first] < window {
				pick = first
			} else {
				pick = ""
				for _, a := range alive {
					if a != first {
						pick = a
						break
					}
				}
				if pick == "" {
					pick = first
				}
			}
		}
		if _, _, ok := d.gate.Step(pick, 10*time.Second); !ok {
			return fmt.Errorf("a store call of %s does not complete", pick)
		}
		steps[pick]++
		d.flush()
	}
	return fmt.Errorf("scenario does not terminate")
}

// decodeBundles emits one bundle event per visible bundle.
func (d *dRun) decodeBundles() {
	obs, _ := d.stores("obs", false, dClient{})
	keys := d.e.w.KeysOf("meta")
	for _, k := range keys {
		if !strings.HasPrefix(k, "bundles/") || path.Base(k) != "bundle.yaml" {
			continue
		}
		apc, _ := model.GetArchivePathComponents(k)
		b := d.e.newBundle(obs, d.repo, apc.BundleID, nil)
		if err := core.DownloadMetadata(context.Background(), b); err != nil {
			d.events = append(d.events, map[string]interface{}{"op": "bundle", "bundle": apc.BundleID, "client": d.bundleBy[apc.BundleID],
				"runs": []interface{}{map[string]string{"split": "unreadable", "gen": err.Error()}}})
			continue
		}
		runs := []interface{}{}
		for _, en := range b.GetBundleEntries() {
			if strings.HasPrefix(en.NameWithPath, "bulk/") {
				continue // filler files of a big split run: they come with that run's own file
			}
			if r, ok := d.runKey[en.Hash]; ok && strings.HasPrefix(en.NameWithPath, "sp/") {
				runs = append(runs, map[string]string{"split": r[0], "gen": d.genOf[r[1]]})
			} else {
				runs = append(runs, map[string]string{"split": "unknown:" + en.NameWithPath, "gen": ""})
			}
		}
		d.events = append(d.events, map[string]interface{}{"op": "bundle", "bundle": apc.BundleID, "client": d.bundleBy[apc.BundleID], "runs": runs})
	}
}

func runDiamondScenario(sc dScenario, work string, lambda int, crc bool) ([]interface{}, error) {
	e := newMetaEnv(work, lambda, uint64(sc.seed), crc)
	e.w.Record = true
	defer os.RemoveAll(work)
	d := &dRun{e: e, repo: "r1", did: ksuid.New().String(), genOf: map[string]string{}, runKey: map[string][2]string{},
		bundleBy: map[string]string{}, sawDone: map[string]bool{}}
	setup, _ := e.client()
	if err := core.CreateRepo(model.RepoDescriptor{Name: d.repo, Description: "d", Timestamp: time.Now(), Contributor: contributor()}, setup); err != nil {
		return nil, err
	}
	if _, err := core.CreateDiamond(d.repo, setup, core.DiamondDescriptor(model.NewDiamondDescriptor(model.DiamondID(d.did))),
		core.DiamondLogger(zap.NewNop())); err != nil {
		return nil, err
	}
	all := append(append(append([]dClient{}, sc.setup...), sc.racers...), sc.then...)
	for _, c := range all {
		if c.role == "split" {
			d.runKey[e.contentKey("run:"+c.name)] = [2]string{c.split, c.name}
		}
	}
	d.emitted = len(e.w.Events())
	d.events = append(d.events, map[string]interface{}{"op": "reset", "scenario": sc.label})
	for _, c := range sc.setup {
		if err := d.runSeq(c); err != nil {
			return nil, err
		}
	}
	if len(sc.racers) > 0 {
		if err := d.race(sc); err != nil {
			return nil, err
		}
	}
	for _, c := range sc.then {
		if err := d.runSeq(c); err != nil {
			return nil, err
		}
	}
	d.flush()
	d.decodeBundles()
	return d.events, nil
}

// scenarios builds the schedule/crash enumeration for a tier.
func diamondScenarios(seed int64, thorough bool) []dScenario {
	var out []dScenario
	u1 := dClient{name: "u1", role: "split", split: "s1"}
	u2 := dClient{name: "u2", role: "split", split: "s1"}
	u3 := dClient{name: "u3", role: "split", split: "s2"}
	k1 := dClient{name: "k1", role: "commit"}
	k2 := dClient{name: "k2", role: "commit"}
	k3 := dClient{name: "k3", role: "commit"}
	x1 := dClient{name: "x1", role: "cancel"}
	nRandom := 25
	maxWin := 14
	if thorough {
		nRandom = 400
		maxWin = 40
	}
	// baseline: everything in sequence
	out = append(out, dScenario{label: "sequential", setup: []dClient{u1, u3, k1}, then: []dClient{k2, x1, u2}})
	// two commits: one is held after k store calls while the other runs to completion
	for k := 0; k <= maxWin; k++ {
		out = append(out, dScenario{label: "two-commits", setup: []dClient{u1, u3}, racers: []dClient{k1, k2}, policy: fmt.Sprintf("window:%d", k)})
		out = append(out, dScenario{label: "commit-vs-cancel", setup: []dClient{u1}, racers: []dClient{k1, x1}, policy: fmt.Sprintf("window:%d", k)})
		out = append(out, dScenario{label: "cancel-vs-commit", setup: []dClient{u1}, racers: []dClient{x1, k1}, policy: fmt.Sprintf("window:%d", k)})
		out = append(out, dScenario{label: "commit-vs-split", setup: []dClient{u1}, racers: []dClient{k1, u3}, policy: fmt.Sprintf("window:%d", k)})
		out = append(out, dScenario{label: "split-vs-commit", setup: []dClient{u1}, racers: []dClient{u3, k1}, policy: fmt.Sprintf("window:%d", k)})
		out = append(out, dScenario{label: "split-rerun", racers: []dClient{u1, u2}, policy: fmt.Sprintf("window:%d", k), then: []dClient{k1}})
		out = append(out, dScenario{label: "split-vs-cancel", racers: []dClient{u1, x1}, policy: fmt.Sprintf("window:%d", k), then: []dClient{k1}})
	}
	// random interleavings of everything
	for i := 0; i < nRandom; i++ {
		s := seed*1000 + int64(i)
		out = append(out, dScenario{label: "random-two-commits", setup: []dClient{u1, u3}, racers: []dClient{k1, k2}, policy: "random", seed: s})
		out = append(out, dScenario{label: "random-all", racers: []dClient{u1, u2, u3, k1, x1}, policy: "random", seed: s, then: []dClient{k2}})
		out = append(out, dScenario{label: "random-splits-commit", setup: []dClient{u1}, racers: []dClient{u2, u3, k1, k2}, policy: "random", seed: s})
	}
	// commits listing the splits with small pages (done / running markers of a split on different pages)
	for b := 1; b <= 9; b++ {
		kb := k1
		kb.batch = b
		out = append(out, dScenario{label: "commit-small-pages", setup: []dClient{u1, u3, dClient{name: "u4", role: "split", split: "s3"}, kb}, then: []dClient{k2}})
		ur := u1
		ur.crash, ur.before = 3, true // first run of s1 leaves its file list and a running marker
		out = append(out, dScenario{label: "commit-small-pages-rerun", setup: []dClient{ur, u2, u3, kb}})
	}
	// a split whose first run did not complete is rerun after the diamond is terminated
	for _, term := range []dClient{k1, x1} {
		for m := 2; m <= 3; m++ {
			uc := u1
			uc.crash, uc.before = m, true
			out = append(out, dScenario{label: "rerun-after-terminal", setup: []dClient{uc, u3, term}, then: []dClient{u2, dClient{name: "u5", role: "split", split: "s9"}}})
		}
	}
	// a transient read fault on the state of a terminated diamond / completed split must not reopen it
	for _, term := range []dClient{k1, x1} {
		kf := k2
		kf.faultGet = "diamond-done"
		out = append(out, dScenario{label: "terminated-read-fault", setup: []dClient{u1, u3, term}, then: []dClient{kf, k3}})
		uf := dClient{name: "u5", role: "split", split: "s9", faultGet: "diamond-done"}
		out = append(out, dScenario{label: "terminated-read-fault", setup: []dClient{u1, u3, term}, then: []dClient{uf, k2}})
		ur := u2
		ur.faultGet = "diamond-done"
		out = append(out, dScenario{label: "terminated-read-fault", setup: []dClient{u1, u3, term}, then: []dClient{ur}})
	}
	{
		ur := u2
		ur.faultGet = "split-done"
		out = append(out, dScenario{label: "done-split-read-fault", setup: []dClient{u1}, then: []dClient{ur, k1}})
	}
	// the commit's read of a completed split's file list fails transiently: the commit must fail (or be complete),
	// never publish a bundle without that split's files; the retried commit publishes everything
	{
		kf := k1
		kf.faultGet = "bundle-files-"
		out = append(out, dScenario{label: "commit-list-read-fault", setup: []dClient{u1, u3}, then: []dClient{kf, k2}})
		kg := k1
		kg.faultGet = "bundle-files-"
		out = append(out, dScenario{label: "commit-list-read-fault", setup: []dClient{u1, u2, u3}, then: []dClient{kg, k2}})
	}
	// a commit of exactly 1000 entries (one full index file and no partial one) whose index-file write fails
	// transiently: the bundle must not become visible; the retried commit publishes it
	{
		big := dClient{name: "u1", role: "split", split: "s1", bulk: 999}
		kf := k1
		kf.faultPut = "bundle-files-"
		out = append(out, dScenario{label: "commit-index-write-fault", setup: []dClient{big}, then: []dClient{kf, k2}})
		kp := k1
		kp.faultPut = "bundle-files-"
		out = append(out, dScenario{label: "commit-index-write-fault", setup: []dClient{u1, u3}, then: []dClient{kp, k2}})
	}
	// crashes: the committer (or a split run) dies at each of its writes, then the operation is retried
	for m := 1; m <= 4; m++ {
		for _, before := range []bool{true, false} {
			kc := k1
			kc.crash, kc.before = m, before
			out = append(out, dScenario{label: "commit-crash-retry", setup: []dClient{u1, u3, kc}, then: []dClient{k2, k3}})
			uc := u1
			uc.crash, uc.before = m, before
			out = append(out, dScenario{label: "split-crash-rerun", setup: []dClient{uc, u2, k1}})
			xc := x1
			xc.crash, xc.before = m, before
			out = append(out, dScenario{label: "cancel-crash", setup: []dClient{u1, xc}, then: []dClient{k1}})
		}
	}
	return out
}

func diamondDriver(args []string) error {
	fl := flag.NewFlagSet("diamond", flag.ExitOnError)
	out := fl.String("out", "", "trace NDJSON")
	resOut := fl.String("res", "", "result JSON")
	work := fl.String("work", "", "scratch directory")
	seed := fl.Int64("seed", 1, "seed")
	thorough := fl.Bool("thorough", false, "more schedules")
	crc := fl.Bool("crc", false, "CRC-capable stores")
	shard := fl.Int("shard", 0, "shard index")
	shards := fl.Int("shards", 1, "number of shards")
	only := fl.String("labels", "", "comma separated scenario classes to run (default: all)")
	_ = fl.Parse(args)
	want := map[string]bool{}
	for _, l := range strings.Split(*only, ",") {
		if l = strings.TrimSpace(l); l != "" {
			want[l] = true
		}
	}
	res := vutil.NewResult("diamond")
	var all []interface{}
	labels := map[string]int{}
	n := -1
	for _, sc := range diamondScenarios(*seed, *thorough) {
		if len(want) > 0 && !want[sc.label] {
			continue
		}
		n++
		i := n
		if i%*shards != *shard {
			continue
		}
		evs, err := runDiamondScenario(sc, filepath.Join(*work, fmt.Sprintf("d%d", i)), 4096, *crc)
		if err != nil {
			return fmt.Errorf("scenario %s (%s): %w", sc.label, sc.policy, err)
		}
		all = append(all, evs...)
		res.Behaviours++
		res.Steps += len(evs)
		labels[sc.label]++
		if len(sc.racers) > 1 || len(sc.setup) > 2 {
			res.Nontrivial++
		}
		if sc.label == "two-commits" || sc.label == "random-all" {
			res.Sample(map[string]interface{}{"scenario": sc.label, "policy": sc.policy, "events": len(evs), "first": evs[:minI(len(evs), 12)]}, 2)
		}
	}
	all = append(all, map[string]interface{}{"op": "reset", "scenario": "end"})
	for k, v := range labels {
		res.Extra["scenario:"+k] = v
	}
	if err := vutil.WriteNDJSON(*out, all); err != nil {
		return err
	}
	return res.Write(*resOut)
}

func minI(a, b int) int {
	if a < b {
		return a
	}
	return b
}
