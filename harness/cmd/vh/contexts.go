package main

import (
	"context"
	"encoding/json"
	"flag"
	"fmt"
	"os"
	"path/filepath"
	"sort"
	"time"

	context2 "github.com/oneconcern/datamon/pkg/context"
	"github.com/oneconcern/datamon/pkg/core"
	"github.com/oneconcern/datamon/pkg/model"

	"verif/harness/vutil"
)

// Replay of Gen_Context.tla behaviours (extension X01) on pkg/context.CreateContext / GetContext and
// core.ListContexts over a configuration store (in-memory object store, or localfs).

func init() { subcmds["contexts"] = contextsReplay }

type ctxDesc struct {
	WAL     string `json:"wal"`
	ReadLog string `json:"readlog"`
	Blob    string `json:"blob"`
	Meta    string `json:"meta"`
	VMeta   string `json:"vmeta"`
	Version uint64 `json:"version"`
}

type ctxStep struct {
	Op    string   `json:"op"`
	Name  string   `json:"name"`
	Desc  ctxDesc  `json:"desc"`
	Res   string   `json:"res"`
	Found bool     `json:"found"`
	Names []string `json:"names"`
}

func contextsReplay(args []string) error {
	fs := flag.NewFlagSet("contexts", flag.ExitOnError)
	in := fs.String("in", "", "behaviours (NDJSON)")
	out := fs.String("out", "", "result JSON")
	backend := fs.String("backend", "model", "model|localfs")
	work := fs.String("work", "", "scratch directory")
	_ = fs.Parse(args)
	res := vutil.NewResult("contexts/" + *backend)
	ctx := context.Background()
	run := func(i int, line []byte, r *vutil.BehResult) {
		var steps []ctxStep
		if err := json.Unmarshal(line, &steps); err != nil {
			panic(err)
		}
		s, cleanup := newBackend(*backend, filepath.Join(*work, fmt.Sprintf("c%d", i)), false)
		defer cleanup()
		if i < 2 {
			r.Sample = json.RawMessage(line)
		}
		created := 0
		for j, st := range steps {
			r.Steps++
			replay := json.RawMessage(mustJSON(steps[:j+1]))
			bad := func(sig string, exp, got interface{}, detail string) {
				r.Mismatches = append(r.Mismatches, vutil.Mismatch{Beh: i, Step: j, Op: st.Op, Sig: sig, Expected: exp, Got: got, Detail: detail, Replay: replay})
			}
			vutil.Guard(r, j, st.Op, replay, func() {
				switch st.Op {
				case "create":
					err := context2.CreateContext(ctx, s, model.Context{Name: st.Name, WAL: st.Desc.WAL, ReadLog: st.Desc.ReadLog,
						Blob: st.Desc.Blob, Metadata: st.Desc.Meta, VMetadata: st.Desc.VMeta, Version: st.Desc.Version})
					switch {
					case st.Res == "ok" && err != nil:
						bad("contexts/create-refused", "ok", fmt.Sprint(err), "")
					case st.Res == "invalid" && err == nil:
						bad("contexts/invalid-context-created", "error", "ok", "")
					case st.Res == "exists" && err == nil:
						bad("contexts/existing-context-overwritten", "error", "ok", "")
					}
					if st.Res == "ok" {
						created++
					}
				case "get":
					c, err := context2.GetContext(ctx, s, st.Name)
					if !st.Found {
						if err == nil {
							bad("contexts/get-phantom", "not found", c, "")
						}
						return
					}
					if err != nil {
						bad("contexts/get-error", st.Desc, fmt.Sprint(err), "")
						return
					}
					got := ctxDesc{WAL: c.WAL, ReadLog: c.ReadLog, Blob: c.Blob, Meta: c.Metadata, VMeta: c.VMetadata, Version: c.Version}
					if got != st.Desc || c.Name != st.Name {
						bad("contexts/get-wrong-descriptor", st.Desc, got, "name "+c.Name)
					}
				case "list":
					exp := append([]string{}, st.Names...)
					sort.Strings(exp)
					got, err := core.ListContexts(s)
					if err != nil {
						bad("contexts/list-error", exp, fmt.Sprint(err), "")
						return
					}
					if got == nil {
						got = []string{}
					}
					if !vutil.EqStrings(exp, got) {
						g2 := append([]string{}, got...)
						sort.Strings(g2)
						sig := "contexts/list-wrong-names"
						if vutil.EqStrings(exp, g2) {
							sig = "contexts/list-order"
						}
						bad(sig, exp, got, "")
					}
				}
			})
		}
		r.Nontrivial = created > 16
	}
	if err := vutil.Isolated("contexts", *in, res, run, 30*time.Second); err != nil {
		return err
	}
	if os.Getenv("VH_CHILD") != "" {
		return nil
	}
	return res.Write(*out)
}
