package main

import (
	"bytes"
	"context"
	"encoding/binary"
	"encoding/hex"
	"encoding/json"
	"flag"
	"fmt"
	"io"
	"io/ioutil"
	"math/rand"
	"os"
	"runtime/debug"
	"sort"
	"strconv"
	"strings"
	"sync"
	"time"

	blake2b "github.com/minio/blake2b-simd"
	"github.com/oneconcern/datamon/pkg/cafs"
	"github.com/oneconcern/datamon/pkg/storage"
	"go.uber.org/zap"

	"verif/harness/store"
	"verif/harness/vutil"
)

func init() {
	subcmds["cafs"] = cafsReplay
}

// ---------------------------------------------------------------- refinement

type refine struct {
	L        int    // cells per leaf
	Lambda   int    // bytes per leaf
	Boundary bool   // cells cover 1, λ-2, 1 bytes instead of λ/L each
	Seed     uint64 // PRF seed
}

// cellSize is the number of bytes of the j-th cell (1-based) of a leaf.
func (r refine) cellSize(j int) int {
	if r.Boundary {
		switch {
		case j == 1 || j == r.L:
			return 1
		default:
			mid := r.L - 2
			sz := (r.Lambda - 2) / mid
			if j == r.L-1 {
				sz = (r.Lambda - 2) - sz*(mid-1)
			}
			return sz
		}
	}
	return j*r.Lambda/r.L - (j-1)*r.Lambda/r.L
}

func splitmix(x uint64) uint64 {
	x += 0x9e3779b97f4a7c15
	x = (x ^ (x >> 30)) * 0xbf58476d1ce4e5b9
	x = (x ^ (x >> 27)) * 0x94d049bb133111eb
	return x ^ (x >> 31)
}

// cellBytes: PRF(seed, value) truncated to the cell size; the first byte is
// injective in the value for the small values in use.
func (r refine) cellBytes(v, j int) []byte {
	n := r.cellSize(j)
	out := make([]byte, n)
	st := splitmix(r.Seed ^ uint64(v)*0x100000001b3)
	for i := 0; i < n; i += 8 {
		st = splitmix(st)
		var b [8]byte
		binary.LittleEndian.PutUint64(b[:], st)
		copy(out[i:], b[:])
	}
	if n > 0 {
		out[0] = byte(v*37 + int(r.Seed%251))
	}
	return out
}

// bytesOf concretizes a cell sequence that starts at a leaf boundary.
func (r refine) bytesOf(cells []int) []byte {
	var out []byte
	for i, v := range cells {
		out = append(out, r.cellBytes(v, i%r.L+1)...)
	}
	return out
}

// byteOffset is the byte offset of the start of cell index c (0-based count of cells before it).
func (r refine) byteOffset(c int) int {
	off := (c / r.L) * r.Lambda
	for j := 1; j <= c%r.L; j++ {
		off += r.cellSize(j)
	}
	return off
}

// ---------------------------------------------------------------- oracle keys

func treeKey(data []byte, leafSize uint32, depth uint8, off uint64, last bool) cafs.Key {
	h, err := blake2b.New(&blake2b.Config{
		Size: 64,
		Tree: &blake2b.Tree{Fanout: 0, MaxDepth: 2, LeafSize: leafSize, NodeOffset: off, NodeDepth: depth,
			InnerHashSize: 64, IsLastNode: last},
	})
	if err != nil {
		panic(err)
	}
	_, _ = h.Write(data)
	return cafs.MustNewKey(h.Sum(nil))
}

type absKey struct {
	Depth int             `json:"depth"`
	Off   int             `json:"off"`
	Last  bool            `json:"last"`
	Data  json.RawMessage `json:"data"`
}

func (r refine) concreteLeaf(k absKey) (cafs.Key, []byte) {
	var cells []int
	if err := json.Unmarshal(k.Data, &cells); err != nil {
		panic(err)
	}
	b := r.bytesOf(cells)
	return treeKey(b, uint32(r.Lambda), 0, uint64(k.Off), k.Last), b
}

func (r refine) concreteRoot(k absKey) (cafs.Key, []byte) {
	var leaves []absKey
	if err := json.Unmarshal(k.Data, &leaves); err != nil {
		panic(err)
	}
	var cat []byte
	for _, l := range leaves {
		lk, _ := r.concreteLeaf(l)
		cat = append(cat, lk[:]...)
	}
	root := treeKey(cat, uint32(r.Lambda), 1, 0, true)
	return root, append(append([]byte{}, cat...), root[:]...)
}

func (r refine) concrete(k absKey) (cafs.Key, []byte) {
	if k.Depth == 1 {
		return r.concreteRoot(k)
	}
	return r.concreteLeaf(k)
}

// ---------------------------------------------------------------- behaviours

type cafsEvent struct {
	Ev    string `json:"ev"`
	Cells int    `json:"cells"`
	Leaf  int    `json:"leaf"`
}

type cafsPut struct {
	Content []int       `json:"content"`
	CC      int         `json:"cc"`
	Events  []cafsEvent `json:"events"`
	Res     struct {
		Written int      `json:"written"`
		Key     absKey   `json:"key"`
		Keys    []absKey `json:"keys"`
		Found   bool     `json:"found"`
	} `json:"res"`
	BlobKeys []absKey `json:"blobkeys"`
}

// scriptedSrc hands the writer exactly the chunks the behaviour prescribes.
type scriptedSrc struct {
	chunks   chan []byte
	idle     chan struct{} // one token each time the previous Write has returned
	useRead  bool
	rest     []byte
	started  bool
	writerTo bool
	// eofWithData: the Read that delivers the last byte returns io.EOF together with the data (as readers of
	// known-length streams do) instead of a separate final (0, io.EOF)
	eofWithData bool
	total, sent int
}

type srcWriterTo struct{ *scriptedSrc }

func (s srcWriterTo) WriteTo(w io.Writer) (int64, error) {
	var total int64
	s.idle <- struct{}{}
	for c := range s.chunks {
		n, err := w.Write(c)
		total += int64(n)
		if err != nil {
			return total, err
		}
		if n != len(c) {
			return total, io.ErrShortWrite
		}
		s.idle <- struct{}{}
	}
	return total, nil
}

func (s *scriptedSrc) Read(p []byte) (int, error) {
	if len(s.rest) == 0 {
		s.idle <- struct{}{}
		c, ok := <-s.chunks
		if !ok {
			return 0, io.EOF
		}
		s.rest = c
	}
	n := copy(p, s.rest)
	s.rest = s.rest[n:]
	s.sent += n
	if s.eofWithData && s.total > 0 && s.sent == s.total {
		return n, io.EOF
	}
	return n, nil
}

type cafsCfg struct {
	ref           refine
	style         string // writeto | read
	crc           bool
	prefetch      int
	cache1        bool
	sched         bool
	reads         string // full | light | none
	rng           *rand.Rand
	schedFailures int
	dumpKeys      func(map[string]interface{})
	noVerify      bool // store instances built with VerifyHash(false): the bytes must come back all the same
	touchFails    bool // the store cannot refresh objects (Touch always fails, as on stores without that call)
	eofReads      bool // the store's readers deliver their last bytes together with io.EOF, in pieces of 1000 bytes
}

const stepWait = 15 * time.Second

func newCafs(cfg *cafsCfg, backend storage.Store, cc int) (cafs.Fs, error) {
	opts := []cafs.Option{
		cafs.LeafSize(uint32(cfg.ref.Lambda)),
		cafs.Backend(backend),
		cafs.ConcurrentFlushes(cc),
		cafs.Prefetch(cfg.prefetch),
		cafs.WithRetry(false),
		cafs.Logger(zap.NewNop()),
	}
	if cfg.noVerify {
		opts = append(opts, cafs.VerifyHash(false))
	}
	if cfg.cache1 {
		opts = append(opts, cafs.CacheSize(cfg.ref.Lambda))
	} else {
		opts = append(opts, cafs.CacheSize(8*cfg.ref.Lambda))
	}
	return cafs.New(opts...)
}

func hexKeys(m map[string][]byte) []string {
	out := make([]string, 0, len(m))
	for k := range m {
		out = append(out, k)
	}
	sort.Strings(out)
	return out
}

func short(k string) string {
	if len(k) > 12 {
		return k[:12]
	}
	return k
}

func runCafsBehaviour(cfg *cafsCfg, i int, line []byte, r *vutil.BehResult) {
	var puts []cafsPut
	if err := json.Unmarshal(line, &puts); err != nil {
		panic(err)
	}
	if i < 2 {
		r.Sample = json.RawMessage(line)
	}
	w := store.NewWorld()
	ctl := &store.Ctl{Name: "writer", PlainReaders: cfg.noVerify}
	if cfg.eofReads {
		ctl.PlainReaders, ctl.EOFWithData, ctl.ReadChunk = true, true, 1000
	}
	if cfg.touchFails {
		ctl.FaultFn = func(storeName, op, key string, nth int) bool { return op == "touch" }
	}
	var backend storage.Store
	v := store.NewView(w, "blob", ctl)
	if cfg.crc {
		backend = &store.CRCView{View: v}
	} else {
		v.NoCRC = true
		backend = v
	}
	ref := cfg.ref
	bad := func(step int, op, sig string, exp, got interface{}, detail string) {
		r.Mismatches = append(r.Mismatches, vutil.Mismatch{Beh: i, Step: step, Op: op, Sig: sig, Expected: exp, Got: got,
			Detail: detail, Replay: map[string]interface{}{"behaviour": json.RawMessage(line), "lambda": ref.Lambda,
				"boundary": ref.Boundary, "seed": ref.Seed, "style": cfg.style, "crc": cfg.crc, "prefetch": cfg.prefetch}})
	}
	absToConcrete := map[string]string{}
	concreteToAbs := map[string]string{}
	nontrivial := false
	for pi, put := range puts {
		content := ref.bytesOf(put.Content)
		if len(put.Content) > ref.L {
			nontrivial = true
		}
		fs, err := newCafs(cfg, backend, put.CC)
		if err != nil {
			panic(err)
		}
		if (i+pi)%2 == 1 {
			// the instance has a failed Put behind it: its source broke off in the middle of the first leaf
			// (nothing was stored); what the instance does next must not depend on that
			half := ref.Lambda / 2
			if half < 1 {
				half = 1
			}
			_, _ = fs.Put(context.Background(), &brokenSource{data: bytes.Repeat([]byte{0xEE}, half)})
		}
		before := w.Snapshot("blob")
		// full-leaf keys, for scheduling
		fullKey := map[int]string{}
		for _, k := range put.Res.Keys {
			if !k.Last {
				ck, _ := ref.concreteLeaf(k)
				fullKey[k.Off] = ck.String()
			}
		}
		useSched := cfg.sched && cfg.schedFailures < 3
		if useSched {
			ctl.HoldFn = func(st, op, key string) bool {
				if op != "put" {
					return false
				}
				for _, fk := range fullKey {
					if fk == key {
						return true
					}
				}
				return false
			}
		}
		src := &scriptedSrc{chunks: make(chan []byte), idle: make(chan struct{}, 1), eofWithData: cfg.style == "readeof", total: len(content)}
		var reader io.Reader = src
		if cfg.style == "writeto" {
			reader = srcWriterTo{src}
		}
		type putOut struct {
			res cafs.PutRes
			err error
			pan interface{}
		}
		outC := make(chan putOut, 1)
		go func() {
			defer func() {
				if e := recover(); e != nil {
					outC <- putOut{pan: e}
				}
			}()
			res, err := fs.Put(context.Background(), reader)
			outC <- putOut{res: res, err: err}
		}()
		var out *putOut
		waitIdle := func(step int) bool {
			select {
			case <-src.idle:
				return true
			case o := <-outC:
				out = &o
				return false
			case <-time.After(stepWait):
				bad(step, "deliver", "hang/write", nil, nil, fmt.Sprintf("put %d: Write did not return within %s", pi, stepWait))
				r.Recycle = true
				return false
			}
		}
		pos := 0
		aborted := false
		for ei, ev := range put.Events {
			r.Steps++
			switch ev.Ev {
			case "deliver":
				if !waitIdle(ei) {
					aborted = true
					break
				}
				lo, hi := ref.byteOffset(pos), ref.byteOffset(pos+ev.Cells)
				pos += ev.Cells
				src.chunks <- content[lo:hi]
			case "flushdone":
				if !useSched {
					continue
				}
				key := fullKey[ev.Leaf]
				if _, present := w.Snapshot("blob")[key]; present {
					continue // duplicate leaf: the flush completes without a write
				}
				select {
				case o := <-outC:
					out = &o // Put returned before all its input was delivered
				default:
				}
				if out != nil {
					continue
				}
				if !ctl.WaitHeld("put", key, 1500*time.Millisecond) {
					cfg.schedFailures++
					ctl.ReleaseAll()
					useSched = false
					r.Extra = addExtra(r.Extra, "sched_unmatched", 1)
					continue
				}
				ctl.Release("put", key, stepWait)
				if _, present := w.Snapshot("blob")[key]; !present {
					bad(ei, "flushdone", "put/leaf-not-stored", short(key), nil, "leaf blob absent after its flush completed")
				}
			}
			if aborted {
				break
			}
		}
		if aborted {
			ctl.ReleaseAll()
			// the Put goroutine may be stuck for ever: the parent process recycles us
			if out == nil {
				select {
				case <-outC:
				case <-time.After(200 * time.Millisecond):
				}
			}
			r.Nontrivial = nontrivial
			return
		}
		if out == nil {
			if !waitIdle(len(put.Events)) {
				if out == nil {
					ctl.ReleaseAll()
					r.Nontrivial = nontrivial
					return
				}
			} else {
				close(src.chunks)
			}
		}
		ctl.ReleaseAll()
		if out == nil {
			select {
			case o := <-outC:
				out = &o
			case <-time.After(stepWait):
				bad(len(put.Events), "finish", "hang/flush", nil, nil, "Put did not return after end of input")
				r.Recycle = true
				r.Nontrivial = nontrivial
				return
			}
		}
		r.Steps++
		if out.pan != nil {
			bad(len(put.Events), "put", "panic/put", nil, fmt.Sprint(out.pan), "")
			r.Nontrivial = nontrivial
			return
		}
		if out.err != nil {
			bad(len(put.Events), "put", "put/error", nil, out.err.Error(), "")
			r.Nontrivial = nontrivial
			return
		}
		res := out.res
		// ---- compare the result with the specification's
		if res.Written != int64(len(content)) {
			bad(len(put.Events), "put", "put/written", len(content), res.Written, "")
		}
		expRoot, expRootBlob := ref.concreteRoot(put.Res.Key)
		if res.Key != expRoot {
			bad(len(put.Events), "put", "put/key", expRoot.String(), res.Key.String(), "root key differs from the layout of Cafs.tla")
		}
		var expKeys []byte
		for _, k := range put.Res.Keys {
			ck, _ := ref.concreteLeaf(k)
			expKeys = append(expKeys, ck[:]...)
		}
		if !bytes.Equal(res.Keys, expKeys) {
			bad(len(put.Events), "put", "put/keys", hex.EncodeToString(expKeys), hex.EncodeToString(res.Keys), "leaf keys differ")
		}
		if res.Found != put.Res.Found {
			bad(len(put.Events), "put", "put/found", put.Res.Found, res.Found, "")
		}
		// ---- blob store = spec's blob store
		after := w.Snapshot("blob")
		expBlobs := map[string][]byte{}
		for _, ak := range put.BlobKeys {
			ck, data := ref.concrete(ak)
			expBlobs[ck.String()] = data
			canon := string(mustJSON(ak))
			if prev, ok := absToConcrete[canon]; ok && prev != ck.String() {
				bad(len(put.Events), "put", "key/not-functional", prev, ck.String(), "")
			}
			absToConcrete[canon] = ck.String()
			if prev, ok := concreteToAbs[ck.String()]; ok && prev != canon {
				bad(len(put.Events), "put", "key/collision", prev, canon, "two abstract keys share one concrete key")
			}
			concreteToAbs[ck.String()] = canon
		}
		_ = expRootBlob
		for k, data := range expBlobs {
			got, ok := after[k]
			if !ok {
				bad(len(put.Events), "put", "put/blob-missing", short(k), nil, "")
			} else if !bytes.Equal(got, data) {
				bad(len(put.Events), "put", "put/blob-bytes", len(data), len(got), "blob "+short(k)+" holds other bytes than the layout says")
			}
		}
		for k := range after {
			if _, ok := expBlobs[k]; !ok {
				bad(len(put.Events), "put", "put/blob-extra", nil, short(k), "")
			}
		}
		for k, data := range before {
			if got, ok := after[k]; !ok || !bytes.Equal(got, data) {
				bad(len(put.Events), "put", "put/blob-rewritten", short(k), nil, "a pre-existing blob changed")
			}
		}
		// ---- read matrix
		if cfg.reads != "none" {
			mk := func() cafs.Fs {
				f, err := newCafs(cfg, backend, put.CC)
				if err != nil {
					panic(err)
				}
				return f
			}
			readMatrix(cfg, mk, res.Key, content, func(sig string, exp, got interface{}, detail string) {
				bad(len(put.Events)+1, "read", sig, exp, got, fmt.Sprintf("put %d (%d bytes): %s", pi, len(content), detail))
			}, r)
		}
		// for the independent (Python) BLAKE2 oracle
		if cfg.dumpKeys != nil {
			cfg.dumpKeys(map[string]interface{}{
				"lambda": ref.Lambda, "content": hex.EncodeToString(content), "key": res.Key.String(),
				"keys": hex.EncodeToString(res.Keys)})
		}
	}
	r.Nontrivial = nontrivial
}

func stack() []byte { return debug.Stack() }

func addExtra(m map[string]int, k string, n int) map[string]int {
	if m == nil {
		m = map[string]int{}
	}
	m[k] += n
	return m
}

type memWriterAt struct {
	mu  sync.Mutex
	buf []byte
}

func (m *memWriterAt) WriteAt(p []byte, off int64) (int, error) {
	m.mu.Lock()
	defer m.mu.Unlock()
	end := int(off) + len(p)
	if end > len(m.buf) {
		m.buf = append(m.buf, make([]byte, end-len(m.buf))...)
	}
	copy(m.buf[off:], p)
	return len(p), nil
}

// Write makes memWriterAt an io.Writer too (localfs files are both).
func (m *memWriterAt) Write(p []byte) (int, error) {
	return m.WriteAt(p, int64(len(m.buf)))
}

type plainWriter struct{ buf bytes.Buffer }

func (p *plainWriter) Write(b []byte) (int, error) { return p.buf.Write(b) }

type failFn func(sig string, exp, got interface{}, detail string)

// seqRead drives Read with the given buffer sizes (cycled) and checks every
// call against Cafs!ReadAllowed.
func seqRead(rd io.Reader, content []byte, bufs []int, fail failFn, what string) (steps int) {
	pos := 0
	zero := 0
	for it := 0; it < len(content)*2+50; it++ {
		b := bufs[it%len(bufs)]
		p := make([]byte, b)
		n, err := rd.Read(p)
		steps++
		if n < 0 || n > b {
			fail("read/bad-count", b, n, what)
			return
		}
		if pos+n > len(content) {
			fail("read/too-long", len(content), pos+n, what)
			return
		}
		if !bytes.Equal(p[:n], content[pos:pos+n]) {
			fail("read/wrong-bytes", nil, nil, fmt.Sprintf("%s at offset %d (n=%d)", what, pos, n))
			return
		}
		pos += n
		if err == io.EOF {
			if pos != len(content) {
				fail("read/early-eof", len(content), pos, what)
			}
			return
		}
		if err != nil {
			fail("read/error", nil, err.Error(), what)
			return
		}
		if n == 0 && b > 0 {
			zero++
			if zero > 3 {
				fail("read/no-progress", nil, nil, fmt.Sprintf("%s at offset %d", what, pos))
				return
			}
		} else {
			zero = 0
		}
	}
	fail("read/no-eof", len(content), pos, what)
	return
}

func guardRead(fail failFn, what string, f func()) (panicked bool) {
	defer func() {
		if e := recover(); e != nil {
			panicked = true
			fail(vutil.PanicSig(stack()), nil, fmt.Sprint(e), what)
		}
	}()
	f()
	return false
}

func readMatrix(cfg *cafsCfg, mk func() cafs.Fs, key cafs.Key, content []byte, fail failFn, r *vutil.BehResult) {
	ctx := context.Background()
	// a panic inside the store leaves pinned buffers behind: every group of
	// reads gets its own instance and a group stops at its first panic
	fs := mk()
	lam := cfg.ref.Lambda
	n := len(content)
	bufSets := [][]int{{lam}, {lam - 1}, {lam + 1}, {2 * lam}, {3*lam + 7}}
	if lam/cfg.ref.L >= 1 {
		bufSets = append(bufSets, []int{lam / cfg.ref.L})
	}
	if n <= 8192 {
		bufSets = append(bufSets, []int{1}, []int{7})
	}
	// mixed buffer sequences
	for k := 0; k < 3; k++ {
		var seq []int
		for j := 0; j < 5; j++ {
			c := []int{1, lam - 1, lam, lam + 1, 2 * lam, lam / 2, 3}[cfg.rng.Intn(7)]
			if c < 1 {
				c = 1
			}
			seq = append(seq, c)
		}
		bufSets = append(bufSets, seq)
	}
	if cfg.reads == "light" {
		bufSets = [][]int{{lam}, {lam + 1}, bufSets[len(bufSets)-1]}
	}
	for _, bs := range bufSets {
		what := fmt.Sprintf("Read bufs=%v", bs)
		guardRead(fail, what, func() {
			rd, err := fs.Get(ctx, key)
			if err != nil {
				fail("get/error", nil, err.Error(), what)
				return
			}
			defer rd.Close()
			r.Steps += seqRead(rd, content, bs, fail, what)
		})
	}
	// ReadAt table
	offs := map[int]bool{}
	for _, o := range []int{0, 1, lam - 1, lam, lam + 1, 2*lam - 1, 2 * lam, 2*lam + 1, n - 1, n, n + 1, n + lam, n + 3*lam} {
		if o >= 0 {
			offs[o] = true
		}
	}
	lens := []int{1, lam - 1, lam, lam + 1, 2 * lam, n + 5}
	if cfg.reads == "light" {
		lens = []int{1, lam + 1, n + 5}
	}
	fs = mk()
	guardRead(fail, "GetAt", func() {
		ra, err := fs.GetAt(ctx, key)
		if err != nil {
			fail("getat/error", nil, err.Error(), "")
			return
		}
		var olist []int
		for o := range offs {
			olist = append(olist, o)
		}
		sort.Ints(olist)
		poisoned := false
		for _, o := range olist {
			for _, l := range lens {
				what := fmt.Sprintf("ReadAt(off=%d,len=%d) of %d bytes", o, l, n)
				if poisoned {
					break
				}
				poisoned = guardRead(fail, what, func() {
					p := make([]byte, l)
					m, err := ra.ReadAt(p, int64(o))
					r.Steps++
					exp := []byte{}
					if o < n {
						e := o + l
						if e > n {
							e = n
						}
						exp = content[o:e]
					}
					if err != nil && err != io.EOF {
						fail("readat/error", nil, err.Error(), what)
						return
					}
					if m != len(exp) {
						fail("readat/count", len(exp), m, what)
						return
					}
					if !bytes.Equal(p[:m], exp) {
						fail("readat/wrong-bytes", nil, nil, what)
					}
				})
			}
		}
	})
	// interleaved Read and ReadAt on one reader
	fs = mk()
	guardRead(fail, "interleaved", func() {
		rd, err := fs.Get(ctx, key)
		if err != nil {
			fail("get/error", nil, err.Error(), "interleaved")
			return
		}
		defer rd.Close()
		ra, ok := rd.(io.ReaderAt)
		if !ok || n == 0 {
			return
		}
		half := make([]byte, lam/2+1)
		m, err := rd.Read(half)
		if err != nil && err != io.EOF || !bytes.Equal(half[:m], content[:m]) {
			fail("read/wrong-bytes", nil, nil, "interleaved first read")
			return
		}
		p := make([]byte, lam)
		o := n / 2
		k, _ := ra.ReadAt(p, int64(o))
		e := o + lam
		if e > n {
			e = n
		}
		if k != e-o || !bytes.Equal(p[:k], content[o:e]) {
			fail("readat/wrong-bytes", nil, nil, "interleaved ReadAt")
		}
		rest := &offsetReader{rd: rd}
		r.Steps += seqRead(rest, content[m:], []int{lam}, fail, "interleaved rest")
	})
	// a sequential reader and a random-access reader of ONE store instance: the leaf the sequential reader is in the
	// middle of is (also) in the instance's leaf cache, then random reads of the other leaves push it out and its buffer
	// is used again - the sequential reader must go on delivering the object's bytes
	fs = mk()
	guardRead(fail, "sequential read across cache eviction", func() {
		if n <= lam {
			return
		}
		ra, err := fs.GetAt(ctx, key)
		if err != nil {
			fail("getat/error", nil, err.Error(), "seq+evict")
			return
		}
		rd, err := fs.Get(ctx, key)
		if err != nil {
			fail("get/error", nil, err.Error(), "seq+evict")
			return
		}
		defer rd.Close()
		one := make([]byte, 1)
		if _, err := ra.ReadAt(one, 0); err != nil && err != io.EOF {
			fail("readat/error", nil, err.Error(), "seq+evict: first leaf")
			return
		}
		part := make([]byte, lam/2+1)
		m, err := io.ReadFull(rd, part)
		if err != nil || !bytes.Equal(part[:m], content[:m]) {
			fail("read/wrong-bytes", nil, fmt.Sprint(err), "seq+evict: first part")
			return
		}
		nleaves := (n + lam - 1) / lam
		for round := 0; round < 3; round++ {
			for li := 1; li < nleaves; li++ {
				if _, err := ra.ReadAt(one, int64(li*lam)); err != nil && err != io.EOF {
					fail("readat/error", nil, err.Error(), fmt.Sprintf("seq+evict: leaf %d", li))
					return
				}
				time.Sleep(time.Millisecond)
			}
		}
		rest, err := ioutil.ReadAll(rd)
		r.Steps++
		if err != nil {
			fail("read/error", n-m, err.Error(), "seq+evict: rest of the sequential read after the other leaves were read at random")
			return
		}
		if !bytes.Equal(rest, content[m:]) {
			fail("read/wrong-bytes", n-m, len(rest), "seq+evict: rest of the sequential read after the other leaves were read at random")
		}
	})
	// WriteTo, plain writer and WriterAt
	fs = mk()
	for _, at := range []bool{false, true} {
		what := fmt.Sprintf("WriteTo(writerAt=%v)", at)
		guardRead(fail, what, func() {
			rd, err := fs.Get(ctx, key)
			if err != nil {
				fail("get/error", nil, err.Error(), what)
				return
			}
			defer rd.Close()
			wt, ok := rd.(io.WriterTo)
			if !ok {
				return
			}
			var got []byte
			var cnt int64
			if at {
				mw := &memWriterAt{}
				cnt, err = wt.WriteTo(mw)
				got = mw.buf
			} else {
				pw := &plainWriter{}
				cnt, err = wt.WriteTo(pw)
				got = pw.buf.Bytes()
			}
			r.Steps++
			if err != nil {
				fail("writeto/error", nil, err.Error(), what)
				return
			}
			if cnt != int64(n) {
				fail("writeto/count", n, cnt, what)
			}
			if !bytes.Equal(got, content) {
				fail("writeto/wrong-bytes", n, len(got), what)
			}
		})
	}
}

type offsetReader struct{ rd io.Reader }

func (o *offsetReader) Read(p []byte) (int, error) { return o.rd.Read(p) }

func cafsReplay(args []string) error {
	fl := flag.NewFlagSet("cafs", flag.ExitOnError)
	in := fl.String("in", "", "behaviours (NDJSON)")
	out := fl.String("out", "", "result JSON")
	lambda := fl.Int("leaf", 64, "leaf size in bytes")
	cells := fl.Int("cells", 3, "cells per leaf in the specification")
	boundary := fl.Bool("boundary", false, "boundary refinement map")
	style := fl.String("style", "writeto", "writeto|read|readeof (read, the last data arrive together with io.EOF)")
	crc := fl.Bool("crc", false, "CRC-capable store")
	prefetch := fl.Int("prefetch", 0, "reader prefetch")
	cache1 := fl.Bool("cache1", false, "cache of one leaf")
	sched := fl.Bool("sched", true, "force flush completion order")
	reads := fl.String("reads", "full", "full|light|none")
	seed := fl.Uint64("seed", 1, "seed")
	keysOut := fl.String("keys-out", "", "dump (content, key) pairs for the independent hash oracle")
	noVerify := fl.Bool("noverify", false, "build the store instances with VerifyHash(false)")
	touchFails := fl.Bool("touch-fails", false, "Touch always fails on the blob store")
	eofReads := fl.Bool("eof-reads", false, "store readers return io.EOF together with their last bytes, 1000 bytes per Read")
	leafCycle := fl.String("leaf-cycle", "", "comma separated leaf sizes used in turn by the behaviours of ONE process (state shared between store instances)")
	_ = fl.Parse(args)
	var cycle []int
	for _, f := range strings.Split(*leafCycle, ",") {
		if n, err := strconv.Atoi(strings.TrimSpace(f)); err == nil && n > 0 {
			cycle = append(cycle, n)
		}
	}
	cfg := &cafsCfg{ref: refine{L: *cells, Lambda: *lambda, Boundary: *boundary, Seed: *seed}, style: *style, crc: *crc,
		prefetch: *prefetch, cache1: *cache1, sched: *sched, reads: *reads, rng: rand.New(rand.NewSource(int64(*seed))), noVerify: *noVerify, touchFails: *touchFails, eofReads: *eofReads}
	var kf *os.File
	if *keysOut != "" && os.Getenv("VH_CHILD") != "" {
		var err error
		kf, err = os.OpenFile(*keysOut, os.O_CREATE|os.O_WRONLY|os.O_APPEND, 0644)
		if err != nil {
			return err
		}
		defer kf.Close()
		enc := json.NewEncoder(kf)
		seen := map[string]bool{}
		cfg.dumpKeys = func(v map[string]interface{}) {
			id := fmt.Sprint(v["content"], v["lambda"])
			if !seen[id] {
				seen[id] = true
				_ = enc.Encode(v)
			}
		}
	}
	res := vutil.NewResult("cafs")
	run := func(i int, line []byte, r *vutil.BehResult) {
		if len(cycle) == 0 {
			runCafsBehaviour(cfg, i, line, r)
			return
		}
		// every leaf size of the cycle in this one process, before and after each other
		for k := 0; k < len(cycle) && len(r.Mismatches) == 0; k++ {
			c := *cfg
			c.ref.Lambda = cycle[(i+k)%len(cycle)]
			runCafsBehaviour(&c, i, line, r)
		}
	}
	if err := vutil.Isolated("cafs", *in, res, run, 120*time.Second); err != nil {
		return err
	}
	if os.Getenv("VH_CHILD") != "" {
		return nil
	}
	res.Extra["lambda"] = *lambda
	res.Extra["style"] = *style
	cafsNamespaces(res, *lambda, *crc)
	return res.Write(*out)
}

// cafsNamespaces: instances with a key prefix share one backend. The duplicate flag and the stored blobs are those of the
// instance's own namespace: a first Put stores every blob under the prefix and says "new" whatever other namespaces
// hold, a second Put of the same content says "duplicate", and the object reads back through the same prefix.
func cafsNamespaces(res *vutil.Result, lambda int, crc bool) {
	bad := func(sig string, exp, got interface{}, detail string) {
		res.Add(vutil.Mismatch{Beh: -1, Op: "namespace", Sig: sig, Expected: exp, Got: got, Detail: detail})
	}
	defer func() {
		if e := recover(); e != nil {
			bad(vutil.PanicSig(stack()), nil, fmt.Sprint(e), "namespace scenario")
		}
	}()
	ctx := context.Background()
	for _, n := range []int{0, 10, lambda, 2*lambda + 7} {
		content := make([]byte, n)
		for i := range content {
			content[i] = byte(splitmix(uint64(i)+977) >> 7)
		}
		w := store.NewWorld()
		v := store.NewView(w, "blob", &store.Ctl{Name: "ns"})
		var backend storage.Store = v
		if crc {
			backend = &store.CRCView{View: v}
		} else {
			v.NoCRC = true
		}
		mk := func(prefix string) cafs.Fs {
			opts := []cafs.Option{cafs.LeafSize(uint32(lambda)), cafs.Backend(backend), cafs.WithRetry(false), cafs.Logger(zap.NewNop())}
			if prefix != "" {
				opts = append(opts, cafs.Prefix(prefix))
			}
			f, err := cafs.New(opts...)
			if err != nil {
				panic(err)
			}
			return f
		}
		var key0 cafs.Key
		for pi, prefix := range []string{"", "ns1/", "ns2/"} {
			what := fmt.Sprintf("%d bytes, prefix %q", n, prefix)
			for round := 0; round < 2; round++ {
				res.Steps++
				pr, err := mk(prefix).Put(ctx, hideWriterTo{bytes.NewReader(content)})
				if err != nil {
					bad("namespace/put-error", "ok", err.Error(), what)
					return
				}
				if pi == 0 && round == 0 {
					key0 = pr.Key
				}
				if pr.Key != key0 {
					bad("namespace/key-depends-on-prefix", key0.String(), pr.Key.String(), what)
				}
				if pr.Found != (round == 1) {
					bad("namespace/duplicate-flag", round == 1, pr.Found, fmt.Sprintf("%s, Put number %d of this content through this prefix", what, round+1))
				}
			}
			for k := range w.Snapshot("blob") {
				if pi == 0 && (strings.HasPrefix(k, "ns1/") || strings.HasPrefix(k, "ns2/")) {
					bad("namespace/foreign-blob", "no blob under another prefix", k, what)
				}
			}
			if _, ok := w.Snapshot("blob")[prefix+key0.String()]; !ok {
				bad("namespace/root-not-stored", prefix+key0.String(), nil, what)
			}
			rd, err := mk(prefix).Get(ctx, key0)
			if err != nil {
				bad("namespace/get-error", "ok", err.Error(), what)
				continue
			}
			got, err := ioutil.ReadAll(onlyReader{rd})
			_ = rd.Close()
			if err != nil || !bytes.Equal(got, content) {
				bad("namespace/read-back", len(content), len(got), fmt.Sprintf("%s: %v", what, err))
			}
		}
	}
}

// brokenSource delivers its data and then fails (not with io.EOF).
type brokenSource struct {
	data []byte
	done bool
}

func (b *brokenSource) Read(p []byte) (int, error) {
	if b.done {
		return 0, fmt.Errorf("verif: the source broke off")
	}
	b.done = true
	return copy(p, b.data), nil
}
