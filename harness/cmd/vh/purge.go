package main

import (
	"bufio"
	"bytes"
	"context"
	"encoding/json"
	"flag"
	"fmt"
	"os"
	"path/filepath"
	"sort"
	"strings"
	"sync"
	"time"

	context2 "github.com/oneconcern/datamon/pkg/context"
	"github.com/oneconcern/datamon/pkg/core"
	"github.com/oneconcern/datamon/pkg/model"
	"go.uber.org/zap"

	"verif/harness/store"
	"verif/harness/vutil"
)

func init() {
	subcmds["purge"] = purgeReplay
	subcmds["purgelock"] = purgeLockRace
}

type purgeCase struct {
	Pre []struct {
		Op string `json:"op"`
		B  string `json:"b"`
	} `json:"pre"`
	Prebuild    int      `json:"prebuild"`
	Chunk       int      `json:"chunk"`
	Crash       int      `json:"crash"`
	BuildFault  string   `json:"buildfault"`
	ResumeFault string   `json:"resumefault"`
	Early       bool     `json:"early"`
	TouchFault  string   `json:"touchfault"`
	Between     []string `json:"between"`
	DeleteFault string   `json:"deletefault"`
	Visible     []string `json:"visible"`
	Index       []string `json:"index"`
	BlobsBefore []string `json:"blobsBefore"`
	RefDeleted  []string `json:"refDeleted"`
	Needed      []string `json:"needed"`
	Exact       bool     `json:"exact"`
	Incremental bool     `json:"incremental"`
	Index2      []string `json:"index2"`
}

// purge fixture: f1 = A|B1, f2 = A|B2 (they share the full leaf A), f3 = C
type purgeFixture struct {
	e       *metaEnv
	content map[string][]byte
	keyOf   map[string]string // abstract key -> concrete
	absOf   map[string]string
	files   map[string][]string // bundle -> files
	ids     map[string]int
}

// purgeBigFile: file f9 (bundle b5) gets more than 1024 leaves (its root blob is larger than 64 KiB); all its leaf
// blobs stand for the abstract key l9
var purgeBigFile bool

func newPurgeFixture(e *metaEnv) *purgeFixture {
	lam := e.lambda
	blk := func(tag byte, n int) []byte {
		b := make([]byte, n)
		st := splitmix(uint64(tag)*7919 + e.seed)
		for i := range b {
			if i%8 == 0 {
				st = splitmix(st)
			}
			b[i] = byte(st >> (8 * uint(i%8)))
		}
		return b
	}
	a := blk('A', lam)
	f := &purgeFixture{e: e, content: map[string][]byte{
		"f1": append(append([]byte{}, a...), blk('1', 10)...),
		"f2": append(append([]byte{}, a...), blk('2', 10)...),
		"f3": blk('3', 10),
	}, keyOf: map[string]string{}, absOf: map[string]string{},
		files: map[string][]string{"b1": {"f1"}, "b2": {"f1", "f2"}, "b3": {"f3"}, "b4": {"f3"},
			"b5": {"f4", "f5", "f6", "f7", "f8", "f9"}},
		ids: map[string]int{"b1": 1, "b2": 2, "b3": 3, "b4": 4, "b5": 5}}
	for n := 4; n <= 9; n++ {
		f.content[fmt.Sprintf("f%d", n)] = blk(byte('0'+n), 10)
	}
	set := func(abs string, k string) { f.keyOf[abs] = k; f.absOf[k] = abs }
	lA := treeKey(a, uint32(lam), 0, 1, false)
	set("l12", lA.String())
	for i, name := range []string{"f1", "f2"} {
		tail := f.content[name][lam:]
		lt := treeKey(tail, uint32(lam), 0, 1, true)
		set([]string{"l1", "l2"}[i], lt.String())
		root := treeKey(append(append([]byte{}, lA[:]...), lt[:]...), uint32(lam), 1, 0, true)
		set([]string{"r1", "r2"}[i], root.String())
	}
	if purgeBigFile {
		big := blk('B', lam*1030+10)
		f.content["f9"] = big
		var cat []byte
		for i := 0; i < 1030; i++ {
			k := treeKey(big[i*lam:(i+1)*lam], uint32(lam), 0, uint64(i+1), false)
			f.absOf[k.String()] = "l9"
			cat = append(cat, k[:]...)
		}
		lt := treeKey(big[1030*lam:], uint32(lam), 0, 1030, true)
		set("l9", lt.String())
		cat = append(cat, lt[:]...)
		set("r9", treeKey(cat, uint32(lam), 1, 0, true).String())
	}
	// f8 is an empty file: its root blob (the hash of no leaf keys) is its only object
	f.content["f8"] = []byte{}
	set("r8", treeKey(nil, uint32(lam), 1, 0, true).String())
	for n := 3; n <= 9; n++ {
		if n == 9 && purgeBigFile || n == 8 {
			continue
		}
		ln := treeKey(f.content[fmt.Sprintf("f%d", n)], uint32(lam), 0, 0, true)
		set(fmt.Sprintf("l%d", n), ln.String())
		rn := treeKey(ln[:], uint32(lam), 1, 0, true)
		set(fmt.Sprintf("r%d", n), rn.String())
	}
	return f
}

func (f *purgeFixture) upload(stores context2.Stores, b string, gen int) error {
	dir := f.e.scratch("psrc")
	for _, name := range f.files[b] {
		if err := os.WriteFile(filepath.Join(dir, name), f.content[name], 0600); err != nil {
			return err
		}
	}
	bun := f.e.newBundle(stores, "r1", f.e.ksuidFor(f.ids[b]*10+gen), localStore(dir))
	return core.Upload(context.Background(), bun)
}

func (f *purgeFixture) abstractBlobs() []string {
	var out []string
	for _, k := range f.e.w.KeysOf("blob") {
		if a, ok := f.absOf[k]; ok {
			out = append(out, a)
		} else {
			out = append(out, "?"+short(k))
		}
	}
	sort.Strings(out)
	return dedupeSorted(out)
}

// dedupeSorted: with the big file, its 1031 leaf blobs all stand for "l9"
func dedupeSorted(in []string) []string {
	if !purgeBigFile {
		return in
	}
	var out []string
	for i, s := range in {
		if i == 0 || s != in[i-1] {
			out = append(out, s)
		}
	}
	return out
}

func (f *purgeFixture) indexKeys() ([]string, int) {
	snap := f.e.w.Snapshot("meta")
	var out []string
	chunks := 0
	for k, data := range snap {
		if !strings.HasPrefix(k, model.ReverseIndexPrefix()) {
			continue
		}
		chunks++
		sc := bufio.NewScanner(bytes.NewReader(data))
		first := true
		for sc.Scan() {
			if first {
				first = false
				continue
			}
			if a, ok := f.absOf[sc.Text()]; ok {
				out = append(out, a)
			} else {
				out = append(out, "?"+short(sc.Text()))
			}
		}
	}
	sort.Strings(out)
	return dedupeSorted(out), chunks
}

func purgeOpts(dir string, chunk int) []core.PurgeOption {
	return []core.PurgeOption{core.WithPurgeLocalStore(dir), core.WithPurgeIndexChunkSize(uint64(chunk)), core.WithPurgeLogger(zap.NewNop()),
		core.WithPurgeParallel(2), core.WithPurgeMonitorInterval(time.Hour)}
}

func purgeReplay(args []string) error {
	fl := flag.NewFlagSet("purge", flag.ExitOnError)
	in := fl.String("in", "", "cases (NDJSON)")
	out := fl.String("out", "", "result JSON")
	work := fl.String("work", "", "scratch directory")
	seed := fl.Uint64("seed", 1, "seed")
	crc := fl.Bool("crc", false, "CRC-capable stores")
	big := fl.Bool("big-file", false, "file f9 of bundle b5 has more than 1024 leaves")
	_ = fl.Parse(args)
	purgeBigFile = *big
	res := vutil.NewResult("purge")
	run := func(i int, line []byte, r *vutil.BehResult) {
		var c purgeCase
		if err := json.Unmarshal(line, &c); err != nil {
			panic(err)
		}
		if i < 2 {
			r.Sample = json.RawMessage(line)
		}
		wdir := filepath.Join(*work, fmt.Sprintf("p%d", i))
		defer os.RemoveAll(wdir)
		e := newMetaEnv(wdir, 64, *seed, *crc)
		e.conc = 2
		fx := newPurgeFixture(e)
		// every purge command of the scenario works from the same local index directory, as an operator running
		// them from one working directory does (nothing of a previous command may leak into the next)
		kvDir := e.scratch("kv")
		class := "plain"
		switch {
		case c.Crash != 99:
			class = "crash-resume"
		case strings.HasPrefix(c.BuildFault, "rootget"):
			class = "scan-read-fault"
		case c.BuildFault != "none":
			class = "chunk-write-fault"
		case c.DeleteFault != "none":
			class = "delete-phase-fault-" + strings.TrimRight(c.DeleteFault, "0123456789")
		default:
			for _, b := range c.Between {
				for _, name := range fx.files[b] {
					_ = name
				}
				class = "upload-between"
				_ = b
			}
		}
		bad := func(sig string, exp, got interface{}, detail string) {
			r.Mismatches = append(r.Mismatches, vutil.Mismatch{Beh: i, Op: "purge", Sig: sig, Expected: exp, Got: got, Detail: detail,
				Replay: map[string]interface{}{"case": json.RawMessage(line), "seed": *seed, "crc": *crc}})
		}
		stores, _ := e.client()
		if err := core.CreateRepo(model.RepoDescriptor{Name: "r1", Description: "d", Timestamp: time.Now(), Contributor: contributor()}, stores); err != nil {
			panic(err)
		}
		gen := map[string]int{}
		visible := map[string]int{}
		for si, st := range c.Pre {
			if c.Prebuild > 0 && si == c.Prebuild {
				// an earlier, complete index (one key per chunk): its chunk files must not leak into the next index
				pst, _ := e.client()
				if _, err := core.PurgeBuildReverseIndex(pst, purgeOpts(kvDir, 1)...); err != nil {
					panic(err)
				}
				time.Sleep(2 * time.Millisecond)
				// ... and, for every other scenario, the complete earlier purge round: what it removes (old blobs no
				// bundle references) would be removed by the round under test as well
				if (i+int(*seed))%2 == 0 {
					if _, err := core.PurgeDeleteUnused(pst, purgeOpts(kvDir, 1)...); err != nil {
						panic(err)
					}
					time.Sleep(2 * time.Millisecond)
				}
			}
			r.Steps++
			if st.Op == "up" {
				gen[st.B]++
				if err := fx.upload(stores, st.B, gen[st.B]); err != nil {
					panic(err)
				}
				visible[st.B] = gen[st.B]
			} else {
				if err := core.DeleteBundle("r1", stores, e.ksuidFor(fx.ids[st.B]*10+visible[st.B])); err != nil {
					panic(err)
				}
				delete(visible, st.B)
			}
		}
		r.Nontrivial = len(c.Pre) > 1 || len(c.Between) > 0
		time.Sleep(2 * time.Millisecond)
		// ---- build the index
		success := true
		var idxTime time.Time // the index time reported by the last successful build
		build := func(resume bool, crashAfter int, fault string) (err error) {
			bstores, ctl := e.client()
			if crashAfter >= 0 {
				// every chunk is a delete followed by a put on the metadata store
				ctl.CrashStore, ctl.CrashAt, ctl.Before = "meta", 2*crashAfter+2, true
			}
			switch fault {
			case "scanlist":
				// one transient failure of a listing of bundle metadata during the scan
				fired := false
				ctl.FaultFn = func(storeName, op, key string, nth int) bool {
					if !fired && storeName == "meta" && op == "list" && strings.HasPrefix(key, "bundles/") {
						fired = true
						return true
					}
					return false
				}
			case "rootget1", "rootget2":
				// a transient failure of a read of a root blob while the bundles are scanned
				ctl.FaultStore, ctl.FaultOp = "blob", "get"
				ctl.FaultAt = 1
				if fault == "rootget2" {
					ctl.FaultAt = 2
				}
			case "chunkput1", "chunkput2":
				ctl.FaultStore, ctl.FaultOp, ctl.FaultBytes = "meta", "put", 1<<20
				ctl.FaultAt = 1
				if fault == "chunkput2" {
					ctl.FaultAt = 2
				}
			}
			opts := purgeOpts(kvDir, c.Chunk)
			if resume {
				opts = append(opts, core.WithPurgeResumeIndex(true))
			}
			defer func() {
				if p := recover(); p != nil {
					bad(vutil.PanicSig(stack()), nil, fmt.Sprint(p), fmt.Sprintf("index build (resume=%v)", resume))
					err = fmt.Errorf("panic")
				}
			}()
			desc, err := core.PurgeBuildReverseIndex(bstores, opts...)
			if err == nil && desc != nil {
				idxTime = desc.IndexTime
			}
			return err
		}
		r.Steps++
		crash := -1
		if c.Crash != 99 {
			crash = c.Crash
		}
		if err := build(false, crash, c.BuildFault); err != nil {
			if crash < 0 {
				success = false
			} else {
				// uploads that start while the build is interrupted: their blobs are written now, their
				// descriptor is held back until the resumed build has finished
				var pendings []chan error
				var pctls []*store.Ctl
				if _, stored := fx.indexKeys(); stored == 0 {
					// no chunk of the interrupted build was stored: the resumed build is a new index, started now
					c.Early = false
				}
				if c.Early {
					for _, b := range c.Between {
						ustores, uctl := e.client()
						uctl.HoldFn = func(storeName, op, key string) bool {
							return storeName == "meta" && op == "put" && strings.HasSuffix(key, "bundle.yaml")
						}
						gen[b]++
						done := make(chan error, 1)
						go func(b string, g int) { done <- fx.upload(ustores, b, g) }(b, gen[b])
						for t0 := time.Now(); len(uctl.HeldKeys()) == 0 && time.Since(t0) < 20*time.Second; {
							time.Sleep(time.Millisecond)
						}
						if len(uctl.HeldKeys()) == 0 {
							panic("driver: the early upload did not reach its descriptor write")
						}
						pendings = append(pendings, done)
						pctls = append(pctls, uctl)
						visible[b] = gen[b]
					}
					time.Sleep(2 * time.Millisecond)
				}
				defer func() {
					for _, u := range pctls {
						u.ReleaseAll()
					}
				}()
				r.Steps++
				rf := c.ResumeFault
				if rf == "" {
					rf = "none"
				}
				err := build(true, -1, rf)
				if err != nil && rf != "none" {
					// the resumed build reported the transient failure: the operator resumes again
					r.Steps++
					err = build(true, -1, "none")
				}
				if err != nil {
					success = false
				}
				for i, u := range pctls {
					u.ReleaseAll()
					if uerr := <-pendings[i]; uerr != nil {
						panic(fmt.Sprintf("driver: early upload failed: %v", uerr))
					}
				}
				pctls = nil
			}
		} else if crash >= 0 {
			// the crash point was beyond the end of the build: it simply completed
			crash = -1
		}
		time.Sleep(2 * time.Millisecond)
		for _, b := range c.Between {
			if c.Early && crash >= 0 {
				break // uploaded while the build was interrupted (above)
			}
			r.Steps++
			gen[b]++
			ustores := stores
			if c.TouchFault == "touch1" {
				// the first refresh of a re-used blob fails once: the upload must still leave every blob it
				// needs fresh (or report the failure)
				var uctl *store.Ctl
				ustores, uctl = e.client()
				uctl.FaultStore, uctl.FaultOp, uctl.FaultAt = "blob", "touch", 1
			}
			// for every other scenario the blob store's clock reads a fraction of a millisecond after the index
			// time while the uploads in between run (a store whose clock is behind the indexing client's, or an upload
			// that began right at the index time): what they write or refresh is more recent than the index
			if !idxTime.IsZero() && (i+int(*seed))%2 == 1 {
				ticks := 0
				e.w.Clock = func() time.Time {
					ticks++
					return idxTime.Add(400*time.Microsecond + time.Duration(ticks))
				}
			}
			uerr := fx.upload(ustores, b, gen[b])
			e.w.Clock = nil
			if err := uerr; err != nil {
				if c.TouchFault == "touch1" {
					// reported: the operator uploads again
					if err2 := fx.upload(stores, b, gen[b]); err2 != nil {
						panic(err2)
					}
				} else {
					panic(err)
				}
			}
			visible[b] = gen[b]
		}
		if c.Incremental && success && len(c.Between) > 0 {
			// the complete index is extended by a resumed build (no crash, no fault)
			r.Steps++
			if err := build(true, -1, "none"); err != nil {
				success = false
			}
			c.Index = c.Index2
			c.RefDeleted = nil
			for _, k := range c.BlobsBefore {
				in := false
				for _, x := range c.Index2 {
					if x == k {
						in = true
					}
				}
				if !in {
					c.RefDeleted = append(c.RefDeleted, k)
				}
			}
		}
		idx, nchunks := fx.indexKeys()
		if success && c.Exact {
			exp := sortedStrings(c.Index)
			if !vutil.EqStrings(idx, exp) {
				bad(classifySeq("purge/index", exp, idx), exp, idx, fmt.Sprintf("chunk size %d, %d chunk files", c.Chunk, nchunks))
			}
		}
		// ---- delete unused
		if success {
			dstores, ctl := e.client()
			switch strings.TrimRight(c.DeleteFault, "0123456789") {
			case "attr":
				ctl.FaultStore, ctl.FaultOp = "blob", "attr"
			case "del":
				ctl.FaultStore, ctl.FaultOp = "blob", "del"
			case "list":
				ctl.FaultStore, ctl.FaultOp = "blob", "list"
			}
			if c.DeleteFault != "none" {
				fmt.Sscanf(strings.TrimLeft(c.DeleteFault, "atrdelis"), "%d", &ctl.FaultAt)
			}
			r.Steps++
			func() {
				defer func() {
					if p := recover(); p != nil {
						bad(vutil.PanicSig(stack()), nil, fmt.Sprint(p), "delete-unused")
						success = false
					}
				}()
				if _, err := core.PurgeDeleteUnused(dstores, purgeOpts(kvDir, c.Chunk)...); err != nil {
					success = false
				}
			}()
		}
		r.Extra = addExtra(r.Extra, "class:"+class, 1)
		if !success {
			// a command reported failure: the property makes no promise (and the operator knows)
			r.Extra = addExtra(r.Extra, "command-failed", 1)
			return
		}
		// ---- safety: every committed bundle still downloads
		for b, g := range visible {
			r.Steps++
			dir := e.scratch("pdl")
			bun := e.newBundle(stores, "r1", e.ksuidFor(fx.ids[b]*10+g), localStore(dir))
			err := core.Publish(context.Background(), bun)
			ok := err == nil
			if ok {
				for _, name := range fx.files[b] {
					got, rerr := os.ReadFile(filepath.Join(dir, name))
					if rerr != nil || !bytes.Equal(got, fx.content[name]) {
						ok = false
					}
				}
			}
			if !ok {
				bad("purge/needed-blob-deleted/"+class, "bundle "+b+" downloads", errString(err),
					fmt.Sprintf("blobs left: %v; index: %v", fx.abstractBlobs(), idx))
			}
			_ = os.RemoveAll(dir)
		}
		// ---- exactness (no crash, no fault): exactly the unreferenced old blobs are gone
		if c.Exact {
			keep := map[string]bool{}
			for _, k := range c.BlobsBefore {
				keep[k] = true
			}
			needNew := map[string]bool{}
			for _, b := range c.Between {
				for _, name := range fx.files[b] {
					switch name {
					case "f1":
						needNew["r1"], needNew["l1"], needNew["l12"] = true, true, true
					case "f2":
						needNew["r2"], needNew["l2"], needNew["l12"] = true, true, true
					default:
						needNew["r"+name[1:]], needNew["l"+name[1:]] = true, true
					}
				}
			}
			for _, k := range c.RefDeleted {
				if !needNew[k] {
					delete(keep, k)
				}
			}
			var exp []string
			for k := range keep {
				exp = append(exp, k)
			}
			sort.Strings(exp)
			got := fx.abstractBlobs()
			if !vutil.EqStrings(got, exp) {
				sig := classifySeq("purge/blobs-after", exp, got)
				bad(sig, exp, got, "blob store after delete-unused")
			}
		}
	}
	if err := vutil.Isolated("purge", *in, res, run, 120*time.Second); err != nil {
		return err
	}
	if os.Getenv("VH_CHILD") != "" {
		return nil
	}
	return res.Write(*out)
}

// purgeLockRace: concurrent PurgeLock calls; exactly one wins unless forced.
func purgeLockRace(args []string) error {
	fl := flag.NewFlagSet("purgelock", flag.ExitOnError)
	out := fl.String("out", "", "trace NDJSON (ObjectStoreTrace format)")
	resOut := fl.String("res", "", "result JSON")
	rounds := fl.Int("rounds", 40, "rounds")
	_ = fl.Parse(args)
	res := vutil.NewResult("purgelock")
	var trace []interface{}
	for round := 0; round < *rounds; round++ {
		e := newMetaEnv("", 64, uint64(round), round%2 == 0)
		n := 2 + round%4
		oks := make([]bool, n)
		var wg sync.WaitGroup
		start := make(chan struct{})
		for i := 0; i < n; i++ {
			wg.Add(1)
			go func(i int) {
				defer wg.Done()
				st, _ := e.client()
				<-start
				// the option set of the commands: force as given (off), resume for every other job
				oks[i] = core.PurgeLock(st, core.WithPurgeLogger(zap.NewNop()), core.WithPurgeForce(false),
					core.WithPurgeResumeIndex(i%2 == 1)) == nil
			}(i)
		}
		close(start)
		wg.Wait()
		key := fmt.Sprintf("lock-%d", round)
		trace = append(trace, map[string]interface{}{"op": "del", "key": key})
		winners := 0
		sort.Slice(oks, func(a, b int) bool { return oks[a] && !oks[b] })
		for i, ok := range oks {
			rs := "exists"
			if ok {
				rs = "ok"
				winners++
			}
			trace = append(trace, map[string]interface{}{"op": "put", "key": key, "val": i + 1, "excl": true, "res": rs})
		}
		st, _ := e.client()
		// a forced lock always succeeds; unlock removes it; a new lock then succeeds
		forced := core.PurgeLock(st, core.WithPurgeForce(true), core.WithPurgeLogger(zap.NewNop())) == nil
		unlocked := core.PurgeUnlock(st, core.WithPurgeLogger(zap.NewNop())) == nil
		again := core.PurgeLock(st, core.WithPurgeLogger(zap.NewNop()), core.WithPurgeForce(false), core.WithPurgeResumeIndex(true)) == nil
		// (a job asking to resume an index does not own the lock for that: it is refused like any other)
		second := core.PurgeLock(st, core.WithPurgeLogger(zap.NewNop()), core.WithPurgeForce(false), core.WithPurgeResumeIndex(round%2 == 0)) == nil
		res.Behaviours++
		res.Steps += n + 4
		res.Nontrivial++
		if winners != 1 {
			res.Add(vutil.Mismatch{Beh: round, Op: "purgelock", Sig: fmt.Sprintf("purgelock/winners=%d", winners), Expected: 1, Got: winners})
		}
		if !forced || !unlocked || !again || second {
			res.Add(vutil.Mismatch{Beh: round, Op: "purgelock", Sig: "purgelock/force-unlock-relock",
				Got: fmt.Sprintf("forced=%v unlocked=%v relock=%v second=%v", forced, unlocked, again, second)})
		}
	}
	res.Sample(trace[:minI(len(trace), 6)], 1)
	if err := vutil.WriteNDJSON(*out, trace); err != nil {
		return err
	}
	return res.Write(*resOut)
}

var _ = store.NewWorld
