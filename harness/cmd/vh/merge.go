package main

import (
	"context"
	"encoding/json"
	"flag"
	"fmt"
	"os"
	"path/filepath"
	"sort"
	"strings"
	"time"

	context2 "github.com/oneconcern/datamon/pkg/context"
	"github.com/oneconcern/datamon/pkg/core"
	"github.com/oneconcern/datamon/pkg/model"
	"github.com/segmentio/ksuid"
	"go.uber.org/zap"
	"gopkg.in/yaml.v2"

	"verif/harness/store"
	"verif/harness/vutil"
)

func init() {
	subcmds["merge"] = mergeReplay
}

type mergeVersion struct {
	Split string `json:"split"`
	Path  string `json:"path"`
	Hash  string `json:"hash"`
	TS    int    `json:"ts"`
}

type mergeCase struct {
	Versions []mergeVersion `json:"versions"`
	Mode     string         `json:"mode"`
	Order    []string       `json:"order"`
	Single   bool           `json:"single"`
	Empties  []string       `json:"empties"`
	Expected struct {
		Fails bool `json:"fails"`
		Main  []struct {
			Path string `json:"path"`
			Hash string `json:"hash"`
		} `json:"main"`
		Extras []struct {
			Dir   string `json:"dir"`
			Split string `json:"split"`
			Path  string `json:"path"`
			Hash  string `json:"hash"`
		} `json:"extras"`
	} `json:"expected"`
}

var modeOf = map[string]model.ConflictMode{
	"ignore": model.IgnoreConflicts, "conflicts": model.EnableConflicts, "checkpoints": model.EnableCheckpoints, "forbid": model.ForbidConflicts,
}

// hashContent maps the abstract hashes h1, h2, ... to contents.
func hashContent(h string) string {
	switch h {
	case "h1":
		return "s"
	case "h2":
		return "t"
	case "h3":
		return "m"
	default:
		return "e"
	}
}

func contributor() model.Contributor { return model.Contributor{Name: "v", Email: "v@example.com"} }

// mergeBulk: every split run also uploads that many filler files (same names and contents in every split: they
// never conflict); with more than 1000 of them every split has several file lists and so has the commit
var mergeBulk int

// uploadSplit creates (or restarts) a split and uploads the given files.
func (e *metaEnv) uploadSplit(stores context2.Stores, repo, diamondID, splitID string, files []treeEntry) error {
	src, _ := e.writeTree(files, mergeBulk)
	sd := model.NewSplitDescriptor(model.SplitID(splitID), model.SplitContributor(contributor()))
	opts := []core.SplitOption{core.SplitDescriptor(sd), core.SplitConsumableStore(src), core.SplitLogger(zap.NewNop()),
		core.SplitConcurrentFileUploads(e.conc)}
	got, err := core.CreateSplit(repo, diamondID, stores, opts...)
	if err != nil {
		return fmt.Errorf("create split: %w", err)
	}
	sd2 := model.NewSplitDescriptor(model.SplitClone(got))
	opts[0] = core.SplitDescriptor(sd2)
	s := core.NewSplit(repo, diamondID, stores, opts...)
	s.BundleDescriptor.LeafSize = uint32(e.lambda)
	return s.Upload()
}

// retime rewrites the upload times recorded in the file lists of the done
// splits so that their order is the behaviour's (the merge input).
func (e *metaEnv) retime(repo, diamondID string, ts map[string]int) error {
	snap := e.w.Snapshot("vmeta")
	prefix := model.GetArchivePathPrefixToSplits(repo, diamondID)
	base := time.Date(2021, 1, 1, 0, 0, 0, 0, time.UTC)
	for k, data := range snap {
		if !strings.HasPrefix(k, prefix) || !strings.Contains(k, "/bundle-files-") {
			continue
		}
		apc, err := model.GetArchivePathComponents(k)
		if err != nil {
			return err
		}
		var be model.BundleEntries
		if err := yaml.Unmarshal(data, &be); err != nil {
			return err
		}
		for i := range be.BundleEntries {
			rank, ok := ts[apc.SplitID+"\x00"+be.BundleEntries[i].NameWithPath]
			if !ok && strings.HasPrefix(be.BundleEntries[i].NameWithPath, "bulk/") {
				continue // filler files: identical in every split, their times do not matter
			}
			if !ok {
				return fmt.Errorf("no time for %s %s", apc.SplitID, be.BundleEntries[i].NameWithPath)
			}
			be.BundleEntries[i].Timestamp = base.Add(time.Duration(rank) * time.Minute)
		}
		out, err := yaml.Marshal(be)
		if err != nil {
			return err
		}
		e.w.RawSet("vmeta", k, out)
	}
	return nil
}

func mergeReplay(args []string) error {
	fl := flag.NewFlagSet("merge", flag.ExitOnError)
	in := fl.String("in", "", "cases (NDJSON)")
	out := fl.String("out", "", "result JSON")
	lambda := fl.Int("leaf", 64, "leaf size")
	crc := fl.Bool("crc", false, "CRC-capable stores")
	work := fl.String("work", "", "scratch directory")
	seed := fl.Uint64("seed", 1, "seed")
	sched := fl.Bool("sched", true, "force the arrival order of the split file lists")
	bulk := fl.Int("bulk", 0, "filler files uploaded by every split run")
	smallPages := fl.Bool("small-pages", false, "commits list the splits with page sizes 1, 2, 3, 5 (and the default) in turn")
	_ = fl.Parse(args)
	mergeBulk = *bulk
	res := vutil.NewResult("merge")
	run := func(i int, line []byte, r *vutil.BehResult) {
		var c mergeCase
		if err := json.Unmarshal(line, &c); err != nil {
			panic(err)
		}
		if i < 2 {
			r.Sample = json.RawMessage(line)
		}
		wdir := filepath.Join(*work, fmt.Sprintf("m%d", i))
		defer os.RemoveAll(wdir)
		e := newMetaEnv(wdir, *lambda, *seed, *crc)
		bad := func(sig string, exp, got interface{}, detail string) {
			r.Mismatches = append(r.Mismatches, vutil.Mismatch{Beh: i, Op: "commit", Sig: sig, Expected: exp, Got: got, Detail: detail,
				Replay: map[string]interface{}{"case": json.RawMessage(line), "lambda": *lambda, "crc": *crc, "seed": *seed}})
		}
		stores, _ := e.client()
		repo := "r1"
		if err := core.CreateRepo(model.RepoDescriptor{Name: repo, Description: "d", Timestamp: time.Now(), Contributor: contributor()}, stores); err != nil {
			panic(err)
		}
		did := ksuid.New().String()
		if _, err := core.CreateDiamond(repo, stores, core.DiamondDescriptor(model.NewDiamondDescriptor(model.DiamondID(did))),
			core.DiamondLogger(zap.NewNop())); err != nil {
			panic(err)
		}
		bySplit := map[string][]treeEntry{}
		ts := map[string]int{}
		splits := map[string]bool{}
		for _, v := range c.Versions {
			bySplit[v.Split] = append(bySplit[v.Split], treeEntry{P: v.Path, C: hashContent(v.Hash)})
			ts[v.Split+"\x00"+v.Path] = v.TS
			splits[v.Split] = true
		}
		r.Nontrivial = len(splits) > 1
		for _, sid := range c.Empties {
			bySplit[sid] = nil
		}
		for sid, files := range bySplit {
			if err := e.uploadSplit(stores, repo, did, sid, files); err != nil {
				bad("split/upload-error", "ok", err.Error(), sid)
				return
			}
			r.Steps++
		}
		if err := e.retime(repo, did, ts); err != nil {
			panic(err)
		}
		// commit, with the file lists arriving in the behaviour's order
		cstores, ctl := e.client()
		prefix := model.GetArchivePathPrefixToSplits(repo, did)
		if *sched {
			ctl.HoldFn = func(st, op, key string) bool {
				return st == "vmeta" && op == "get" && strings.HasPrefix(key, prefix) && strings.Contains(key, "/bundle-files-")
			}
		}
		d := core.NewDiamond(repo, cstores,
			core.DiamondDescriptor(model.NewDiamondDescriptor(model.DiamondID(did), model.DiamondMode(modeOf[c.Mode]))),
			core.DiamondMessage("commit"), core.DiamondLogger(zap.NewNop()))
		d.BundleDescriptor.LeafSize = uint32(*lambda)
		errC := make(chan error, 1)
		var copts []core.Option
		if *smallPages {
			if b := []int{0, 1, 2, 3, 5}[i%5]; b > 0 {
				copts = append(copts, core.BatchSize(b))
			}
		}
		go func() { errC <- d.Commit(copts...) }()
		if *sched {
			// keys of the held gets, by split
			for _, sid := range c.Order {
				want := prefix + sid + "/"
				deadline := time.Now().Add(3 * time.Second)
				released := false
				for time.Now().Before(deadline) && !released {
					for _, k := range ctl.HeldKeys() {
						if strings.HasPrefix(k, "get "+want) {
							ctl.Release("get", strings.TrimPrefix(k, "get "), 2*time.Second)
							released = true
						}
					}
					if !released {
						select {
						case err := <-errC:
							errC <- err
							released = true
						default:
							time.Sleep(time.Millisecond)
						}
					}
				}
				time.Sleep(3 * time.Millisecond)
			}
			ctl.ReleaseAll()
		}
		var cerr error
		select {
		case cerr = <-errC:
		case <-time.After(60 * time.Second):
			bad("hang/commit", nil, nil, "")
			r.Recycle = true
			return
		}
		r.Steps++
		if c.Expected.Fails {
			if cerr == nil {
				bad("merge/forbid-did-not-fail", "error", "ok", "")
			}
			return
		}
		if cerr != nil {
			bad("merge/commit-error", "ok", cerr.Error(), "")
			return
		}
		// read the committed bundle back
		ostores, _ := e.client()
		dd, err := core.GetDiamond(repo, did, ostores, core.DiamondLogger(zap.NewNop()))
		if err != nil {
			bad("merge/diamond-unreadable", "ok", err.Error(), "")
			return
		}
		if dd.State != model.DiamondDone || dd.BundleID == "" {
			bad("merge/diamond-not-done", "done", string(dd.State), dd.BundleID)
			return
		}
		b := e.newBundle(ostores, repo, dd.BundleID, nil)
		if err := core.DownloadMetadata(context.Background(), b); err != nil {
			bad("merge/bundle-unreadable", "ok", err.Error(), "")
			return
		}
		got := map[string]string{}
		for _, en := range b.GetBundleEntries() {
			if _, dup := got[en.NameWithPath]; dup {
				bad("merge/duplicate-entry", nil, en.NameWithPath, "")
			}
			got[en.NameWithPath] = en.Hash
		}
		exp := map[string]string{}
		for _, m := range c.Expected.Main {
			exp[m.Path] = e.contentKey(hashContent(m.Hash))
		}
		for _, x := range c.Expected.Extras {
			exp[x.Dir+"/"+x.Split+"/"+x.Path] = e.contentKey(hashContent(x.Hash))
		}
		if len(c.Versions) > 0 || len(c.Empties) > 0 {
			for k := 0; k < mergeBulk; k++ {
				exp[bulkName(k)] = e.contentKey(fmt.Sprintf("bulk%05d", k%7))
			}
		}
		var keys []string
		for k := range exp {
			keys = append(keys, k)
		}
		sort.Strings(keys)
		view := func(m map[string]string) []string {
			var o []string
			for k, v := range m {
				o = append(o, k+"="+v[:8])
			}
			sort.Strings(o)
			return o
		}
		mainWrong, extraWrong := false, false
		for k, v := range exp {
			if got[k] != v {
				if strings.HasPrefix(k, ".c") {
					extraWrong = true
				} else {
					mainWrong = true
				}
			}
		}
		for k := range got {
			if _, ok := exp[k]; !ok {
				if strings.HasPrefix(k, ".c") {
					extraWrong = true
				} else {
					mainWrong = true
				}
			}
		}
		if mainWrong {
			bad("merge/main-tree-wrong", view(exp), view(got), "mode "+c.Mode)
		} else if extraWrong {
			bad("merge/losing-versions-wrong", view(exp), view(got), "mode "+c.Mode)
		}
		hasX := len(c.Expected.Extras) > 0
		if dd.HasConflicts != (hasX && c.Mode == "conflicts") || dd.HasCheckpoints != (hasX && c.Mode == "checkpoints") {
			bad("merge/flags", fmt.Sprintf("conflicts=%v checkpoints=%v", hasX && c.Mode == "conflicts", hasX && c.Mode == "checkpoints"),
				fmt.Sprintf("conflicts=%v checkpoints=%v", dd.HasConflicts, dd.HasCheckpoints), "")
		}
		// a single-split diamond is a plain upload of the same files
		if c.Single {
			for sid, files := range bySplit {
				if files == nil {
					continue
				}
				_ = sid
				src, _ := e.writeTree(files, mergeBulk)
				pb := e.newBundle(ostores, repo, "", src)
				if err := core.Upload(context.Background(), pb); err != nil {
					bad("merge/plain-upload-error", "ok", err.Error(), "")
					continue
				}
				plain := map[string]string{}
				for _, en := range pb.GetBundleEntries() {
					plain[en.NameWithPath] = en.Hash
				}
				pb2 := e.newBundle(ostores, repo, pb.BundleID, nil)
				if err := core.DownloadMetadata(context.Background(), pb2); err == nil {
					plain = map[string]string{}
					for _, en := range pb2.GetBundleEntries() {
						plain[en.NameWithPath] = en.Hash
					}
				}
				if fmt.Sprint(view(plain)) != fmt.Sprint(view(got)) {
					bad("merge/single-split-differs-from-upload", view(plain), view(got), "")
				}
			}
		}
		// the committed bundle downloads
		if i%7 == 0 {
			dir := e.scratch("dl")
			pb := e.newBundle(ostores, repo, dd.BundleID, localStore(dir))
			if err := core.Publish(context.Background(), pb); err != nil {
				bad("merge/download-error", "ok", err.Error(), "")
			}
		}
	}
	if err := vutil.Isolated("merge", *in, res, run, 60*time.Second); err != nil {
		return err
	}
	if os.Getenv("VH_CHILD") != "" {
		return nil
	}
	return res.Write(*out)
}

var _ = store.NewWorld
