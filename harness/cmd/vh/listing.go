package main

import (
	"context"
	"encoding/json"
	"flag"
	"fmt"
	"os"
	"path/filepath"
	"sort"
	"time"

	context2 "github.com/oneconcern/datamon/pkg/context"
	"github.com/oneconcern/datamon/pkg/core"
	"github.com/oneconcern/datamon/pkg/model"
	"github.com/segmentio/ksuid"
	"go.uber.org/zap"

	"verif/harness/store"
	"verif/harness/vutil"
)

func init() {
	subcmds["listing"] = listingReplay
}

type listingCase struct {
	Kind string `json:"kind"`
	Objs []struct {
		Before int  `json:"before"`
		Final  bool `json:"final"`
		After  int  `json:"after"`
	} `json:"objs"`
	Expected []struct {
		Obj  int    `json:"obj"`
		Kind string `json:"kind"`
	} `json:"expected"`
}

// splitRun performs one run of a split; crashAt > 0 kills the client before its crashAt-th write on vmetadata.
func (e *metaEnv) splitRun(repo, did, splitID string, crashAt int, tag string) error {
	e.nclient++
	ctl := &store.Ctl{Name: fmt.Sprintf("c%d", e.nclient)}
	if crashAt > 0 {
		ctl.CrashStore, ctl.CrashAt, ctl.Before = "vmeta", crashAt, true
	}
	stores := context2.NewStores(e.view("wal", ctl), e.view("readlog", ctl), e.view("blob", ctl), e.view("meta", ctl), e.view("vmeta", ctl))
	err := e.uploadSplit(stores, repo, did, splitID, []treeEntry{{P: "f/" + splitID, C: "run:" + tag}})
	if crashAt > 0 {
		if !ctl.Crashed() {
			return fmt.Errorf("crash point %d of split run not reached (%v)", crashAt, err)
		}
		return nil
	}
	return err
}

func listingReplay(args []string) error {
	fl := flag.NewFlagSet("listing", flag.ExitOnError)
	in := fl.String("in", "", "cases (NDJSON)")
	out := fl.String("out", "", "result JSON")
	work := fl.String("work", "", "scratch directory")
	seed := fl.Uint64("seed", 1, "seed")
	crc := fl.Bool("crc", false, "CRC-capable stores")
	_ = fl.Parse(args)
	res := vutil.NewResult("listing")
	pageSizes := []int{1, 2, 3, 4, 7, 1024}
	run := func(i int, line []byte, r *vutil.BehResult) {
		var c listingCase
		if err := json.Unmarshal(line, &c); err != nil {
			panic(err)
		}
		if i < 2 {
			r.Sample = json.RawMessage(line)
		}
		wdir := filepath.Join(*work, fmt.Sprintf("l%d", i))
		defer os.RemoveAll(wdir)
		e := newMetaEnv(wdir, 65536, *seed, *crc)
		e.conc = 1
		bad := func(sig string, exp, got interface{}, detail string) {
			r.Mismatches = append(r.Mismatches, vutil.Mismatch{Beh: i, Op: "list" + c.Kind, Sig: sig, Expected: exp, Got: got, Detail: detail,
				Replay: map[string]interface{}{"case": json.RawMessage(line)}})
		}
		stores, _ := e.client()
		repo := "r1"
		if err := core.CreateRepo(model.RepoDescriptor{Name: repo, Description: "d", Timestamp: time.Now(), Contributor: contributor()}, stores); err != nil {
			panic(err)
		}
		newDiamond := func(n int) string {
			id, _ := ksuid.FromParts(time.Unix(1600000000+int64(n)*5, 0), []byte(fmt.Sprintf("%016d", n)))
			if _, err := core.CreateDiamond(repo, stores, core.DiamondDescriptor(model.NewDiamondDescriptor(model.DiamondID(id.String()))),
				core.DiamondLogger(zap.NewNop())); err != nil {
				panic(err)
			}
			return id.String()
		}
		r.Nontrivial = len(c.Objs) > 1
		exp := []string{}
		switch c.Kind {
		case "splits":
			did := newDiamond(1)
			for n, o := range c.Objs {
				// split ids that look like descriptor file names
				sid := []string{"diamond-%d", "split-%d", "s%d"}[n%3]
				sid = fmt.Sprintf(sid, n+1)
				first := true
				lists := o.Before
				if o.Final {
					lists--
				}
				if lists == 0 && !o.Final {
					// only the running marker: crash before the file list
					if err := e.splitRun(repo, did, sid, 2, sid+"-0"); err != nil {
						panic(err)
					}
					first = false
				}
				for k := 0; k < lists; k++ {
					at := 2 // rerun: list = 1st write, done = 2nd
					if first {
						at = 3 // first run: running, list, done
					}
					if err := e.splitRun(repo, did, sid, at, fmt.Sprintf("%s-%d", sid, k)); err != nil {
						panic(err)
					}
					first = false
				}
				if o.Final {
					if err := e.splitRun(repo, did, sid, 0, sid+"-final"); err != nil {
						bad("listing/setup-split-run", "ok", err.Error(), sid)
						return
					}
				}
				st := "running"
				if o.Final {
					st = "done"
				}
				exp = append(exp, sid+"="+st)
			}
			sort.Strings(exp)
			for _, p := range pageSizes {
				for _, conc := range []int{1, 4} {
					r.Steps++
					sds, err := core.ListSplits(repo, did, stores, core.BatchSize(p), core.ConcurrentList(conc))
					if err != nil {
						bad("listing/splits-error", "ok", err.Error(), fmt.Sprintf("page size %d", p))
						continue
					}
					got := []string{}
					for _, sd := range sds {
						got = append(got, sd.SplitID+"="+string(sd.State))
					}
					sort.Strings(got)
					if !vutil.EqStrings(got, exp) {
						bad(classifySeq("listing/splits", exp, got), exp, got, fmt.Sprintf("page size %d", p))
					}
				}
			}
		case "diamonds":
			for n, o := range c.Objs {
				did := newDiamond(n + 1)
				for k := 0; k < o.After; k++ {
					// a split with only its running marker
					if err := e.splitRun(repo, did, fmt.Sprintf([]string{"diamond-x%d", "split-x%d"}[k%2], k), 2, "stub"); err != nil {
						panic(err)
					}
				}
				st := "initialized"
				if o.Final {
					dm := core.NewDiamond(repo, stores, core.DiamondDescriptor(model.NewDiamondDescriptor(model.DiamondID(did))), core.DiamondLogger(zap.NewNop()))
					if err := dm.Cancel(); err != nil {
						panic(err)
					}
					st = "canceled"
				}
				exp = append(exp, did+"="+st)
			}
			sort.Strings(exp)
			for _, p := range pageSizes {
				for _, conc := range []int{1, 4} {
					r.Steps++
					dds, err := core.ListDiamonds(repo, stores, core.BatchSize(p), core.ConcurrentList(conc))
					if err != nil {
						bad("listing/diamonds-error", "ok", err.Error(), fmt.Sprintf("page size %d", p))
						continue
					}
					got := []string{}
					for _, dd := range dds {
						got = append(got, dd.DiamondID+"="+string(dd.State))
					}
					sort.Strings(got)
					if !vutil.EqStrings(got, exp) {
						bad(classifySeq("listing/diamonds", exp, got), exp, got, fmt.Sprintf("page size %d", p))
					}
				}
			}
		}
	}
	if err := vutil.Isolated("listing", *in, res, run, 60*time.Second); err != nil {
		return err
	}
	if os.Getenv("VH_CHILD") != "" {
		return nil
	}
	return res.Write(*out)
}

// listingMany creates enough objects to cross the default page size (1024) and lists them.
func listingMany(args []string) error {
	fl := flag.NewFlagSet("listing-many", flag.ExitOnError)
	out := fl.String("out", "", "result JSON")
	work := fl.String("work", "", "scratch directory")
	n := fl.Int("n", 1030, "number of bundles and labels")
	_ = fl.Parse(args)
	res := vutil.NewResult("listing-many")
	e := newMetaEnv(filepath.Join(*work, "many"), 65536, 1, false)
	defer os.RemoveAll(*work)
	stores, _ := e.client()
	repo := "r1"
	bad := func(sig string, exp, got interface{}, detail string) {
		res.Add(vutil.Mismatch{Op: "list", Sig: sig, Expected: exp, Got: got, Detail: detail})
	}
	for _, rn := range []string{repo, "r10"} {
		if err := core.CreateRepo(model.RepoDescriptor{Name: rn, Description: "d", Timestamp: time.Now(), Contributor: contributor()}, stores); err != nil {
			return err
		}
	}
	ctx := context.Background()
	src, _ := e.writeTree([]treeEntry{{P: "a", C: "s"}}, 0)
	var ids []string
	for i := 1; i <= *n; i++ {
		b := e.newBundle(stores, repo, e.ksuidFor(i), src)
		if err := core.Upload(ctx, b); err != nil {
			return err
		}
		ids = append(ids, b.BundleID)
		l := core.NewLabel(core.LabelDescriptor(model.NewLabelDescriptor(model.LabelName(fmt.Sprintf("l%05d", i)), model.LabelContributor(contributor()))))
		if err := l.UploadDescriptor(ctx, b); err != nil {
			return err
		}
	}
	// a decoy in the prefix-related repository
	bx := e.newBundle(stores, "r10", e.ksuidFor(*n+5), src)
	if err := core.Upload(ctx, bx); err != nil {
		return err
	}
	for _, p := range []int{0, 1000, 1024, 2048, 7} {
		var opts []core.Option
		if p > 0 {
			opts = append(opts, core.BatchSize(p))
		}
		bds, err := core.ListBundles(repo, stores, opts...)
		res.Steps++
		if err != nil {
			bad("many/bundles-error", "ok", err.Error(), fmt.Sprint(p))
		} else {
			got := []string{}
			for _, bd := range bds {
				got = append(got, bd.ID)
			}
			if !vutil.EqStrings(got, ids) {
				bad(classifySeq("many/bundles", ids, got), len(ids), len(got), fmt.Sprintf("page size %d", p))
			}
		}
		lds, err := core.ListLabels(repo, stores, opts...)
		res.Steps++
		if err != nil {
			bad("many/labels-error", "ok", err.Error(), fmt.Sprint(p))
		} else if len(lds) != *n {
			bad("many/labels/count", *n, len(lds), fmt.Sprintf("page size %d", p))
		} else {
			for i := 1; i < len(lds); i++ {
				if lds[i-1].Name >= lds[i].Name {
					bad("many/labels/order", nil, []string{lds[i-1].Name, lds[i].Name}, fmt.Sprintf("page size %d", p))
					break
				}
			}
		}
	}
	// a diamond with 350 stub splits x 3 keys, followed by a second diamond: the scan of diamonds crosses full pages of split keys
	mk := func(k int) string {
		id, _ := ksuid.FromParts(time.Unix(1600000000+int64(k)*5, 0), []byte(fmt.Sprintf("%016d", k)))
		if _, err := core.CreateDiamond(repo, stores, core.DiamondDescriptor(model.NewDiamondDescriptor(model.DiamondID(id.String()))), core.DiamondLogger(zap.NewNop())); err != nil {
			panic(err)
		}
		return id.String()
	}
	d1 := mk(1)
	nsplits := 350
	for k := 0; k < nsplits; k++ {
		if err := e.splitRun(repo, d1, fmt.Sprintf("s%04d", k), 0, fmt.Sprint(k)); err != nil {
			return err
		}
	}
	d2 := mk(2)
	for _, p := range []int{0, 1000, 5} {
		var opts []core.Option
		if p > 0 {
			opts = append(opts, core.BatchSize(p))
		}
		dds, err := core.ListDiamonds(repo, stores, opts...)
		res.Steps++
		if err != nil || len(dds) != 2 {
			bad("many/diamonds", []string{d1, d2}, len(dds), fmt.Sprintf("page size %d: %v", p, err))
		}
		sds, err := core.ListSplits(repo, d1, stores, opts...)
		res.Steps++
		if err != nil || len(sds) != nsplits {
			bad("many/splits", nsplits, len(sds), fmt.Sprintf("page size %d: %v", p, err))
		}
	}
	res.Behaviours = 1
	res.Nontrivial = 1
	res.Sample(map[string]interface{}{"bundles": *n, "labels": *n, "splits": nsplits, "diamonds": 2}, 1)
	return res.Write(*out)
}

func init() { subcmds["listing-many"] = listingMany }
