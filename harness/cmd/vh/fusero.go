package main

import (
	"bytes"
	"context"
	"encoding/binary"
	"encoding/json"
	"flag"
	"fmt"
	"io/ioutil"
	"os"
	"path/filepath"
	"runtime/debug"
	"sort"
	"strings"
	"syscall"
	"time"

	"github.com/jacobsa/fuse/fuseops"
	"github.com/jacobsa/fuse/fuseutil"
	"github.com/oneconcern/datamon/pkg/core"
	dfuse "github.com/oneconcern/datamon/pkg/fuse"
	"github.com/oneconcern/datamon/pkg/model"
	"go.uber.org/zap"

	"verif/harness/vutil"
)

// C17: replay of Gen_FuseRO behaviours on the read-only mount of a bundle.
//
// One behaviour = a bundle (list of entries {path, size, tag}; sizes in cells)
// and a program of mount operations, each carrying the result FuseRO.tla
// defines for it. The bundle is uploaded with the real API (core.Upload from
// a localfs source tree into in-memory object stores), mounted read-only with
// fuse.NewReadOnlyFS (streamed through cafs, or pre-downloaded into a localfs
// consumable store), and the program is run against the file system operation
// interface of the mount ((*ReadOnlyFS).VerifFileSystem(), export hook), op by
// op, the way the kernel would: inode numbers are learnt from lookup replies,
// directories are listed with small destination buffers and resumed at the
// offset of the last entry returned, reads are compared byte for byte.
func init() {
	subcmds["fusero"] = fuseroReplay
}

type frFile struct {
	P    []string `json:"p"`
	Size int      `json:"size"` // cells
	Tag  int      `json:"tag"`
}

type frChild struct {
	Name string `json:"name"`
	Kind string `json:"kind"`
}

type frStep struct {
	Op       string    `json:"op"`
	Node     []string  `json:"node"`
	Name     string    `json:"name"`
	Found    bool      `json:"found"`
	Kind     string    `json:"kind"`
	Size     int       `json:"size"`
	K        int       `json:"k"`
	Cap      int       `json:"cap"`
	Children []frChild `json:"children"`
	Off      int       `json:"off"`
	Len      int       `json:"len"`
	From     int       `json:"from"`
	N        int       `json:"n"`
}

type frBeh struct {
	Conc      string   `json:"conc"`
	LeafCells int      `json:"leafcells"`
	Files     []frFile `json:"files"`
	Prog      []frStep `json:"prog"`
}

// ---------------------------------------------------------------- refinement

// frRefine maps cells to bytes: a leaf of lambda bytes holds L cells.
// uniform: cell j of a leaf covers bytes floor(j*lambda/L) .. floor((j+1)*lambda/L)-1;
// boundary: the first and the last cell of a leaf are one byte, the others share
// the rest, so that "k*L +/- 1 cells" is exactly "k*lambda +/- 1 bytes".
type frRefine struct {
	lambda, l int
	conc      string
	seed      uint64
}

func (r frRefine) cellStart(c int) int64 {
	q, j := c/r.l, c%r.l
	base := int64(q) * int64(r.lambda)
	if j == 0 {
		return base
	}
	if r.conc == "boundary" && r.l >= 3 {
		return base + 1 + int64((j-1)*(r.lambda-2)/(r.l-2))
	}
	return base + int64(j*r.lambda/r.l)
}

// content of a file with the given tag: byte i is PRF(seed, tag, i); files with
// the same tag share their common prefix (and so their full leaf blobs).
func (r frRefine) content(tag int, n int64) []byte {
	out := make([]byte, n)
	var st uint64
	for i := range out {
		if i%8 == 0 {
			st = splitmix(r.seed ^ (uint64(tag)+1)*0x9e3779b97f4a7c15 ^ uint64(i/8)*0xc2b2ae3d27d4eb4f)
		}
		out[i] = byte(st >> (8 * uint(i%8)))
	}
	return out
}

func frKey(p []string) string { return strings.Join(p, "/") }

// ---------------------------------------------------------------- dirents

type frDirent struct {
	ino  uint64
	off  uint64
	typ  uint32
	name string
}

const frDirentHdr = 24

func frDirentLen(name string) int {
	return frDirentHdr + (len(name)+7)/8*8
}

// frParseDirents decodes a ReadDir reply (fuse_dirent records, host order).
func frParseDirents(buf []byte) ([]frDirent, error) {
	var out []frDirent
	for len(buf) > 0 {
		if len(buf) < frDirentHdr {
			return out, fmt.Errorf("truncated dirent header (%d bytes left)", len(buf))
		}
		d := frDirent{ino: binary.LittleEndian.Uint64(buf[0:]), off: binary.LittleEndian.Uint64(buf[8:]),
			typ: binary.LittleEndian.Uint32(buf[20:])}
		nl := int(binary.LittleEndian.Uint32(buf[16:]))
		tot := frDirentHdr + (nl+7)/8*8
		if nl == 0 || tot > len(buf) {
			return out, fmt.Errorf("dirent with name length %d does not fit the %d bytes left", nl, len(buf))
		}
		d.name = string(buf[frDirentHdr : frDirentHdr+nl])
		out = append(out, d)
		buf = buf[tot:]
	}
	return out, nil
}

// ---------------------------------------------------------------- reference file system (self-test of the checker)

// frRefFS is an independent, obviously correct read-only file system over the
// same tree. Replaying the behaviours on it (--impl reference) validates the
// generated expectations and the comparison code: a disagreement there is a
// defect of the checker, never a verdict. --bug injects a defect of the kind
// the check must detect (demonstration that the oracle has teeth).
type frRefFS struct {
	fuseutil.NotImplementedFileSystem
	bug     string
	nodes   []*frRefNode // by inode - 1
	content map[uint64][]byte
}

type frRefNode struct {
	ino      uint64
	dir      bool
	size     uint64
	children []*frRefNode
	name     string
}

func newFrRefFS(files []frFile, contents map[string][]byte, bug string) *frRefFS {
	fs := &frRefFS{bug: bug, content: map[uint64][]byte{}}
	root := &frRefNode{ino: fuseops.RootInodeID, dir: true}
	fs.nodes = append(fs.nodes, root)
	byPath := map[string]*frRefNode{"": root}
	add := func(parent *frRefNode, name string, dir bool) *frRefNode {
		n := &frRefNode{ino: uint64(len(fs.nodes)) + 1, dir: dir, name: name}
		fs.nodes = append(fs.nodes, n)
		parent.children = append(parent.children, n)
		return n
	}
	var firstFile *frRefNode
	for _, f := range files {
		cur := root
		for i := range f.P {
			k := frKey(f.P[:i+1])
			n, ok := byPath[k]
			if !ok {
				par := cur
				if bug == "wrong-parent" && i == len(f.P)-1 && i > 0 {
					par = root // child attached to the wrong parent
				}
				n = add(par, f.P[i], i < len(f.P)-1)
				byPath[k] = n
			}
			cur = n
		}
		cur.size = uint64(len(contents[frKey(f.P)]))
		fs.content[cur.ino] = contents[frKey(f.P)]
		if firstFile == nil {
			firstFile = cur
		}
		if bug == "size-wrong-entry" {
			cur.size = firstFile.size
		}
		if bug == "read-wrong-key" {
			fs.content[cur.ino] = fs.content[firstFile.ino]
		}
	}
	return fs
}

func (fs *frRefFS) node(ino fuseops.InodeID) *frRefNode {
	if ino < 1 || int(ino) > len(fs.nodes) {
		return nil
	}
	return fs.nodes[ino-1]
}

func (n *frRefNode) attr() fuseops.InodeAttributes {
	if n.dir {
		return fuseops.InodeAttributes{Mode: 0555 | os.ModeDir, Nlink: 2}
	}
	return fuseops.InodeAttributes{Mode: 0444, Nlink: 1, Size: n.size}
}

func (fs *frRefFS) LookUpInode(ctx context.Context, op *fuseops.LookUpInodeOp) error {
	p := fs.node(op.Parent)
	if p == nil {
		return syscall.ENOENT
	}
	for _, c := range p.children {
		if c.name == op.Name {
			op.Entry.Child = fuseops.InodeID(c.ino)
			op.Entry.Attributes = c.attr()
			return nil
		}
	}
	return syscall.ENOENT
}

func (fs *frRefFS) GetInodeAttributes(ctx context.Context, op *fuseops.GetInodeAttributesOp) error {
	n := fs.node(op.Inode)
	if n == nil {
		return syscall.ENOENT
	}
	op.Attributes = n.attr()
	return nil
}

func (fs *frRefFS) OpenDir(ctx context.Context, op *fuseops.OpenDirOp) error   { return nil }
func (fs *frRefFS) OpenFile(ctx context.Context, op *fuseops.OpenFileOp) error { return nil }
func (fs *frRefFS) ReleaseDirHandle(ctx context.Context, op *fuseops.ReleaseDirHandleOp) error {
	return nil
}
func (fs *frRefFS) ReleaseFileHandle(ctx context.Context, op *fuseops.ReleaseFileHandleOp) error {
	return nil
}
func (fs *frRefFS) ForgetInode(ctx context.Context, op *fuseops.ForgetInodeOp) error { return nil }

func (fs *frRefFS) ReadDir(ctx context.Context, op *fuseops.ReadDirOp) error {
	n := fs.node(op.Inode)
	if n == nil || !n.dir {
		return syscall.ENOENT
	}
	start := int(op.Offset)
	switch fs.bug {
	case "offset-base-dup": // offset taken as the index of the last entry instead of the next
		if start > 0 {
			start--
		}
	case "offset-base-skip":
		if start > 0 {
			start++
		}
	}
	for i := start; i < len(n.children); i++ {
		c := n.children[i]
		t := fuseutil.DT_File
		if c.dir {
			t = fuseutil.DT_Directory
		}
		w := fuseutil.WriteDirent(op.Dst[op.BytesRead:], fuseutil.Dirent{Offset: fuseops.DirOffset(i + 1), Inode: fuseops.InodeID(c.ino), Name: c.name, Type: t})
		if w == 0 {
			break
		}
		op.BytesRead += w
	}
	return nil
}

func (fs *frRefFS) ReadFile(ctx context.Context, op *fuseops.ReadFileOp) error {
	b, ok := fs.content[uint64(op.Inode)]
	if !ok {
		return syscall.ENOENT
	}
	if op.Offset < int64(len(b)) {
		op.BytesRead = copy(op.Dst, b[op.Offset:])
	}
	return nil
}

// ---------------------------------------------------------------- one behaviour

type frRun struct {
	walks int
	// the file handle of the previous read is released only after the next read: two files are open at once
	pendingIno    fuseops.InodeID
	pendingHandle fuseops.HandleID
	pendingOpen   bool
	r        *vutil.BehResult
	beh      int
	step     int
	op       string
	fsys     fuseutil.FileSystem
	ref      frRefine
	contents map[string][]byte
	inoOf    map[string]fuseops.InodeID
	pathOf   map[fuseops.InodeID]string
	seen     map[string]bool
	replay   func() interface{}
	fdLimit  bool // the program runs under a lowered descriptor limit (--nofile)
	resumed  bool // some listing needed more than one non-empty call
	bigRead  bool // some read returned bytes of more than one leaf
}

func (m *frRun) bad(sig string, exp, got interface{}, detail string) {
	if m.seen[sig] { // one record per signature and behaviour: the earliest
		return
	}
	m.seen[sig] = true
	m.r.Mismatches = append(m.r.Mismatches, vutil.Mismatch{Beh: m.beh, Step: m.step, Op: m.op, Sig: sig,
		Expected: exp, Got: got, Detail: detail, Replay: m.replay()})
}

func frKind(a fuseops.InodeAttributes) string {
	if a.Mode&os.ModeDir != 0 {
		return "dir"
	}
	return "file"
}

// learn records the inode a lookup returned for a path.
func (m *frRun) learn(path string, ino fuseops.InodeID) {
	if other, ok := m.pathOf[ino]; ok && other != path {
		m.bad("fusero/inode-shared", "distinct inodes", fmt.Sprintf("inode %d", ino),
			fmt.Sprintf("paths %q and %q were given the same inode", other, path))
	}
	if old, ok := m.inoOf[path]; ok && old != ino {
		m.r.Extra["inode_changed_between_lookups"]++
		delete(m.pathOf, old)
	}
	m.inoOf[path] = ino
	m.pathOf[ino] = path
}

// walk resolves a node the specification says exists to its inode, looking up
// the components not seen yet one by one from the root (as the kernel does).
func (m *frRun) walk(p []string) (fuseops.InodeID, bool) {
	cur := fuseops.InodeID(fuseops.RootInodeID)
	for i := range p {
		k := frKey(p[:i+1])
		if ino, ok := m.inoOf[k]; ok {
			cur = ino
			continue
		}
		op := &fuseops.LookUpInodeOp{Parent: cur, Name: p[i]}
		m.r.Extra["lookups"]++
		if err := m.fsys.LookUpInode(context.Background(), op); err != nil {
			m.bad("fusero/lookup-missing", "found", err.Error(),
				fmt.Sprintf("resolving %q: lookup of %q under %q fails although the bundle implies it", frKey(p), p[i], frKey(p[:i])))
			return 0, false
		}
		// the kernel may forget an inode at any time and look the name up again: every third resolution does
		m.walks++
		if m.walks%3 == 0 {
			_ = m.fsys.ForgetInode(context.Background(), &fuseops.ForgetInodeOp{Inode: op.Entry.Child, N: 1})
			m.r.Extra["forget_then_lookup"]++
			op2 := &fuseops.LookUpInodeOp{Parent: cur, Name: p[i]}
			if err := m.fsys.LookUpInode(context.Background(), op2); err != nil {
				m.bad("fusero/lookup-missing", "found", err.Error(),
					fmt.Sprintf("resolving %q: second lookup of %q (after the kernel forgot the inode) fails", frKey(p), p[i]))
				return 0, false
			}
			op = op2
		}
		m.learn(k, op.Entry.Child)
		cur = op.Entry.Child
	}
	return cur, true
}

func (m *frRun) doLookup(st frStep) {
	parent, ok := m.walk(st.Node)
	if !ok {
		return
	}
	op := &fuseops.LookUpInodeOp{Parent: parent, Name: st.Name}
	m.r.Extra["lookups"]++
	err := m.fsys.LookUpInode(context.Background(), op)
	what := fmt.Sprintf("lookup(%q, %q)", frKey(st.Node), st.Name)
	if !st.Found {
		if err == nil {
			m.bad("fusero/lookup-phantom", "not found", fmt.Sprintf("inode %d (%s)", op.Entry.Child, frKind(op.Entry.Attributes)),
				what+" succeeds although the bundle has no such node")
		}
		return
	}
	if err != nil {
		m.bad("fusero/lookup-missing", "found", err.Error(), what+" fails although the bundle implies the node")
		return
	}
	m.learn(frKey(append(append([]string{}, st.Node...), st.Name)), op.Entry.Child)
	if k := frKind(op.Entry.Attributes); k != st.Kind {
		m.bad("fusero/lookup-kind", st.Kind, k, what+" returns the wrong file type")
	} else if st.Kind == "file" && op.Entry.Attributes.Size != uint64(m.ref.cellStart(st.Size)) {
		m.bad("fusero/lookup-size", m.ref.cellStart(st.Size), op.Entry.Attributes.Size, what+" returns the wrong size")
	}
}

func (m *frRun) doGetattr(st frStep) {
	ino, ok := m.walk(st.Node)
	if !ok {
		return
	}
	op := &fuseops.GetInodeAttributesOp{Inode: ino}
	m.r.Extra["getattrs"]++
	what := fmt.Sprintf("getattr(%q)", frKey(st.Node))
	if err := m.fsys.GetInodeAttributes(context.Background(), op); err != nil {
		m.bad("fusero/attr-error", "attributes", err.Error(), what+" fails")
		return
	}
	if k := frKind(op.Attributes); k != st.Kind {
		m.bad("fusero/attr-kind", st.Kind, k, what+" returns the wrong file type")
	} else if st.Kind == "file" && op.Attributes.Size != uint64(m.ref.cellStart(st.Size)) {
		m.bad("fusero/attr-size", m.ref.cellStart(st.Size), op.Attributes.Size, what+" returns the wrong size")
	}
}

// list reads a directory from the given offset to its end with buffers of
// bufSize bytes, resuming each call at the offset of the last entry returned.
func (m *frRun) list(ino fuseops.InodeID, h fuseops.HandleID, from uint64, bufSize int, limit int, what string, class string) ([]frDirent, int, bool) {
	var all []frDirent
	calls := 0
	off := from
	for {
		op := &fuseops.ReadDirOp{Inode: ino, Handle: h, Offset: fuseops.DirOffset(off), Dst: make([]byte, bufSize)}
		m.r.Extra["readdir_calls"]++
		if err := m.fsys.ReadDir(context.Background(), op); err != nil {
			m.bad("fusero/readdir-error"+class, "entries", err.Error(), fmt.Sprintf("%s: ReadDir at offset %d fails", what, off))
			return all, calls, false
		}
		if op.BytesRead == 0 {
			return all, calls, true
		}
		if op.BytesRead < 0 || op.BytesRead > bufSize {
			m.bad("fusero/readdir-malformed", fmt.Sprintf("<= %d bytes", bufSize), op.BytesRead, what+": BytesRead out of range")
			return all, calls, false
		}
		ents, err := frParseDirents(op.Dst[:op.BytesRead])
		if err != nil {
			m.bad("fusero/readdir-malformed", "whole directory entries", err.Error(), what)
			return all, calls, false
		}
		calls++
		all = append(all, ents...)
		off = ents[len(ents)-1].off
		if len(all) > limit {
			m.bad("fusero/readdir-endless", fmt.Sprintf("%d entries", limit), fmt.Sprintf("more than %d entries", len(all)),
				what+": the listing does not end")
			return all, calls, true // what was returned so far is still compared (duplicates)
		}
	}
}

func frDot(n string) bool { return n == "." || n == ".." }

// checkListing compares entry names (dot entries are acceptable extras) with ChildrenOp.
func (m *frRun) checkListing(names []frDirent, st frStep, what string) {
	exp := map[string]string{}
	for _, c := range st.Children {
		exp[c.Name] = c.Kind
	}
	count := map[string]int{}
	for _, d := range names {
		if frDot(d.name) {
			continue
		}
		count[d.name]++
		kind, ok := exp[d.name]
		if !ok {
			m.bad("fusero/readdir-phantom", "only the children the bundle implies", d.name, what+": an entry the bundle does not imply")
			continue
		}
		if count[d.name] == 2 {
			m.bad("fusero/readdir-duplicate", "every child exactly once", d.name, what+": a child is returned twice")
		}
		switch d.typ {
		case uint32(fuseutil.DT_Unknown): // legal: the kernel then asks for the attributes
		case uint32(fuseutil.DT_Directory):
			if kind != "dir" {
				m.bad("fusero/readdir-type", kind, "dir", what+": entry "+d.name+" has the wrong type")
			}
		case uint32(fuseutil.DT_File):
			if kind != "file" {
				m.bad("fusero/readdir-type", kind, "file", what+": entry "+d.name+" has the wrong type")
			}
		default:
			m.bad("fusero/readdir-type", kind, fmt.Sprintf("type %d", d.typ), what+": entry "+d.name+" has the wrong type")
		}
	}
	var missing []string
	for n := range exp {
		if count[n] == 0 {
			missing = append(missing, n)
		}
	}
	if len(missing) > 0 {
		sort.Strings(missing)
		if len(missing) > 5 {
			missing = append(missing[:5], "...")
		}
		m.bad("fusero/readdir-missing", "every child exactly once", missing, what+": children are not returned")
	}
}

func (m *frRun) doReaddir(st frStep) {
	ino, ok := m.walk(st.Node)
	if !ok {
		return
	}
	dir := frKey(st.Node)
	if st.N != len(st.Children) {
		panic("malformed readdir step")
	}
	od := &fuseops.OpenDirOp{Inode: ino}
	if err := m.fsys.OpenDir(context.Background(), od); err != nil {
		m.bad("fusero/opendir-error", "ok", err.Error(), fmt.Sprintf("opendir(%q) fails", dir))
		return
	}
	defer func() {
		_ = m.fsys.ReleaseDirHandle(context.Background(), &fuseops.ReleaseDirHandleOp{Handle: od.Handle})
	}()
	limit := 2*st.N + 8
	class := ""
	if st.N == 0 {
		class = "/empty-directory" // only the root of an empty bundle has no children
	}
	// 1. the whole listing with a large buffer
	what := fmt.Sprintf("readdir(%q) with a 64 KiB buffer", dir)
	full, _, ok := m.list(ino, od.Handle, 0, 1<<16, limit, what, class)
	if !ok {
		return
	}
	m.checkListing(full, st, what)
	// 2. consume k children, resume at the offset of the k-th with small buffers
	maxEnt := 32
	for _, d := range full {
		if l := frDirentLen(d.name); l > maxEnt {
			maxEnt = l
		}
	}
	var consumed []frDirent
	var from uint64
	k := 0
	for _, d := range full {
		if k >= st.K {
			break
		}
		consumed = append(consumed, d)
		from = d.off
		if !frDot(d.name) {
			k++
		}
	}
	bufSize := 1 << 16
	if st.Cap > 0 {
		bufSize = st.Cap * maxEnt
	}
	what = fmt.Sprintf("readdir(%q): %d entries consumed, resumed at offset %d with %d-byte buffers", dir, len(consumed), from, bufSize)
	rest, calls, ok := m.list(ino, od.Handle, from, bufSize, limit, what, class)
	if !ok {
		return
	}
	if calls > 1 {
		m.resumed = true
	}
	m.checkListing(append(consumed, rest...), st, what)
	// 3. the same resumption with every buffer size (multiples of 8 bytes) from the largest entry to the
	// whole listing: the buffer ends after every possible prefix of entries, also where a long name does
	// not fit any more and a later, shorter one would (small directories only: the sweep is quadratic)
	if st.N > 0 && st.N <= 24 {
		total := 0
		for _, d := range full {
			total += frDirentLen(d.name)
		}
		for size := maxEnt; size <= total+8; size += 8 {
			if size == bufSize {
				continue
			}
			w := fmt.Sprintf("readdir(%q): %d entries consumed, resumed at offset %d with %d-byte buffers", dir, len(consumed), from, size)
			r2, c2, ok := m.list(ino, od.Handle, from, size, limit+total/8, w, class)
			if !ok {
				return
			}
			if c2 > 1 {
				m.resumed = true
			}
			m.r.Extra["readdir_buffer_sizes_swept"]++
			nbad := len(m.r.Mismatches)
			m.checkListing(append(append([]frDirent{}, consumed...), r2...), st, w)
			if len(m.r.Mismatches) > nbad {
				return
			}
		}
	}
	// observation only: is the order of the listing the same in both passes?
	tail := full[len(consumed):]
	same := len(tail) == len(rest)
	for i := 0; same && i < len(rest); i++ {
		same = tail[i].name == rest[i].name
	}
	if !same {
		m.r.Extra["readdir_order_differs_between_passes"]++
	}
	// observation only: entry inodes agree with lookups
	for _, d := range rest {
		if frDot(d.name) {
			continue
		}
		if li, ok := m.inoOf[frKey(append(append([]string{}, st.Node...), d.name))]; ok && uint64(li) != d.ino {
			m.r.Extra["readdir_inode_differs_from_lookup"]++
		}
	}
}

func (m *frRun) doRead(st frStep) {
	ino, ok := m.walk(st.Node)
	if !ok {
		return
	}
	file := frKey(st.Node)
	data := m.contents[file]
	if int64(len(data)) != m.ref.cellStart(st.Size) {
		panic("malformed read step: size")
	}
	offB, endB := m.ref.cellStart(st.Off), m.ref.cellStart(st.Off+st.Len)
	// the bytes of the cells the specification returns: [from, from+n)
	expFrom, expEnd := m.ref.cellStart(st.From), m.ref.cellStart(st.From+st.N)
	var want []byte
	if st.N > 0 {
		if expFrom != offB || expEnd > int64(len(data)) {
			panic("malformed read step: range")
		}
		want = data[expFrom:expEnd]
	}
	oo := &fuseops.OpenFileOp{Inode: ino}
	if err := m.fsys.OpenFile(context.Background(), oo); err != nil {
		m.bad("fusero/open-error", "ok", err.Error(), fmt.Sprintf("open(%q) fails", file))
		return
	}
	defer func() {
		if m.pendingOpen {
			_ = m.fsys.ReleaseFileHandle(context.Background(), &fuseops.ReleaseFileHandleOp{Handle: m.pendingHandle})
		}
		m.pendingIno, m.pendingHandle, m.pendingOpen = ino, oo.Handle, true
	}()
	op := &fuseops.ReadFileOp{Inode: ino, Handle: oo.Handle, Offset: offB, Size: endB - offB, Dst: make([]byte, endB-offB)}
	m.r.Extra["reads"]++
	what := fmt.Sprintf("read(%q of %d bytes, offset %d, length %d)", file, len(data), offB, endB-offB)
	if err := m.fsys.ReadFile(context.Background(), op); err != nil {
		if m.fdLimit {
			m.bad("fusero/read-error/descriptor-limit", fmt.Sprintf("%d bytes", len(want)), err.Error(),
				fmt.Sprintf("%s fails: read number %d of the program, under a limit of open files", what, m.r.Extra["reads"]))
			return
		}
		m.bad("fusero/read-error", fmt.Sprintf("%d bytes", len(want)), err.Error(), what+" fails")
		return
	}
	var got []byte
	if len(op.Data) > 0 {
		for _, d := range op.Data {
			got = append(got, d...)
		}
	} else {
		if op.BytesRead < 0 || op.BytesRead > len(op.Dst) {
			m.bad("fusero/read-too-long", fmt.Sprintf("%d bytes", len(want)), fmt.Sprintf("%d bytes", op.BytesRead), what+": BytesRead out of range")
			return
		}
		got = op.Dst[:op.BytesRead]
	}
	m.r.Extra["bytes_compared"] += len(want)
	if offB >= int64(len(data)) {
		m.r.Extra["reads_past_eof"]++
	}
	if len(want) > 0 && offB/int64(m.ref.lambda) != (offB+int64(len(want))-1)/int64(m.ref.lambda) {
		m.bigRead = true
		m.r.Extra["reads_across_leaves"]++
	}
	switch {
	case len(got) < len(want):
		m.bad("fusero/read-short", fmt.Sprintf("%d bytes", len(want)), fmt.Sprintf("%d bytes", len(got)), what+" returns fewer bytes than the file has there")
	case len(got) > len(want):
		m.bad("fusero/read-too-long", fmt.Sprintf("%d bytes", len(want)), fmt.Sprintf("%d bytes", len(got)), what+" returns bytes beyond the end of the file or of the request")
	default:
		for i := range want {
			if got[i] != want[i] {
				m.bad("fusero/read-wrong-bytes", fmt.Sprintf("byte %#02x at file offset %d", want[i], offB+int64(i)),
					fmt.Sprintf("byte %#02x", got[i]), what+" returns other bytes than the file's")
				break
			}
		}
	}
}

func frCompact(b frBeh, max int) interface{} {
	var files, prog []string
	for i, f := range b.Files {
		if i >= max {
			files = append(files, fmt.Sprintf("... (%d entries)", len(b.Files)))
			break
		}
		files = append(files, fmt.Sprintf("%s:%dc/t%d", frKey(f.P), f.Size, f.Tag))
	}
	for i, s := range b.Prog {
		if i >= max {
			prog = append(prog, fmt.Sprintf("... (%d ops)", len(b.Prog)))
			break
		}
		prog = append(prog, frStepString(s))
	}
	return map[string]interface{}{"conc": b.Conc, "files": files, "prog": prog}
}

func frStepString(s frStep) string {
	switch s.Op {
	case "lookup":
		return fmt.Sprintf("lookup(%q,%q)=%v/%s/%dc", frKey(s.Node), s.Name, s.Found, s.Kind, s.Size)
	case "getattr":
		return fmt.Sprintf("getattr(%q)=%s/%dc", frKey(s.Node), s.Kind, s.Size)
	case "readdir":
		return fmt.Sprintf("readdir(%q,k=%d,cap=%d)=%d children", frKey(s.Node), s.K, s.Cap, s.N)
	case "read":
		return fmt.Sprintf("read(%q,off=%dc,len=%dc)=cells[%d,+%d)", frKey(s.Node), s.Off, s.Len, s.From, s.N)
	}
	return s.Op
}

func fuseroReplay(args []string) error {
	fl := flag.NewFlagSet("fusero", flag.ExitOnError)
	in := fl.String("in", "", "behaviours (NDJSON)")
	out := fl.String("out", "", "result JSON")
	work := fl.String("work", "", "scratch directory")
	lambda := fl.Int("leaf", 64, "leaf size in bytes")
	seed := fl.Uint64("seed", 1, "seed of the content PRF")
	crc := fl.Bool("crc", false, "CRC-capable object stores")
	streamed := fl.Bool("streamed", false, "mount in streamed mode (reads go through cafs) instead of pre-downloading the bundle")
	cacheLeaves := fl.Int("cache-leaves", 4, "streamed mode: size of the leaf buffer cache, in leaves")
	prefetch := fl.Int("prefetch", 0, "streamed mode: prefetch ahead")
	impl := fl.String("impl", "real", "real: pkg/fuse; reference: the harness' own file system (self-test of the checker)")
	bug := fl.String("bug", "", "reference only: inject a defect (offset-base-dup, offset-base-skip, wrong-parent, size-wrong-entry, read-wrong-key)")
	clientLeaf := fl.Int("client-leaf", 0, "investigation: leaf size in the descriptor of the mounting client's bundle object before the mount (0: the bundle's own; the CLI leaves the default, cafs.DefaultLeafSize)")
	nofile := fl.Int("nofile", 0, "run the program under this limit of open files (RLIMIT_NOFILE) with the garbage collector held off: descriptors leaked per operation are not returned by finalizers")
	maxBad := fl.Int("max-bad", 0, "stop after that many failing behaviours (0: the harness default)")
	_ = fl.Parse(args)
	if *maxBad > 0 {
		vutil.MaxBadBehaviours = *maxBad
	}
	mode := "predownloaded"
	if *streamed {
		mode = "streamed"
	}
	res := vutil.NewResult("fusero/" + *impl + "/" + mode)
	run := func(i int, line []byte, r *vutil.BehResult) {
		var b frBeh
		if err := json.Unmarshal(line, &b); err != nil {
			panic(err)
		}
		if b.LeafCells < 1 {
			panic(fmt.Sprintf("behaviour %d: malformed", i))
		}
		if i < 2 {
			r.Sample = frCompact(b, 12)
		}
		r.Extra = map[string]int{}
		ref := frRefine{lambda: *lambda, l: b.LeafCells, conc: b.Conc, seed: *seed}
		m := &frRun{r: r, beh: i, ref: ref, contents: map[string][]byte{}, inoOf: map[string]fuseops.InodeID{},
			pathOf: map[fuseops.InodeID]string{fuseops.RootInodeID: ""}, seen: map[string]bool{}}
		m.replay = func() interface{} {
			rp := map[string]interface{}{"mode": mode, "leaf": *lambda, "conc": b.Conc, "seed": *seed}
			if len(b.Files) <= 40 {
				rp["files"] = b.Files
			} else {
				rp["files"] = frCompact(b, 12).(map[string]interface{})["files"]
			}
			if m.step >= 0 && m.step < len(b.Prog) {
				s := b.Prog[m.step]
				if len(s.Children) > 40 {
					s.Children = nil
				}
				rp["step"] = s
			}
			return rp
		}
		wdir := filepath.Join(*work, fmt.Sprintf("b%d", i))
		defer os.RemoveAll(wdir)

		// the bundle's files, on disk and in memory
		m.step, m.op = -1, "upload"
		e := newMetaEnv(wdir, *lambda, *seed, *crc)
		src := e.scratch("src")
		multiLeaf := false
		for _, f := range b.Files {
			data := ref.content(f.Tag, ref.cellStart(f.Size))
			m.contents[frKey(f.P)] = data
			if len(data) > *lambda {
				multiLeaf = true
			}
			p := filepath.Join(append([]string{src}, f.P...)...)
			_ = os.MkdirAll(filepath.Dir(p), 0700)
			if err := ioutil.WriteFile(p, data, 0600); err != nil {
				panic(err)
			}
		}
		if *impl == "reference" {
			m.fsys = newFrRefFS(b.Files, m.contents, *bug)
		} else {
			// upload with the real API, mount with the real API
			stores, _ := e.client()
			if err := core.CreateRepo(model.RepoDescriptor{Name: "r1", Description: "d", Timestamp: time.Now(), Contributor: contributor()}, stores); err != nil {
				panic(err)
			}
			id := e.ksuidFor(1)
			var uerr error
			if vutil.Guard(r, -1, "upload", m.replay(), func() {
				uerr = core.Upload(context.Background(), e.newBundle(stores, "r1", id, localStore(src)))
			}) {
				return
			}
			if uerr != nil {
				m.bad("fusero/upload-error", "ok", uerr.Error(), "core.Upload of the tree fails")
				return
			}
			m.op = "mount"
			mstores, _ := e.client()
			mb := e.newBundle(mstores, "r1", id, localStore(e.scratch("consumable")))
			if *clientLeaf > 0 {
				mb.BundleDescriptor.LeafSize = uint32(*clientLeaf)
			}
			opts := []dfuse.Option{dfuse.Streaming(*streamed), dfuse.Logger(zap.NewNop())}
			if *streamed {
				opts = append(opts, dfuse.CacheSize(*cacheLeaves**lambda), dfuse.Prefetch(*prefetch), dfuse.VerifyHash(true))
			}
			var rofs *dfuse.ReadOnlyFS
			var merr error
			if vutil.Guard(r, -1, "mount", m.replay(), func() { rofs, merr = dfuse.NewReadOnlyFS(mb, opts...) }) {
				return
			}
			if merr != nil {
				m.bad("fusero/mount-error", "ok", merr.Error(), "NewReadOnlyFS fails on an uploaded bundle")
				return
			}
			m.fsys = rofs.VerifFileSystem()
		}
		if *nofile > 0 {
			var old syscall.Rlimit
			if err := syscall.Getrlimit(syscall.RLIMIT_NOFILE, &old); err != nil {
				panic(err)
			}
			if err := syscall.Setrlimit(syscall.RLIMIT_NOFILE, &syscall.Rlimit{Cur: uint64(*nofile), Max: old.Max}); err != nil {
				panic(err)
			}
			gc := debug.SetGCPercent(-1)
			m.fdLimit = true
			defer func() {
				debug.SetGCPercent(gc)
				_ = syscall.Setrlimit(syscall.RLIMIT_NOFILE, &old)
			}()
		}
		for j, st := range b.Prog {
			m.step, m.op = j, st.Op
			r.Steps++
			stc := st
			if vutil.Guard(r, j, st.Op, m.replay(), func() {
				switch stc.Op {
				case "lookup":
					m.doLookup(stc)
				case "getattr":
					m.doGetattr(stc)
				case "readdir":
					m.doReaddir(stc)
				case "read":
					m.doRead(stc)
				default:
					panic("unknown op " + stc.Op)
				}
			}) {
				return
			}
		}
		// a bundle of one thousand entries or more: every file is resolved, stat'ed and its first bytes are read
		// (the program visits only a few of them)
		if len(b.Files) >= 1000 {
			m.step, m.op = len(b.Prog), "sweep"
			if vutil.Guard(r, len(b.Prog), "sweep", m.replay(), func() {
				for _, f := range b.Files {
					r.Steps++
					ino, ok := m.walk(f.P)
					if !ok {
						continue
					}
					want := m.contents[frKey(f.P)]
					ga := &fuseops.GetInodeAttributesOp{Inode: ino}
					if err := m.fsys.GetInodeAttributes(context.Background(), ga); err != nil {
						m.bad("fusero/attr-error", "attributes", err.Error(), fmt.Sprintf("sweep: getattr(%q) fails", frKey(f.P)))
						continue
					}
					if frKind(ga.Attributes) != "file" || ga.Attributes.Size != uint64(len(want)) {
						m.bad("fusero/attr-size", len(want), ga.Attributes.Size, fmt.Sprintf("sweep: getattr(%q)", frKey(f.P)))
					}
					n := len(want)
					if n > 16 {
						n = 16
					}
					oo := &fuseops.OpenFileOp{Inode: ino}
					if err := m.fsys.OpenFile(context.Background(), oo); err != nil {
						m.bad("fusero/open-error", "ok", err.Error(), fmt.Sprintf("sweep: open(%q) fails", frKey(f.P)))
						continue
					}
					ro := &fuseops.ReadFileOp{Inode: ino, Handle: oo.Handle, Offset: 0, Size: 16, Dst: make([]byte, 16)}
					err := m.fsys.ReadFile(context.Background(), ro)
					var got []byte
					if len(ro.Data) > 0 {
						for _, d := range ro.Data {
							got = append(got, d...)
						}
					} else if ro.BytesRead >= 0 && ro.BytesRead <= len(ro.Dst) {
						got = ro.Dst[:ro.BytesRead]
					}
					if err != nil || !bytes.Equal(got, want[:n]) {
						m.bad("fusero/read-bytes", n, len(got), fmt.Sprintf("sweep: read(%q, 0, 16) of a file of %d bytes: err=%v", frKey(f.P), len(want), err))
					}
					_ = m.fsys.ReleaseFileHandle(context.Background(), &fuseops.ReleaseFileHandleOp{Handle: oo.Handle})
				}
			}) {
				return
			}
		}
		// the kernel forgets what it looked up
		for ino := range m.pathOf {
			if ino != fuseops.RootInodeID {
				_ = m.fsys.ForgetInode(context.Background(), &fuseops.ForgetInodeOp{Inode: ino, N: 1})
			}
		}
		nested := false
		for _, f := range b.Files {
			if len(f.P) > 1 {
				nested = true
			}
		}
		r.Nontrivial = nested && multiLeaf && (m.resumed || m.bigRead)
	}
	if err := vutil.Isolated("fusero", *in, res, run, 120*time.Second); err != nil {
		return err
	}
	if os.Getenv("VH_CHILD") != "" {
		return nil
	}
	res.Extra["lambda"] = *lambda
	res.Extra["mode"] = mode
	return res.Write(*out)
}
