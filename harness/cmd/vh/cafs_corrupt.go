package main

import (
	"bytes"
	"context"
	"encoding/json"
	"flag"
	"fmt"
	"io"
	"io/ioutil"
	"os"
	"path/filepath"
	"time"

	"github.com/oneconcern/datamon/pkg/cafs"
	"github.com/oneconcern/datamon/pkg/core"
	"github.com/oneconcern/datamon/pkg/model"
	"github.com/oneconcern/datamon/pkg/storage"
	"github.com/oneconcern/datamon/pkg/storage/localfs"
	"github.com/spf13/afero"
	"go.uber.org/zap"

	"verif/harness/store"
	"verif/harness/vutil"
)

func init() {
	subcmds["cafs-corrupt"] = cafsCorrupt
}

type corruptCase struct {
	Content []int    `json:"content"`
	Target  absKey   `json:"target"`
	IsRoot  bool     `json:"isroot"`
	Leaf    int      `json:"leaf"`
	Kind    string   `json:"kind"`
	Arg     int      `json:"arg"`
	Damaged bool     `json:"damaged"`
	Whole   []string `json:"whole"`
	ReadAts []struct {
		Off     int      `json:"off"`
		Len     int      `json:"len"`
		Allowed []string `json:"allowed"`
	} `json:"readats"`
}

type damage struct {
	name   string
	data   []byte // nil: delete
	delete bool
	extra  map[string][]byte // other blobs to add (a foreign object's leaves)
}

func flipBit(b []byte, i int) []byte {
	out := append([]byte{}, b...)
	out[i] ^= 0x10
	return out
}

// variants concretizes one abstract damage into byte-level damages.
func variants(c corruptCase, ref refine, orig []byte, allBytes bool, otherLeaf []byte) []damage {
	var out []damage
	leafCellRange := func(j int) (int, int) { // bytes of cell j (1-based) within the leaf blob
		lo := 0
		for i := 1; i < j; i++ {
			lo += ref.cellSize(i)
		}
		return lo, lo + ref.cellSize(j)
	}
	switch c.Kind {
	case "flip":
		lo, hi := leafCellRange(c.Arg)
		if hi > len(orig) {
			hi = len(orig)
		}
		if allBytes {
			for i := lo; i < hi; i++ {
				out = append(out, damage{name: fmt.Sprintf("flip@%d", i), data: flipBit(orig, i)})
			}
		} else {
			out = append(out, damage{name: fmt.Sprintf("flip@%d", lo), data: flipBit(orig, lo)})
			if hi-1 > lo {
				out = append(out, damage{name: fmt.Sprintf("flip@%d", hi-1), data: flipBit(orig, hi-1)})
			}
		}
	case "truncate":
		_, hi := leafCellRange(c.Arg)
		out = append(out, damage{name: fmt.Sprintf("truncate@%d", hi), data: orig[:hi]})
		out = append(out, damage{name: fmt.Sprintf("truncate@%d", len(orig)-1), data: orig[:len(orig)-1]})
		if len(orig) > 1 {
			out = append(out, damage{name: "truncate@1", data: orig[:1]})
		}
		if allBytes {
			lo, _ := leafCellRange(c.Arg)
			for i := lo + 1; i < hi; i++ {
				out = append(out, damage{name: fmt.Sprintf("truncate@%d", i), data: orig[:i]})
			}
		}
	case "extend":
		out = append(out, damage{name: "extend+1", data: append(append([]byte{}, orig...), 0x5a)})
	case "empty":
		out = append(out, damage{name: "empty", data: []byte{}})
	case "delete":
		out = append(out, damage{name: "delete", delete: true})
	case "swap":
		out = append(out, damage{name: fmt.Sprintf("swap-with-leaf-%d", c.Arg), data: otherLeaf})
	case "foreign":
		cells := make([]int, 0)
		var tcells []int
		_ = json.Unmarshal(c.Target.Data, &tcells)
		for range tcells {
			cells = append(cells, 99)
		}
		out = append(out, damage{name: "foreign-leaf", data: ref.bytesOf(cells)})
	case "flipslot":
		base := 64 * (c.Arg - 1)
		out = append(out, damage{name: fmt.Sprintf("flipslot%d@0", c.Arg), data: flipBit(orig, base)})
		out = append(out, damage{name: fmt.Sprintf("flipslot%d@63", c.Arg), data: flipBit(orig, base+63)})
		if allBytes {
			for i := 1; i < 63; i++ {
				out = append(out, damage{name: fmt.Sprintf("flipslot%d@%d", c.Arg, i), data: flipBit(orig, base+i)})
			}
		}
	case "fliproot":
		out = append(out, damage{name: "fliproot@0", data: flipBit(orig, len(orig)-64)})
		out = append(out, damage{name: "fliproot@63", data: flipBit(orig, len(orig)-1)})
	case "dropkey":
		out = append(out, damage{name: "dropkey", data: orig[:len(orig)-64]})
	case "keepkeys":
		out = append(out, damage{name: fmt.Sprintf("keepkeys%d", c.Arg), data: orig[:64*c.Arg]})
	case "foreignroot":
		// the valid root blob of another object
		other := ref.bytesOf([]int{97, 98})
		lk := treeKey(other, uint32(ref.Lambda), 0, 0, true)
		rk := treeKey(lk[:], uint32(ref.Lambda), 1, 0, true)
		out = append(out, damage{name: "foreignroot", data: append(append([]byte{}, lk[:]...), rk[:]...), extra: map[string][]byte{lk.String(): other}})
	case "dropbyte":
		out = append(out, damage{name: "dropbyte", data: orig[:len(orig)-1]})
	}
	return out
}

func allowedHas(a []string, s string) bool {
	for _, x := range a {
		if x == s {
			return true
		}
	}
	return false
}

func outcome(got []byte, err error, exp []byte) string {
	if err != nil && err != io.EOF {
		return "error"
	}
	if bytes.Equal(got, exp) {
		return "exact"
	}
	return "wrong"
}

func cafsCorrupt(args []string) error {
	fl := flag.NewFlagSet("cafs-corrupt", flag.ExitOnError)
	in := fl.String("in", "", "cases (NDJSON)")
	out := fl.String("out", "", "result JSON")
	lambda := fl.Int("leaf", 64, "leaf size")
	cells := fl.Int("cells", 3, "cells per leaf")
	boundary := fl.Bool("boundary", false, "boundary map")
	crc := fl.Bool("crc", false, "CRC-capable store")
	allBytes := fl.Bool("all-bytes", false, "every byte position")
	seed := fl.Uint64("seed", 1, "seed")
	download := fl.Bool("download", false, "also observe the damage through a bundle download (core.Publish)")
	work := fl.String("work", "", "scratch directory (for --download)")
	retryDest := fl.Bool("retry-dest", false, "download only, into a destination store that retries failed writes (the default of localfs.New and of the CLI): one damage per case, concurrency 1")
	_ = fl.Parse(args)
	ref := refine{L: *cells, Lambda: *lambda, Boundary: *boundary, Seed: *seed}
	cfg := &cafsCfg{ref: ref, crc: *crc}
	res := vutil.NewResult("cafs-corrupt")
	run := func(i int, line []byte, r *vutil.BehResult) {
		var c corruptCase
		if err := json.Unmarshal(line, &c); err != nil {
			panic(err)
		}
		if i < 2 {
			r.Sample = json.RawMessage(line)
		}
		r.Nontrivial = c.Damaged
		content := ref.bytesOf(c.Content)
		w := store.NewWorld()
		ctl := &store.Ctl{Name: "c"}
		v := store.NewView(w, "blob", ctl)
		var backend storage.Store = v
		if *crc {
			backend = &store.CRCView{View: v}
		} else {
			v.NoCRC = true
		}
		fs, err := newCafs(cfg, backend, 2)
		if err != nil {
			panic(err)
		}
		pr, err := fs.Put(context.Background(), hideWriterTo{bytes.NewReader(content)})
		if err != nil {
			panic(fmt.Errorf("put: %w", err))
		}
		snapshot := w.Snapshot("blob")
		tk, _ := ref.concrete(c.Target)
		orig, ok := snapshot[tk.String()]
		if !ok {
			// the store does not hold the blob the layout says it should: C01/C02 territory
			r.Mismatches = append(r.Mismatches, vutil.Mismatch{Beh: i, Op: "setup", Sig: "corrupt/target-blob-missing"})
			return
		}
		var otherLeaf []byte
		if c.Kind == "swap" {
			var leaves []absKey
			_ = json.Unmarshal(mustJSON(rootLeaves(c, ref)), &leaves)
			lk, _ := ref.concreteLeaf(leaves[c.Arg-1])
			otherLeaf = snapshot[lk.String()]
		}
		for _, d := range variants(c, ref, orig, *allBytes, otherLeaf) {
			// restore, then damage
			for k, b := range snapshot {
				w.RawSet("blob", k, b)
			}
			if d.delete {
				w.RawDelete("blob", tk.String())
			} else {
				w.RawSet("blob", tk.String(), d.data)
			}
			for k, b := range d.extra {
				w.RawSet("blob", k, b)
			}
			real := c.Damaged && (d.delete || !bytes.Equal(d.data, orig))
			what := "root"
			if !c.IsRoot {
				what = "leaf"
			}
			judge := func(style string, allowed []string, oc string, detail string) {
				r.Steps++
				if !real {
					allowed = []string{"exact"}
				}
				if allowedHas(allowed, oc) {
					return
				}
				kind := c.Kind
				sig := fmt.Sprintf("corrupt/%s/%s-%s/%s", style, what, kind, oc)
				r.Mismatches = append(r.Mismatches, vutil.Mismatch{Beh: i, Op: style, Sig: sig, Expected: allowed, Got: oc,
					Detail: fmt.Sprintf("%s; damage %s on %s blob of a %d-byte object (leaf %d)", detail, d.name, what, len(content), c.Leaf),
					Replay: map[string]interface{}{"case": json.RawMessage(line), "variant": d.name, "lambda": *lambda, "boundary": *boundary, "crc": *crc, "seed": *seed}})
			}
			fresh := func() cafs.Fs {
				f, err := newCafs(cfg, backend, 2)
				if err != nil {
					panic(err)
				}
				return f
			}
			guard := func(style string, allowed []string, f func() (string, string)) {
				defer func() {
					if e := recover(); e != nil {
						r.Steps++
						r.Mismatches = append(r.Mismatches, vutil.Mismatch{Beh: i, Op: style, Sig: vutil.PanicSig(stack()),
							Detail: fmt.Sprintf("%v; damage %s", e, d.name)})
					}
				}()
				oc, detail := f()
				judge(style, allowed, oc, detail)
			}
			ctx := context.Background()
			// whole-object reads
			for _, b := range []int{*lambda, 7} {
				b := b
				guard("read", c.Whole, func() (string, string) {
					rd, err := fresh().Get(ctx, pr.Key)
					if err != nil {
						return "error", ""
					}
					defer rd.Close()
					var got []byte
					p := make([]byte, b)
					for it := 0; it < len(content)*2+20; it++ {
						n, err := rd.Read(p)
						got = append(got, p[:n]...)
						if err == io.EOF {
							return outcome(got, nil, content), fmt.Sprintf("Read buf=%d", b)
						}
						if err != nil {
							return "error", ""
						}
					}
					return "wrong", "no EOF"
				})
			}
			guard("readall", c.Whole, func() (string, string) {
				rd, err := fresh().Get(ctx, pr.Key)
				if err != nil {
					return "error", ""
				}
				defer rd.Close()
				got, err := ioutil.ReadAll(onlyReader{rd})
				return outcome(got, err, content), "ioutil.ReadAll"
			})
			for _, at := range []bool{false, true} {
				at := at
				guard(map[bool]string{false: "writeto", true: "writeto-at"}[at], c.Whole, func() (string, string) {
					rd, err := fresh().Get(ctx, pr.Key)
					if err != nil {
						return "error", ""
					}
					defer rd.Close()
					wt := rd.(io.WriterTo)
					if at {
						mw := &memWriterAt{}
						_, err = wt.WriteTo(mw)
						return outcome(mw.buf, err, content), "WriteTo(io.WriterAt)"
					}
					pw := &plainWriter{}
					_, err = wt.WriteTo(pw)
					return outcome(pw.buf.Bytes(), err, content), "WriteTo(io.Writer)"
				})
			}
			guard("readat-whole", c.Whole, func() (string, string) {
				ra, err := fresh().GetAt(ctx, pr.Key)
				if err != nil {
					return "error", ""
				}
				p := make([]byte, len(content)+3)
				n, err := ra.ReadAt(p, 0)
				return outcome(p[:n], err, content), "ReadAt(0, all)"
			})
			// ranged reads
			for _, ra := range c.ReadAts {
				ra := ra
				lo := ref.byteOffset(ra.Off)
				hi := ref.byteOffset(ra.Off + ra.Len)
				if lo > len(content) {
					lo = len(content)
				}
				if hi > len(content) {
					hi = len(content)
				}
				if hi <= lo {
					continue
				}
				guard("readat", ra.Allowed, func() (string, string) {
					rat, err := fresh().GetAt(ctx, pr.Key)
					if err != nil {
						return "error", ""
					}
					p := make([]byte, hi-lo)
					n, err := rat.ReadAt(p, int64(lo))
					return outcome(p[:n], err, content[lo:hi]), fmt.Sprintf("ReadAt(%d,%d)", lo, hi-lo)
				})
			}
			// a leaf that this reader instance already fetched and verified, read again after it left the
			// instance's one-leaf cache and was damaged at rest: an error, or the bytes first delivered
			nLeaves := (len(content) + *lambda - 1) / *lambda
			if !c.IsRoot && c.Leaf >= 1 && c.Leaf <= nLeaves && nLeaves >= 2 {
				lo := (c.Leaf - 1) * *lambda
				hi := lo + *lambda
				if hi > len(content) {
					hi = len(content)
				}
				guard("readat-reread", []string{"error", "exact"}, func() (string, string) {
					for k, b := range snapshot {
						w.RawSet("blob", k, b)
					}
					cfg1 := *cfg
					cfg1.cache1 = true
					f1, err := newCafs(&cfg1, backend, 2)
					if err != nil {
						panic(err)
					}
					rat, err := f1.GetAt(ctx, pr.Key)
					if err != nil {
						return "wrong", "GetAt of the undamaged object failed"
					}
					p := make([]byte, hi-lo)
					n, err := rat.ReadAt(p, int64(lo))
					if outcome(p[:n], err, content[lo:hi]) != "exact" {
						return "wrong", "first ReadAt of the undamaged object"
					}
					for j := 0; j < nLeaves; j++ {
						if j == c.Leaf-1 {
							continue
						}
						qlo, qhi := j**lambda, (j+1)**lambda
						if qhi > len(content) {
							qhi = len(content)
						}
						q := make([]byte, qhi-qlo)
						n, err := rat.ReadAt(q, int64(qlo))
						if outcome(q[:n], err, content[qlo:qhi]) != "exact" {
							return "wrong", "ReadAt of another leaf of the undamaged object"
						}
					}
					if d.delete {
						w.RawDelete("blob", tk.String())
					} else {
						w.RawSet("blob", tk.String(), d.data)
					}
					for k, b := range d.extra {
						w.RawSet("blob", k, b)
					}
					n, err = rat.ReadAt(p, int64(lo))
					return outcome(p[:n], err, content[lo:hi]), fmt.Sprintf("one reader, cache of one leaf: ReadAt(%d,%d) ok, other leaves read, blob damaged, ReadAt(%d,%d) again", lo, hi-lo, lo, hi-lo)
				})
			}
		}
	}
	runDownload := func(i int, line []byte, r *vutil.BehResult, c corruptCase, content []byte) {
		wdir := filepath.Join(*work, fmt.Sprintf("cd%d", i))
		defer os.RemoveAll(wdir)
		e := newMetaEnv(wdir, *lambda, *seed, *crc)
		stores, _ := e.client()
		if err := core.CreateRepo(model.RepoDescriptor{Name: "r1", Description: "d", Timestamp: time.Now(), Contributor: contributor()}, stores); err != nil {
			panic(err)
		}
		src := e.scratch("src")
		if err := os.WriteFile(filepath.Join(src, "f"), content, 0600); err != nil {
			panic(err)
		}
		up := e.newBundle(stores, "r1", e.ksuidFor(1), localStore(src))
		if err := core.Upload(context.Background(), up); err != nil {
			panic(err)
		}
		snapshot := e.w.Snapshot("blob")
		tk, _ := ref.concrete(c.Target)
		orig, ok := snapshot[tk.String()]
		if !ok {
			r.Mismatches = append(r.Mismatches, vutil.Mismatch{Beh: i, Op: "setup", Sig: "corrupt/download/target-blob-missing"})
			return
		}
		var otherLeaf []byte
		if c.Kind == "swap" {
			lk, _ := ref.concreteLeaf(rootLeaves(c, ref)[c.Arg-1])
			otherLeaf = snapshot[lk.String()]
		}
		what := "root"
		if !c.IsRoot {
			what = "leaf"
		}
		vs := variants(c, ref, orig, false, otherLeaf)
		concs := []int{1, 4}
		mkDest := localStore
		if *retryDest {
			if len(vs) > 1 {
				vs = vs[:1]
			}
			concs = []int{1}
			mkDest = func(dir string) storage.Store {
				return localfs.New(afero.NewBasePathFs(afero.NewOsFs(), dir), localfs.WithLogger(zap.NewNop()))
			}
		}
		for _, d := range vs {
			for k, b := range snapshot {
				e.w.RawSet("blob", k, b)
			}
			if d.delete {
				e.w.RawDelete("blob", tk.String())
			} else {
				e.w.RawSet("blob", tk.String(), d.data)
			}
			for k, b := range d.extra {
				e.w.RawSet("blob", k, b)
			}
			real := c.Damaged && (d.delete || !bytes.Equal(d.data, orig))
			for _, conc := range concs {
				e.conc = conc
				dstores, _ := e.client()
				dir := e.scratch("dl")
				b := e.newBundle(dstores, "r1", e.ksuidFor(1), mkDest(dir))
				var err error
				panicked := vutil.Guard(r, 0, "download", nil, func() { err = core.Publish(context.Background(), b) })
				r.Steps++
				if panicked {
					continue
				}
				got, rerr := os.ReadFile(filepath.Join(dir, "f"))
				oc := "exact"
				switch {
				case err != nil:
					oc = "error"
				case rerr != nil || !bytes.Equal(got, content):
					oc = "wrong"
				}
				allowed := c.Whole
				if !real {
					allowed = []string{"exact"}
				}
				if !allowedHas(allowed, oc) {
					r.Mismatches = append(r.Mismatches, vutil.Mismatch{Beh: i, Op: "download", Sig: fmt.Sprintf("corrupt/download/%s-%s/%s", what, c.Kind, oc),
						Expected: allowed, Got: oc,
						Detail: fmt.Sprintf("core.Publish into a local directory returned %v; the file has %d bytes (stored %d); damage %s", err, len(got), len(content), d.name),
						Replay: map[string]interface{}{"case": json.RawMessage(line), "variant": d.name, "lambda": *lambda, "crc": *crc}})
				}
				_ = os.RemoveAll(dir)
			}
		}
	}
	runBoth := func(i int, line []byte, r *vutil.BehResult) {
		if !*retryDest {
			run(i, line, r)
		}
		if *download || *retryDest {
			var c corruptCase
			_ = json.Unmarshal(line, &c)
			runDownload(i, line, r, c, ref.bytesOf(c.Content))
		}
	}
	if err := vutil.Isolated("cafs-corrupt", *in, res, runBoth, 180*time.Second); err != nil {
		return err
	}
	if os.Getenv("VH_CHILD") != "" {
		return nil
	}
	res.Extra["lambda"] = *lambda
	return res.Write(*out)
}

// rootLeaves returns the abstract leaf keys of the case's object.
func rootLeaves(c corruptCase, ref refine) []absKey {
	// the abstract layout, recomputed from the content the way Cafs.tla defines it
	n := len(c.Content)
	var out []absKey
	full := n / ref.L
	for i := 1; i <= full; i++ {
		out = append(out, absKey{Depth: 0, Off: i, Last: false, Data: mustJSON(c.Content[(i-1)*ref.L : i*ref.L])})
	}
	if n%ref.L != 0 {
		out = append(out, absKey{Depth: 0, Off: full, Last: true, Data: mustJSON(c.Content[full*ref.L:])})
	}
	return out
}

type hideWriterTo struct{ r io.Reader }

func (h hideWriterTo) Read(p []byte) (int, error) { return h.r.Read(p) }

type onlyReader struct{ r io.Reader }

func (o onlyReader) Read(p []byte) (int, error) { return o.r.Read(p) }
