package main

// Subcommand cafsstore (extension check X02): replays the histories of
// spec/Gen_CafsStore.tla (put / delete / clear / lose / read / has / keys /
// rootkeys steps, each carrying the value of the AS-IS specification
// spec/CafsStore.tla) on a real cafs.Fs over the in-memory object store.
//
// Two kinds of outcome are kept apart:
//   - a disagreement between the real code and the as-is specification is a
//     mismatch (signature cafsstore/...): a verdict;
//   - a step on which the real code agrees with the as-is specification but
//     the DESIRED behaviour is not delivered is counted (extra counters
//     design_*) and its shortest history written to --design-out: the
//     confirmation, on the real code, of the counterexamples TLC finds for
//     DeleteKeepsOthers / NoStaleRead / RootKeysAll.

import (
	"bytes"
	"context"
	"encoding/json"
	"flag"
	"fmt"
	"io"
	"io/ioutil"
	"os"
	"runtime/debug"
	"sort"
	"strings"
	"time"

	"github.com/oneconcern/datamon/pkg/cafs"
	"github.com/oneconcern/datamon/pkg/storage"
	"go.uber.org/zap"

	"verif/harness/store"
	"verif/harness/vutil"
)

func init() {
	subcmds["cafsstore"] = cafsStoreReplay
}

type csHeader struct {
	Table []absKey `json:"table"`
	Pool  [][]int  `json:"pool"`
}

type csStep struct {
	Op      string `json:"op"`
	C       int    `json:"c"`       // object (1-based index into the pool)
	K       int    `json:"k"`       // key (1-based index into the table)
	Found   bool   `json:"found"`   // put
	Res     string `json:"res"`     // delete: ok|err; read: ok|noget|noread
	Blobs   []int  `json:"blobs"`   // mutations: the blob set afterwards
	Style   string `json:"style"`   // read: seq|at
	Want    bool   `json:"want"`    // read: the desired behaviour makes this read succeed
	InStore bool   `json:"instore"` // read: the (as-is) store holds every blob of the object
	Opt     string `json:"opt"`     // has: plain|roots|gather
	Has     bool   `json:"has"`     // has
	Missing []int  `json:"missing"` // has gather
	Keys    []int  `json:"keys"`    // keys, rootkeys
}

type csHistory struct {
	Mode  string   `json:"mode"` // fresh: a new cafs.Fs per read; shared: one instance for the whole history
	Steps []csStep `json:"steps"`
}

// csWorld is the concretization of the header for one refinement.
type csWorld struct {
	ref      refine
	hdr      csHeader
	keys     []cafs.Key       // table index-1 -> concrete key
	blobData [][]byte         // table index-1 -> bytes the layout puts in that blob
	idxOf    map[cafs.Key]int // concrete key -> table index (1-based)
	content  [][]byte         // pool index-1 -> bytes
	rootOf   []cafs.Key       // pool index-1 -> root key
	emptyIdx int              // table index of the root of the empty object, 0 if none
	names    []string         // pool index-1 -> printable content
	keyNames []string         // table index-1 -> printable key
}

func newCsWorld(ref refine, hdr csHeader) (*csWorld, error) {
	w := &csWorld{ref: ref, hdr: hdr, idxOf: map[cafs.Key]int{}}
	for i, ak := range hdr.Table {
		ck, data := ref.concrete(ak)
		if prev, dup := w.idxOf[ck]; dup {
			return nil, fmt.Errorf("refinement is not injective: table entries %d and %d share a concrete key", prev, i+1)
		}
		w.keys = append(w.keys, ck)
		w.blobData = append(w.blobData, data)
		w.idxOf[ck] = i + 1
		if ak.Depth == 1 {
			var leaves []absKey
			_ = json.Unmarshal(ak.Data, &leaves)
			if len(leaves) == 0 {
				w.emptyIdx = i + 1
			}
			w.keyNames = append(w.keyNames, fmt.Sprintf("root#%d(%d leaves)", i+1, len(leaves)))
		} else {
			w.keyNames = append(w.keyNames, fmt.Sprintf("leaf#%d(off=%d,last=%v,cells=%s)", i+1, ak.Off, ak.Last, string(ak.Data)))
		}
	}
	for _, cells := range hdr.Pool {
		b := ref.bytesOf(cells)
		w.content = append(w.content, b)
		w.names = append(w.names, strings.ReplaceAll(fmt.Sprint(cells), " ", ","))
		// the root key of this content, by the layout of Cafs.tla, must be in the table
		var leafKeys []byte
		lam := ref.Lambda
		n := len(b)
		full := n / lam
		for i := 0; i < full; i++ {
			k := treeKey(b[i*lam:(i+1)*lam], uint32(lam), 0, uint64(i+1), false)
			leafKeys = append(leafKeys, k[:]...)
		}
		if n%lam != 0 {
			k := treeKey(b[full*lam:], uint32(lam), 0, uint64(full), true)
			leafKeys = append(leafKeys, k[:]...)
		}
		root := treeKey(leafKeys, uint32(lam), 1, 0, true)
		if _, ok := w.idxOf[root]; !ok {
			return nil, fmt.Errorf("root key of pool content %v is not in the key table", cells)
		}
		w.rootOf = append(w.rootOf, root)
	}
	return w, nil
}

type csCfg struct {
	ref       refine
	hdr       csHeader
	cycle     []int // leaf sizes used in turn
	designOut string
	best      map[string]int // shortest design confirmation written so far, per kind
}

func (w *csWorld) newFs(backend storage.Store) cafs.Fs {
	fs, err := cafs.New(
		cafs.LeafSize(uint32(w.ref.Lambda)),
		cafs.Backend(backend),
		cafs.ConcurrentFlushes(2),
		cafs.Prefetch(0),
		cafs.WithRetry(false),
		cafs.Logger(zap.NewNop()),
		cafs.CacheSize(64*w.ref.Lambda), // every leaf of the pool fits: no eviction (the spec's leaf cache is a set)
	)
	if err != nil {
		panic(err)
	}
	return fs
}

func (w *csWorld) idxList(ks []cafs.Key) (idx []int, unknown int) {
	for _, k := range ks {
		if i, ok := w.idxOf[k]; ok {
			idx = append(idx, i)
		} else {
			unknown++
		}
	}
	sort.Ints(idx)
	return
}

func sortedInts(a []int) []int {
	b := append([]int{}, a...)
	sort.Ints(b)
	return b
}

// render a history prefix compactly, for humans
func (w *csWorld) render(h csHistory, upto int) string {
	var parts []string
	for i := 0; i <= upto && i < len(h.Steps); i++ {
		s := h.Steps[i]
		switch s.Op {
		case "put", "delete":
			parts = append(parts, fmt.Sprintf("%s(%s)", s.Op, w.names[s.C-1]))
		case "clear":
			parts = append(parts, "clear")
		case "lose":
			parts = append(parts, fmt.Sprintf("lose(%s)", w.keyNames[s.K-1]))
		case "read":
			if i == upto || h.Mode == "shared" {
				parts = append(parts, fmt.Sprintf("read-%s(%s)=%s", s.Style, w.names[s.C-1], s.Res))
			}
		default:
			if i == upto {
				parts = append(parts, fmt.Sprintf("%s", s.Op))
			}
		}
	}
	return "[" + h.Mode + " instance] " + strings.Join(parts, " ; ")
}

func (cfg *csCfg) design(w *csWorld, r *vutil.BehResult, kind string, h csHistory, i, step int, what string) {
	r.Extra = addExtra(r.Extra, "design_"+kind, 1)
	// length = number of state-changing steps before the observing one + 1
	n := 1
	for j := 0; j < step; j++ {
		switch h.Steps[j].Op {
		case "put", "delete", "clear", "lose":
			n++
		case "read":
			if h.Mode == "shared" {
				n++
			}
		}
	}
	if cfg.designOut == "" {
		return
	}
	// the shortest per kind, for the empty object and for the others apart
	empty := step < len(h.Steps) && h.Steps[step].Op == "read" && len(w.content[h.Steps[step].C-1]) == 0
	bk := fmt.Sprint(kind, empty)
	if b, ok := cfg.best[bk]; ok && b <= n {
		return
	}
	cfg.best[bk] = n
	f, err := os.OpenFile(cfg.designOut, os.O_CREATE|os.O_WRONLY|os.O_APPEND, 0644)
	if err != nil {
		return
	}
	defer f.Close()
	_ = json.NewEncoder(f).Encode(map[string]interface{}{"kind": kind, "len": n, "beh": i, "step": step, "mode": h.Mode,
		"lambda": w.ref.Lambda, "history": w.render(h, step), "what": what, "empty": empty})
}

func runCafsStoreHistory(cfg *csCfg, w *csWorld, i int, line []byte, r *vutil.BehResult) {
	var h csHistory
	if err := json.Unmarshal(line, &h); err != nil {
		panic(err)
	}
	if i < 2 {
		r.Sample = map[string]interface{}{"mode": h.Mode, "history": w.render(h, len(h.Steps)), "steps": len(h.Steps)}
	}
	ctx := context.Background()
	world := store.NewWorld()
	view := store.NewView(world, "blob", &store.Ctl{Name: "cafsstore"})
	view.NoCRC = true
	var backend storage.Store = view
	var shared cafs.Fs
	if h.Mode == "shared" {
		shared = w.newFs(backend)
	}
	// fresh mode: every read gets an instance of its own (nothing cached: cafs.New is costly, hence not more than
	// that); puts, deletes and the queries go through one writer instance, which never reads: the as-is
	// specification says none of them consults the instance's caches, and the replay would tell if one did
	var writer cafs.Fs
	queryFs := func() cafs.Fs {
		if shared != nil {
			return shared
		}
		if writer == nil {
			writer = w.newFs(backend)
		}
		return writer
	}
	readFs := func() cafs.Fs {
		if shared != nil {
			return shared
		}
		return w.newFs(backend)
	}
	replay := map[string]interface{}{"history": json.RawMessage(line), "lambda": w.ref.Lambda, "boundary": w.ref.Boundary,
		"seed": w.ref.Seed, "header": cfg.hdr}
	bad := func(step int, op, sig string, exp, got interface{}, detail string) {
		r.Mismatches = append(r.Mismatches, vutil.Mismatch{Beh: i, Step: step, Op: op, Sig: "cafsstore/" + sig, Expected: exp, Got: got,
			Detail: detail + " | " + w.render(h, step), Replay: replay})
	}
	// the store against the specification's blob set
	diverged := false
	checkStore := func(step int, op string, blobs []int) {
		before := len(r.Mismatches)
		defer func() { diverged = diverged || len(r.Mismatches) > before }()
		snap := world.Snapshot("blob")
		exp := map[string]int{}
		for _, k := range blobs {
			exp[w.keys[k-1].String()] = k
		}
		for name, k := range exp {
			got, ok := snap[name]
			if !ok {
				bad(step, op, "store/blob-missing", w.keyNames[k-1], nil, "after "+op+": a blob the specification keeps is gone")
			} else if !bytes.Equal(got, w.blobData[k-1]) {
				bad(step, op, "store/blob-bytes", len(w.blobData[k-1]), len(got), "after "+op+": "+w.keyNames[k-1])
			}
		}
		for name := range snap {
			if _, ok := exp[name]; !ok {
				what := "a blob outside the key table"
				if kk, err := cafs.KeyFromString(name); err == nil {
					if ix, ok := w.idxOf[kk]; ok {
						what = w.keyNames[ix-1]
					}
				}
				bad(step, op, "store/blob-extra", nil, what, "after "+op+": a blob the specification removes (or never stores) is present")
			}
		}
	}
	sharedObjs := 0
	stored := map[int]bool{}
	for si, s := range h.Steps {
		si, s := si, s
		if diverged {
			break // the store is no longer the specification's: what follows would only echo that
		}
		r.Steps++
		vutil.Guard(r, si, s.Op, replay, func() {
			switch s.Op {
			case "put":
				res, err := queryFs().Put(ctx, onlyReader{bytes.NewReader(w.content[s.C-1])})
				if err != nil {
					bad(si, "put", "put/error", nil, err.Error(), "")
					return
				}
				if res.Key != w.rootOf[s.C-1] {
					bad(si, "put", "put/key", w.rootOf[s.C-1].String(), res.Key.String(), "")
				}
				if res.Written != int64(len(w.content[s.C-1])) {
					bad(si, "put", "put/written", len(w.content[s.C-1]), res.Written, "")
				}
				if res.Found != s.Found {
					bad(si, "put", "put/found", s.Found, res.Found, "PutRes.Found must tell whether the root blob was there before")
				}
				checkStore(si, "put", s.Blobs)
				stored[s.C] = true
				if len(stored) > sharedObjs {
					sharedObjs = len(stored)
				}
			case "delete":
				err := queryFs().Delete(ctx, w.rootOf[s.C-1])
				got := "ok"
				if err != nil {
					got = "err"
				}
				if got != s.Res {
					bad(si, "delete", "delete/result", s.Res, got, fmt.Sprint(err))
				}
				checkStore(si, "delete", s.Blobs)
				if got == "ok" {
					delete(stored, s.C)
				}
			case "clear":
				if err := queryFs().Clear(ctx); err != nil {
					bad(si, "clear", "clear/error", nil, err.Error(), "")
				}
				checkStore(si, "clear", s.Blobs)
				stored = map[int]bool{}
			case "lose":
				world.RawDelete("blob", w.keys[s.K-1].String())
				checkStore(si, "lose", s.Blobs)
			case "read":
				got, detail := w.readObj(ctx, readFs(), s, func(sig, d string) { bad(si, "read", sig, nil, nil, d) })
				if got != s.Res {
					bad(si, "read", "read/result", s.Res, got, fmt.Sprintf("%s read of %s: %s", s.Style, w.names[s.C-1], detail))
					return
				}
				// the real code agrees with the as-is specification; does it deliver the desired behaviour?
				if s.Want && got != "ok" {
					cfg.design(w, r, "delete_breaks_other_object", h, i, si,
						fmt.Sprintf("object %s was put and never deleted, yet its %s read fails (%s: %s)", w.names[s.C-1], s.Style, got, detail))
				}
				if !s.InStore && got == "ok" {
					cfg.design(w, r, "stale_read_of_removed_object", h, i, si,
						fmt.Sprintf("object %s is not (completely) in the store, yet its %s read succeeds from the instance's caches", w.names[s.C-1], s.Style))
				}
			case "has":
				var opts []cafs.HasOption
				switch s.Opt {
				case "roots":
					opts = append(opts, cafs.HasOnlyRoots())
				case "gather":
					opts = append(opts, cafs.HasGatherIncomplete())
				}
				has, missing, err := queryFs().Has(ctx, w.keys[s.K-1], opts...)
				if err != nil {
					bad(si, "has", "has/error", nil, err.Error(), s.Opt)
					return
				}
				if has != s.Has {
					bad(si, "has", "has-"+s.Opt+"/result", s.Has, has, w.keyNames[s.K-1])
				}
				// missing leaves: in the order of the root blob
				var gotMissing []int
				unknown := 0
				for _, k := range missing {
					if ix, ok := w.idxOf[k]; ok {
						gotMissing = append(gotMissing, ix)
					} else {
						unknown++
					}
				}
				if unknown > 0 || !eqInts(gotMissing, s.Missing) {
					bad(si, "has", "has-"+s.Opt+"/missing", s.Missing, gotMissing, w.keyNames[s.K-1])
				}
			case "keys", "rootkeys":
				var ks []cafs.Key
				var err error
				if s.Op == "keys" {
					ks, err = queryFs().Keys(ctx)
				} else {
					ks, err = queryFs().RootKeys(ctx)
				}
				if err != nil {
					bad(si, s.Op, s.Op+"/error", nil, err.Error(), "")
					return
				}
				got, unknown := w.idxList(ks)
				if unknown > 0 || !eqInts(got, sortedInts(s.Keys)) {
					bad(si, s.Op, s.Op+"/result", sortedInts(s.Keys), got, fmt.Sprintf("%d keys outside the table; duplicates count", unknown))
				}
				if s.Op == "rootkeys" && w.emptyIdx > 0 {
					if _, present := world.Snapshot("blob")[w.keys[w.emptyIdx-1].String()]; present {
						listed := false
						for _, g := range got {
							listed = listed || g == w.emptyIdx
						}
						if !listed {
							cfg.design(w, r, "empty_object_root_not_listed", h, i, si,
								"the empty object was put and its root blob is present, yet RootKeys does not list it")
						}
					}
				}
			default:
				panic("unknown step " + s.Op)
			}
		})
	}
	r.Nontrivial = sharedObjs >= 2
}

// readObj performs one read of a whole object and classifies it like CafsStore!ReadRes.
func (w *csWorld) readObj(ctx context.Context, fs cafs.Fs, s csStep, wrong func(sig, detail string)) (string, string) {
	content := w.content[s.C-1]
	key := w.rootOf[s.C-1]
	if s.Style == "seq" {
		rd, err := fs.Get(ctx, key)
		if err != nil {
			return "noget", err.Error()
		}
		defer rd.Close()
		got, err := ioutil.ReadAll(onlyReader{rd})
		if err != nil {
			return "noread", err.Error()
		}
		if !bytes.Equal(got, content) {
			wrong("read/wrong-bytes", fmt.Sprintf("sequential read of %s returned %d bytes, other than the %d stored", w.names[s.C-1], len(got), len(content)))
		}
		return "ok", ""
	}
	ra, err := fs.GetAt(ctx, key)
	if err != nil {
		return "noget", err.Error()
	}
	if c, ok := ra.(io.Closer); ok {
		defer c.Close()
	}
	p := make([]byte, len(content)+7)
	n, err := ra.ReadAt(p, 0)
	if err != nil && err != io.EOF {
		return "noread", err.Error()
	}
	if n != len(content) || !bytes.Equal(p[:n], content) {
		wrong("read/wrong-bytes", fmt.Sprintf("ReadAt of %s returned %d bytes, other than the %d stored", w.names[s.C-1], n, len(content)))
	}
	return "ok", ""
}

func cafsStoreReplay(args []string) error {
	fl := flag.NewFlagSet("cafsstore", flag.ExitOnError)
	in := fl.String("in", "", "histories (NDJSON)")
	header := fl.String("header", "", "header written by Gen_CafsStore (key table, pool); default <in>.hdr")
	out := fl.String("out", "", "result JSON")
	lambda := fl.Int("leaf", 64, "leaf size in bytes")
	leafCycle := fl.String("leaf-cycle", "", "comma separated leaf sizes used in turn, history by history")
	cells := fl.Int("cells", 3, "cells per leaf in the specification")
	boundary := fl.Bool("boundary", false, "boundary refinement map (cells of 1, leaf-2, 1 bytes)")
	seed := fl.Uint64("seed", 1, "seed of the cell bytes")
	designOut := fl.String("design-out", "", "NDJSON file receiving the shortest confirmations of the design findings")
	_ = fl.Parse(args)
	if *header == "" {
		*header = *in + ".hdr"
	}
	hb, err := ioutil.ReadFile(*header)
	if err != nil {
		return err
	}
	cfg := &csCfg{ref: refine{L: *cells, Lambda: *lambda, Boundary: *boundary, Seed: *seed}, designOut: *designOut, best: map[string]int{}}
	if err := json.Unmarshal(bytes.TrimSpace(bytes.SplitN(hb, []byte("\n"), 2)[0]), &cfg.hdr); err != nil {
		return fmt.Errorf("header: %v", err)
	}
	cfg.cycle = []int{*lambda}
	if *leafCycle != "" {
		cfg.cycle = nil
		for _, f := range strings.Split(*leafCycle, ",") {
			var n int
			if _, err := fmt.Sscanf(strings.TrimSpace(f), "%d", &n); err == nil && n > 0 {
				cfg.cycle = append(cfg.cycle, n)
			}
		}
	}
	worlds := map[int]*csWorld{}
	for _, lam := range cfg.cycle {
		ref := cfg.ref
		ref.Lambda = lam
		w, err := newCsWorld(ref, cfg.hdr)
		if err != nil {
			return err
		}
		worlds[lam] = w
	}
	if os.Getenv("VH_CHILD") != "" {
		// every cafs.New and every reader allocates (and drops) 1-2 MB: collecting by a memory limit instead of
		// by heap growth makes the replay several times cheaper (the live heap of a history is tiny)
		debug.SetGCPercent(-1)
		debug.SetMemoryLimit(192 << 20)
	}
	res := vutil.NewResult("cafsstore")
	run := func(i int, line []byte, r *vutil.BehResult) {
		runCafsStoreHistory(cfg, worlds[cfg.cycle[i%len(cfg.cycle)]], i, line, r)
	}
	if err := vutil.Isolated("cafsstore", *in, res, run, 60*time.Second); err != nil {
		return err
	}
	if os.Getenv("VH_CHILD") != "" {
		return nil
	}
	res.Extra["leaf_sizes"] = fmt.Sprint(cfg.cycle)
	res.Extra["boundary"] = *boundary
	for _, k := range []string{"design_delete_breaks_other_object", "design_stale_read_of_removed_object", "design_empty_object_root_not_listed"} {
		if _, ok := res.Extra[k]; !ok {
			res.Extra[k] = 0
		}
	}
	return res.Write(*out)
}
