package main

import (
	"bytes"
	"context"
	"encoding/json"
	"flag"
	"fmt"
	"io"
	"io/ioutil"
	"os"
	"path/filepath"
	"sort"
	"strings"
	"sync"
	"time"

	"github.com/oneconcern/datamon/pkg/storage"
	"github.com/oneconcern/datamon/pkg/storage/localfs"
	"github.com/spf13/afero"

	"verif/harness/store"
	"verif/harness/vutil"
)

func init() {
	subcmds["objstore"] = objstoreReplay
	subcmds["objstore-excl"] = objstoreExcl
}

type osStep struct {
	Op     string     `json:"op"`
	Key    []string   `json:"key"`
	Val    int        `json:"val"`
	Excl   bool       `json:"excl"`
	Res    string     `json:"res"`
	Found  bool       `json:"found"`
	Prefix []string   `json:"prefix"`
	Delim  bool       `json:"delim"`
	Count  int        `json:"count"`
	Items  [][]string `json:"items"`
	Next   []string   `json:"next"`
	Rest   [][]string `json:"rest"`
}

func joinKey(k []string) string { return strings.Join(k, "") }

func newBackend(kind, dir string, lock bool) (storage.Store, func()) {
	switch kind {
	case "model":
		w := store.NewWorld()
		return store.NewView(w, "s", &store.Ctl{Name: "c"}), func() {}
	default:
		_ = os.MkdirAll(dir, 0700)
		s := localfs.New(afero.NewBasePathFs(afero.NewOsFs(), dir), localfs.WithRetry(false), localfs.WithLock(lock))
		return s, func() { _ = os.RemoveAll(dir) }
	}
}

// valBytes: values of clearly different lengths (an overwrite by a shorter value must not leave a tail)
func valBytes(v int) []byte {
	return []byte(fmt.Sprintf("value-%d%s", v, strings.Repeat("+", (3-v%4)*(3-v%4)*11)))
}

// plainReader hides every optional interface (io.WriterTo, io.Seeker, Len) of the reader it wraps.
type plainReader struct{ r io.Reader }

func (p plainReader) Read(b []byte) (int, error) { return p.r.Read(b) }

// scan performs the paginated loop every datamon listing performs.
func scan(s storage.Store, prefix, delim string, count int, firstOnly bool) ([]string, [][]string, error) {
	var (
		all   []string
		pages [][]string
		token string
	)
	for i := 0; i < 10000; i++ {
		keys, next, err := s.KeysPrefix(context.Background(), token, prefix, delim, count)
		if err != nil {
			return all, pages, err
		}
		all = append(all, keys...)
		pages = append(pages, keys)
		if next == "" || firstOnly {
			return all, pages, nil
		}
		token = next
	}
	return all, pages, fmt.Errorf("listing does not terminate")
}

// classifyList names the way a listing differs from the reference.
func classifyList(exp, got []string, prefix string, delim bool) string {
	expSet := map[string]int{}
	for _, k := range exp {
		expSet[k]++
	}
	gotSet := map[string]int{}
	dup := false
	for _, k := range got {
		gotSet[k]++
		if gotSet[k] > 1 {
			dup = true
		}
	}
	foreign, extra, missing := false, false, false
	for k := range gotSet {
		if expSet[k] == 0 {
			extra = true
			if !strings.HasPrefix(k, prefix) {
				foreign = true
			}
		}
	}
	for k := range expSet {
		if gotSet[k] == 0 {
			missing = true
		}
	}
	d := "nodelim"
	if delim {
		d = "delim"
	}
	switch {
	case foreign:
		return "list/" + d + "/foreign-prefix"
	case dup:
		return "list/" + d + "/duplicate"
	case extra && missing:
		return "list/" + d + "/wrong-items"
	case extra:
		return "list/" + d + "/extra"
	case missing:
		return "list/" + d + "/missing"
	default:
		return "list/" + d + "/order"
	}
}

func objstoreReplay(args []string) error {
	fs := flag.NewFlagSet("objstore", flag.ExitOnError)
	in := fs.String("in", "", "behaviours (NDJSON)")
	out := fs.String("out", "", "result JSON")
	backend := fs.String("backend", "localfs", "localfs|model")
	work := fs.String("work", "", "scratch directory")
	lock := fs.Bool("lock", false, "localfs WithLock")
	_ = fs.Parse(args)
	res := vutil.NewResult("objstore/" + *backend)
	ctx := context.Background()
	run := func(i int, line []byte, r *vutil.BehResult) {
		var steps []osStep
		if err := json.Unmarshal(line, &steps); err != nil {
			panic(err)
		}
		s, cleanup := newBackend(*backend, filepath.Join(*work, fmt.Sprintf("b%d", i)), *lock)
		defer cleanup()
		muts := 0
		if i < 2 {
			r.Sample = json.RawMessage(line)
		}
		for j, st := range steps {
			r.Steps++
			key := joinKey(st.Key)
			replay := json.RawMessage(mustJSON(steps[:j+1]))
			bad := func(sig string, exp, got interface{}, detail string) {
				r.Mismatches = append(r.Mismatches, vutil.Mismatch{Beh: i, Step: j, Op: st.Op, Sig: sig, Expected: exp, Got: got, Detail: detail, Replay: replay})
			}
			vutil.Guard(r, j, st.Op, replay, func() {
				switch st.Op {
				case "put":
					muts++
					var src io.Reader = bytes.NewReader(valBytes(st.Val))
					if (i+j)%2 == 1 {
						src = plainReader{src} // a source that is only an io.Reader
					}
					err := s.Put(ctx, key, src, st.Excl)
					got := "ok"
					if err != nil {
						got = "exists"
						if !st.Excl {
							got = "error"
						}
					}
					if got != st.Res {
						bad("put/result", st.Res, got, fmt.Sprint(err))
					}
				case "del":
					muts++
					err := s.Delete(ctx, key)
					if err != nil && st.Found {
						bad("del/error-on-present", nil, fmt.Sprint(err), "")
					}
				case "get":
					rc, err := s.Get(ctx, key)
					if err != nil {
						if st.Found {
							bad("get/missing", fmt.Sprintf("value-%d", st.Val), fmt.Sprint(err), "")
						}
						return
					}
					b, rerr := ioutil.ReadAll(rc)
					rc.Close()
					if !st.Found {
						if rerr == nil {
							bad("get/phantom", "notexist", string(b), "")
						}
						return
					}
					if rerr != nil || !bytes.Equal(b, valBytes(st.Val)) {
						bad("get/wrong-bytes", fmt.Sprintf("value-%d", st.Val), string(b), fmt.Sprint(rerr))
					}
				case "has":
					ok, err := s.Has(ctx, key)
					if err != nil || ok != st.Found {
						bad("has/wrong", st.Found, ok, fmt.Sprint(err))
					}
				case "deldir":
					// no object has that name: Has says so even when the name is a prefix ("directory") of stored keys
					if ok, err := s.Has(ctx, key); err != nil || ok {
						bad("has/prefix-is-not-an-object", false, ok, fmt.Sprintf("Has(%q): %v", key, err))
					}
					// whatever the call answers, nothing may be lost
					_ = s.Delete(ctx, key)
					exp := make([]string, 0, len(st.Items))
					for _, it := range st.Items {
						exp = append(exp, joinKey(it))
					}
					got, _, err := scan(s, "", "", 1000, false)
					if err != nil {
						bad("list/error", exp, fmt.Sprint(err), "after deleting the prefix "+key)
						return
					}
					if got == nil {
						got = []string{}
					}
					if !vutil.EqStrings(exp, got) {
						bad("deldir/"+strings.TrimPrefix(classifyList(exp, got, "", false), "list/nodelim/"), exp, got,
							fmt.Sprintf("Delete(%q): no object has that name, it is only a prefix of stored keys", key))
					}
				case "scandel":
					muts++
					prefix := joinKey(st.Prefix)
					delim := ""
					if st.Delim {
						delim = "/"
					}
					join := func(items [][]string) []string {
						out := make([]string, 0, len(items))
						for _, it := range items {
							out = append(out, joinKey(it))
						}
						return out
					}
					page, next, err := s.KeysPrefix(ctx, "", prefix, delim, st.Count)
					if err != nil {
						bad("list/error", join(st.Items), fmt.Sprint(err), "first page")
						return
					}
					if page == nil {
						page = []string{}
					}
					if !vutil.EqStrings(join(st.Items), page) || next != joinKey(st.Next) {
						bad("scandel/first-page", append(join(st.Items), "next="+joinKey(st.Next)), append(page, "next="+next), fmt.Sprintf("prefix=%q delim=%q count=%d", prefix, delim, st.Count))
						return
					}
					if err := s.Delete(ctx, key); err != nil {
						bad("del/error-on-present", nil, fmt.Sprint(err), "")
						return
					}
					var rest []string
					tok := next
					for n := 0; tok != "" && n < 10000; n++ {
						pg, nx, err := s.KeysPrefix(ctx, tok, prefix, delim, st.Count)
						if err != nil {
							bad("list/error", join(st.Rest), fmt.Sprint(err), "after the deletion")
							return
						}
						rest = append(rest, pg...)
						tok = nx
					}
					if rest == nil {
						rest = []string{}
					}
					if exp := join(st.Rest); !vutil.EqStrings(exp, rest) {
						bad("scandel/rest-"+strings.TrimPrefix(classifyList(exp, rest, prefix, st.Delim), "list/"), exp, rest,
							fmt.Sprintf("prefix=%q delim=%q count=%d: %q deleted after the first page (token %q)", prefix, delim, st.Count, key, next))
					}
				case "scan", "page1":
					prefix := joinKey(st.Prefix)
					delim := ""
					if st.Delim {
						delim = "/"
					}
					exp := make([]string, 0, len(st.Items))
					for _, it := range st.Items {
						exp = append(exp, joinKey(it))
					}
					got, pages, err := scan(s, prefix, delim, st.Count, st.Op == "page1")
					if err != nil {
						bad("list/error", exp, fmt.Sprint(err), "")
						return
					}
					if got == nil {
						got = []string{}
					}
					if !vutil.EqStrings(exp, got) {
						bad(classifyList(exp, got, prefix, st.Delim), exp, got, fmt.Sprintf("prefix=%q delim=%q count=%d", prefix, delim, st.Count))
						return
					}
					for pi, pg := range pages {
						if len(pg) > st.Count || (pi < len(pages)-1 && len(pg) == 0) {
							bad("list/page-size", st.Count, len(pg), fmt.Sprintf("page %d", pi))
						}
					}
				}
			})
		}
		r.Nontrivial = muts >= 2
	}
	if err := vutil.Isolated("objstore", *in, res, run, 30*time.Second); err != nil {
		return err
	}
	if os.Getenv("VH_CHILD") != "" {
		return nil
	}
	return res.Write(*out)
}

func mustJSON(v interface{}) []byte {
	b, err := json.Marshal(v)
	if err != nil {
		panic(err)
	}
	return b
}

// objstoreExcl races exclusive writers on one key and emits, per round, the
// candidate linearization (successful writers first) as a trace that
// ObjectStoreTrace.tla validates against the Put action.
func objstoreExcl(args []string) error {
	fs := flag.NewFlagSet("objstore-excl", flag.ExitOnError)
	out := fs.String("out", "", "trace NDJSON")
	resOut := fs.String("res", "", "result JSON")
	backend := fs.String("backend", "localfs", "localfs|model")
	work := fs.String("work", "", "scratch directory")
	rounds := fs.Int("rounds", 50, "rounds")
	writers := fs.Int("writers", 4, "max concurrent writers")
	lock := fs.Bool("lock", false, "localfs WithLock")
	_ = fs.Parse(args)
	ctx := context.Background()
	s, cleanup := newBackend(*backend, filepath.Join(*work, "excl"), *lock)
	defer cleanup()
	var trace []interface{}
	res := vutil.NewResult("objstore-excl/" + *backend)
	for r := 0; r < *rounds; r++ {
		n := 2 + r%(*writers-1)
		key := fmt.Sprintf("a/k%d", r%7)
		// every 7 rounds the key is recycled through a delete
		_ = s.Delete(ctx, key)
		trace = append(trace, map[string]interface{}{"op": "del", "key": key})
		type outc struct {
			w  int
			ok bool
		}
		results := make([]outc, n)
		var wg sync.WaitGroup
		start := make(chan struct{})
		for w := 0; w < n; w++ {
			wg.Add(1)
			go func(w int) {
				defer wg.Done()
				<-start
				err := s.Put(ctx, key, bytes.NewReader([]byte(fmt.Sprintf("writer-%d-round-%d", w, r))), storage.NoOverWrite)
				results[w] = outc{w, err == nil}
			}(w)
		}
		close(start)
		wg.Wait()
		sort.SliceStable(results, func(i, j int) bool { return results[i].ok && !results[j].ok })
		winners := 0
		for _, o := range results {
			rs := "exists"
			if o.ok {
				rs = "ok"
				winners++
			}
			trace = append(trace, map[string]interface{}{"op": "put", "key": key, "val": o.w + 1, "excl": true, "res": rs})
		}
		rc, err := s.Get(ctx, key)
		got := -1
		if err == nil {
			b, _ := ioutil.ReadAll(rc)
			rc.Close()
			var w, rr int
			if _, e := fmt.Sscanf(string(b), "writer-%d-round-%d", &w, &rr); e == nil && rr == r {
				got = w + 1
			}
		}
		trace = append(trace, map[string]interface{}{"op": "get", "key": key, "found": err == nil, "val": got})
		res.Behaviours++
		res.Steps += n + 2
		res.Nontrivial++
		if winners != 1 {
			res.Add(vutil.Mismatch{Beh: r, Op: "exclput", Sig: fmt.Sprintf("excl/winners=%d", winners), Expected: 1, Got: winners})
		}
	}
	if err := vutil.WriteNDJSON(*out, trace); err != nil {
		return err
	}
	res.Sample(trace[:6], 1)
	return res.Write(*resOut)
}
