package main

// C21: sidecar parameters survive environment-variable encoding.
//
// "params" takes parameter-set cases chosen by TLC (Gen_Params.tla: every field
// is a value CLASS), instantiates the classes with concrete strings (seeded),
// builds the parameter structure through the public builder API or through the
// YAML route of cmd/sidecar_param, calls the REAL encoder
// (param.FUSEParamsToEnvVars / param.PGParamsToEnvVars) and logs
// {input parameters, output variables, error flag} as one event per call.
// The log is judged by spec/ParamsTrace.tla (TLC); nothing is decided here
// except panics and an input structure that does not hold the intended values.

import (
	"bufio"
	"encoding/json"
	"flag"
	"fmt"
	"math/rand"
	"os"
	"sort"
	"strings"
	"time"
	"unicode/utf8"

	"github.com/oneconcern/datamon/pkg/sidecar/param"
	"gopkg.in/yaml.v2"

	"verif/harness/vutil"
)

func init() {
	subcmds["params"] = paramsRun
}

type paramsCase struct {
	Lit   bool                     `json:"lit"` // the fields hold concrete values instead of class names (fixed corpus)
	Kind  string                   `json:"kind"`
	Route string                   `json:"route"`
	G     map[string]interface{}   `json:"g"`
	Units []map[string]interface{} `json:"units"`
}

// ---------------------------------------------------------------------------
// refinement map: value class -> concrete string

func span(lo, hi rune) string {
	var b strings.Builder
	for r := lo; r <= hi; r++ {
		b.WriteRune(r)
	}
	return b.String()
}

func shuffled(rng *rand.Rand, s string) string {
	r := []rune(s)
	rng.Shuffle(len(r), func(i, j int) { r[i], r[j] = r[j], r[i] })
	return string(r)
}

func pick(rng *rand.Rand, pool []string) string { return pool[rng.Intn(len(pool))] }

const plainAlphabet = "abcdefghijklmnopqrstuvwxyz/-_"

func plainString(rng *rand.Rand, min, max int) string {
	n := min + rng.Intn(max-min+1)
	var b strings.Builder
	for i := 0; i < n; i++ {
		b.WriteByte(plainAlphabet[rng.Intn(len(plainAlphabet))])
	}
	return b.String()
}

var (
	poolDigits  = []string{"repo-01", "5432", "0", "v2/2024-01-31", "bundle_1a2b3c", "1gjUPM0sWVNsXoBdhbXgxVdpLDb"}
	poolSemi    = []string{"a;b", "x:y", ";:", "k:v;k2:v2", ";", ":", "gs://bucket/path;rw", "::;;"}
	poolDotty   = []string{"v1.2.3", "a.b", ".", "..", "/tmp/bundleid.txt", "./rel/path.d"}
	poolOpt     = []string{"S", "V", "sp", "dif", "true", "false", "Sc", "c", "ab", "VS", "dm", "p", "slsr", "Strue"}
	poolPunct   = []string{"result of container 'demo'", "$HOME/*", "a b", "\"quoted\"", "x&y|z", "100%", "(a,b)+!#", "tab-less text, with commas"}
	poolUnicode = []string{"données", "日本語/パス", "\U0001F642", "é", "שלום", "�", " ÿĀ", " x",
		"\U0001F468‍\U0001F469", "·°§", "\u0080\u0081", "\u007f\u0080", "：；", ";"}
)

// classValue returns a concrete value of a class. Every class is a superset
// description, the PRF only varies what the class leaves open.
func classValue(rng *rand.Rand, class string) string {
	fill := func(core string) string {
		// the covering characters in random order, embedded in plain text
		return plainString(rng, 0, 3) + shuffled(rng, core) + plainString(rng, 0, 3)
	}
	switch class {
	case "empty":
		return ""
	case "plain":
		return plainString(rng, 1, 12)
	case "digits":
		return pick(rng, poolDigits)
	case "semi":
		return pick(rng, poolSemi)
	case "dotty":
		return pick(rng, poolDotty)
	case "optletters":
		return pick(rng, poolOpt)
	case "punct":
		return pick(rng, poolPunct)
	case "unicode":
		return pick(rng, poolUnicode)
	case "lo": // 0-9 : ; < = > ? @
		return fill(span('0', '@'))
	case "AR":
		return fill(span('A', 'R'))
	case "SZ":
		return fill(span('S', 'Z'))
	case "sym2": // [ \ ] ^ _ `
		return fill(span('[', '`'))
	case "az":
		return fill(span('a', 'z'))
	case "sym3": // { | } ~
		return fill(span('{', '~'))
	case "lo_AR":
		return fill(span('0', 'R'))
	case "lo_AU":
		return fill(span('0', 'U'))
	case "lo_AZ":
		return fill(span('0', 'Z'))
	case "lo_bt":
		return fill(span('0', '`'))
	case "lo_tilde":
		return fill(span('0', '~'))
	case "lo_rand": // every candidate separator up to a random one
		return fill(span('0', rune('0'+rng.Intn('~'-'0'+1))))
	case "most": // most printable ASCII characters: all but a few of the candidates
		all := []rune(span(' ', '~'))
		drop := map[rune]bool{}
		for k := 2 + rng.Intn(3); k > 0; k-- {
			drop[rune('0'+rng.Intn('~'-'0'+1))] = true
		}
		var b strings.Builder
		for _, r := range all {
			if !drop[r] {
				b.WriteRune(r)
			}
		}
		return shuffled(rng, b.String())
	}
	panic("unknown value class " + class)
}

func portValue(rng *rand.Rand, class string) int {
	switch class {
	case "std":
		return 5432
	case "zero":
		return 0
	case "rand":
		return 1 + rng.Intn(65535)
	case "big":
		return 1234567890
	}
	panic("unknown port class " + class)
}

// ---------------------------------------------------------------------------
// concrete parameter sets (mirrors with the YAML tags of the real structures)

type fuseUnit struct {
	Name         string `yaml:"name"`
	SrcPath      string `yaml:"srcPath"`
	SrcRepo      string `yaml:"srcRepo"`
	SrcLabel     string `yaml:"srcLabel"`
	SrcBundle    string `yaml:"srcBundle"`
	DestPath     string `yaml:"destPath"`
	DestRepo     string `yaml:"destRepo"`
	DestMessage  string `yaml:"destMessage"`
	DestLabel    string `yaml:"destLabel"`
	DestBundleID string `yaml:"destBundleID"`
}

type fuseGlobals struct {
	SleepInsteadOfExit bool   `yaml:"sleepInsteadOfExit"`
	CoordPoint         string `yaml:"coordPoint"`
	ConfigBucketName   string `yaml:"configBucketName"`
	ContextName        string `yaml:"contextName"`
}

type fuseSet struct {
	Globals fuseGlobals `yaml:"globalOpts"`
	Bundles []fuseUnit  `yaml:"bundles"`
}

type pgUnit struct {
	Name         string `yaml:"name"`
	Port         int    `yaml:"pgPort"`
	DestRepo     string `yaml:"destRepo"`
	DestMessage  string `yaml:"destMessage"`
	DestLabel    string `yaml:"destLabel"`
	DestBundleID string `yaml:"destBundleID"`
	SrcRepo      string `yaml:"srcRepo"`
	SrcLabel     string `yaml:"srcLabel"`
	SrcBundle    string `yaml:"srcBundle"`
}

type pgContributor struct {
	Name  string `yaml:"name"`
	Email string `yaml:"email"`
}

type pgGlobals struct {
	SleepInsteadOfExit      bool          `yaml:"sleepInsteadOfExit"`
	IgnorePGVersionMismatch bool          `yaml:"ignorePGVersionMismatch"`
	CoordPoint              string        `yaml:"coordPoint"`
	Contributor             pgContributor `yaml:"contributor"`
}

type pgSet struct {
	Globals   pgGlobals `yaml:"globalOpts"`
	Databases []pgUnit  `yaml:"databases"`
}

func cls(m map[string]interface{}, k string) string {
	s, ok := m[k].(string)
	if !ok {
		panic(fmt.Sprintf("case field %s is not a class name: %v", k, m[k]))
	}
	return s
}

func flg(m map[string]interface{}, k string) bool {
	if m[k] == nil {
		return false
	}
	b, ok := m[k].(bool)
	if !ok {
		panic(fmt.Sprintf("case field %s is not a boolean: %v", k, m[k]))
	}
	return b
}

// unitName instantiates the Name class. "plain" names are made distinct,
// "dup" names are the same for all units of the set.
func unitName(rng *rand.Rand, class string, idx int) string {
	switch class {
	case "plain":
		return fmt.Sprintf("%s%c", plainString(rng, 1, 6), 'a'+idx)
	case "dup":
		return "dup"
	}
	return classValue(rng, class)
}

// valuer returns the functions that give a field its concrete value: the
// class instantiation, or the literal value of a case of the fixed corpus.
func valuer(rng *rand.Rand, c *paramsCase) (val func(m map[string]interface{}, k string) string,
	name func(m map[string]interface{}, idx int) string, port func(m map[string]interface{}) int) {
	if c.Lit {
		return func(m map[string]interface{}, k string) string {
				if m[k] == nil {
					return ""
				}
				return cls(m, k)
			}, func(m map[string]interface{}, idx int) string { return cls(m, "Name") },
			func(m map[string]interface{}) int {
				f, ok := m["Port"].(float64)
				if !ok {
					panic(fmt.Sprintf("literal port is not a number: %v", m["Port"]))
				}
				return int(f)
			}
	}
	return func(m map[string]interface{}, k string) string { return classValue(rng, cls(m, k)) },
		func(m map[string]interface{}, idx int) string { return unitName(rng, cls(m, "Name"), idx) },
		func(m map[string]interface{}) int { return portValue(rng, cls(m, "Port")) }
}

func concretizeFuse(rng *rand.Rand, c *paramsCase) fuseSet {
	var s fuseSet
	val, name, _ := valuer(rng, c)
	s.Globals.SleepInsteadOfExit = flg(c.G, "SleepInsteadOfExit")
	s.Globals.CoordPoint = val(c.G, "CoordPoint")
	s.Globals.ConfigBucketName = val(c.G, "ConfigBucketName")
	s.Globals.ContextName = val(c.G, "ContextName")
	for i, u := range c.Units {
		s.Bundles = append(s.Bundles, fuseUnit{
			Name:         name(u, i),
			SrcPath:      val(u, "SrcPath"),
			SrcRepo:      val(u, "SrcRepo"),
			SrcLabel:     val(u, "SrcLabel"),
			SrcBundle:    val(u, "SrcBundle"),
			DestPath:     val(u, "DestPath"),
			DestRepo:     val(u, "DestRepo"),
			DestMessage:  val(u, "DestMessage"),
			DestLabel:    val(u, "DestLabel"),
			DestBundleID: val(u, "DestBundleID"),
		})
	}
	return s
}

func concretizePG(rng *rand.Rand, c *paramsCase) pgSet {
	var s pgSet
	val, name, port := valuer(rng, c)
	s.Globals.SleepInsteadOfExit = flg(c.G, "SleepInsteadOfExit")
	s.Globals.IgnorePGVersionMismatch = flg(c.G, "IgnorePGVersionMismatch")
	s.Globals.CoordPoint = val(c.G, "CoordPoint")
	s.Globals.Contributor.Name = val(c.G, "ContributorName")
	s.Globals.Contributor.Email = val(c.G, "ContributorEmail")
	for i, u := range c.Units {
		s.Databases = append(s.Databases, pgUnit{
			Name:         name(u, i),
			Port:         port(u),
			DestRepo:     val(u, "DestRepo"),
			DestMessage:  val(u, "DestMessage"),
			DestLabel:    val(u, "DestLabel"),
			DestBundleID: val(u, "DestBundleID"),
			SrcRepo:      val(u, "SrcRepo"),
			SrcLabel:     val(u, "SrcLabel"),
			SrcBundle:    val(u, "SrcBundle"),
		})
	}
	return s
}

// ---------------------------------------------------------------------------
// building the REAL parameter structures

// buildFuse returns the real structure; apiErr is an error of the builder API
// (a refusal, which the property allows); infra is a problem of this harness.
func buildFuse(s fuseSet, route string) (fp param.FUSEParams, apiErr error, infra error) {
	if route == "yaml" {
		// exactly what cmd/sidecar_param does with its standard input
		b, err := yaml.Marshal(s)
		if err != nil {
			return fp, nil, err
		}
		if err := yaml.Unmarshal(b, &fp); err != nil {
			return fp, nil, err
		}
		return fp, nil, nil
	}
	fp, err := param.NewFUSEParams(
		param.FUSECoordPoint(s.Globals.CoordPoint),
		param.FUSEConfigBucketName(s.Globals.ConfigBucketName),
		param.FUSEContextName(s.Globals.ContextName),
	)
	if err != nil {
		return fp, err, nil
	}
	fp.Globals.SleepInsteadOfExit = s.Globals.SleepInsteadOfExit // no builder option exists
	for _, u := range s.Bundles {
		opts := []param.FUSEParamsBDOption{param.BDName(u.Name)}
		if u.SrcBundle != "" {
			opts = append(opts, param.BDSrcByBundleID(u.SrcPath, u.SrcRepo, u.SrcBundle))
		}
		if u.SrcLabel != "" || (u.SrcBundle == "" && (u.SrcPath != "" || u.SrcRepo != "")) {
			opts = append(opts, param.BDSrcByLabel(u.SrcPath, u.SrcRepo, u.SrcLabel))
		}
		if u.DestRepo != "" || u.DestMessage != "" || u.DestPath != "" {
			opts = append(opts, param.BDDest(u.DestRepo, u.DestMessage, u.DestPath))
		}
		if u.DestLabel != "" {
			opts = append(opts, param.BDDestLabel(u.DestLabel))
		}
		if u.DestBundleID != "" {
			opts = append(opts, param.BDDestBundleIDFile(u.DestBundleID))
		}
		if err := fp.AddBundle(opts...); err != nil {
			return fp, err, nil
		}
	}
	return fp, nil, nil
}

func buildPG(s pgSet, route string) (pp param.PGParams, apiErr error, infra error) {
	if route == "yaml" {
		b, err := yaml.Marshal(s)
		if err != nil {
			return pp, nil, err
		}
		if err := yaml.Unmarshal(b, &pp); err != nil {
			return pp, nil, err
		}
		return pp, nil, nil
	}
	opts := []param.PGParamsOption{param.PGCoordPoint(s.Globals.CoordPoint)}
	if s.Globals.Contributor.Name != "" || s.Globals.Contributor.Email != "" {
		opts = append(opts, param.PGContributor(s.Globals.Contributor.Name, s.Globals.Contributor.Email))
	}
	pp, err := param.NewPGParams(opts...)
	if err != nil {
		return pp, err, nil
	}
	pp.Globals.SleepInsteadOfExit = s.Globals.SleepInsteadOfExit
	pp.Globals.IgnorePGVersionMismatch = s.Globals.IgnorePGVersionMismatch
	for _, u := range s.Databases {
		dbo := []param.PGParamsDBOption{param.DBNameAndPort(u.Name, u.Port), param.DBDest(u.DestRepo, u.DestMessage)}
		if u.DestLabel != "" {
			dbo = append(dbo, param.DBDestLabel(u.DestLabel))
		}
		if u.SrcBundle != "" {
			dbo = append(dbo, param.DBSrcByBundle(u.SrcRepo, u.SrcBundle))
		}
		if u.SrcLabel != "" || (u.SrcBundle == "" && u.SrcRepo != "") {
			dbo = append(dbo, param.DBSrcByLabel(u.SrcRepo, u.SrcLabel))
		}
		if u.DestBundleID != "" {
			dbo = append(dbo, param.DBDestBundleIDFile(u.DestBundleID))
		}
		if err := pp.AddDatabase(dbo...); err != nil {
			return pp, err, nil
		}
	}
	return pp, nil, nil
}

// fuseHolds / pgHolds: the real structure holds exactly the intended values
// ("the parameters that were given" are then the ones logged).
func fuseHolds(fp param.FUSEParams, s fuseSet) bool {
	g := fp.Globals
	if g.SleepInsteadOfExit != s.Globals.SleepInsteadOfExit || g.CoordPoint != s.Globals.CoordPoint ||
		g.ConfigBucketName != s.Globals.ConfigBucketName || g.ContextName != s.Globals.ContextName ||
		len(fp.Bundles) != len(s.Bundles) {
		return false
	}
	for i, b := range fp.Bundles {
		u := s.Bundles[i]
		if b.Name != u.Name || b.SrcPath != u.SrcPath || b.SrcRepo != u.SrcRepo || b.SrcLabel != u.SrcLabel ||
			b.SrcBundle != u.SrcBundle || b.DestPath != u.DestPath || b.DestRepo != u.DestRepo ||
			b.DestMessage != u.DestMessage || b.DestLabel != u.DestLabel || b.DestBundleID != u.DestBundleID {
			return false
		}
	}
	return true
}

func pgHolds(pp param.PGParams, s pgSet) bool {
	g := pp.Globals
	if g.SleepInsteadOfExit != s.Globals.SleepInsteadOfExit || g.IgnorePGVersionMismatch != s.Globals.IgnorePGVersionMismatch ||
		g.CoordPoint != s.Globals.CoordPoint || g.Contributor.Name != s.Globals.Contributor.Name ||
		g.Contributor.Email != s.Globals.Contributor.Email || len(pp.Databases) != len(s.Databases) {
		return false
	}
	for i, d := range pp.Databases {
		u := s.Databases[i]
		if d.Name != u.Name || d.Port != u.Port || d.DestRepo != u.DestRepo || d.DestMessage != u.DestMessage ||
			d.DestLabel != u.DestLabel || d.DestBundleID != u.DestBundleID || d.SrcRepo != u.SrcRepo ||
			d.SrcLabel != u.SrcLabel || d.SrcBundle != u.SrcBundle {
			return false
		}
	}
	return true
}

// ---------------------------------------------------------------------------
// the event log

// chars is a string as the specification sees it: one element per code point.
func chars(s string) []string {
	out := make([]string, 0, len(s))
	for _, r := range s {
		out = append(out, string(r))
	}
	return out
}

func codePoints(s string) []int {
	out := make([]int, 0, len(s))
	for _, r := range s {
		out = append(out, int(r))
	}
	return out
}

// asciiJSON marshals v with every non-ASCII code point written as a \uXXXX
// escape (TLC reads the log with the platform charset).
func asciiJSON(v interface{}) ([]byte, error) {
	b, err := json.Marshal(v)
	if err != nil {
		return nil, err
	}
	out := make([]byte, 0, len(b)+16)
	for len(b) > 0 {
		r, n := utf8.DecodeRune(b)
		switch {
		case r < 0x80:
			out = append(out, b[0])
		case r > 0xFFFF:
			r -= 0x10000
			out = append(out, fmt.Sprintf("\\u%04x\\u%04x", 0xD800+(r>>10), 0xDC00+(r&0x3FF))...)
		default:
			out = append(out, fmt.Sprintf("\\u%04x", r)...)
		}
		b = b[n:]
	}
	return out, nil
}

type outVar struct {
	Name []string `json:"name"`
	Val  []string `json:"val"`
	CP   []int    `json:"cp"` // the value as code points (for the reader of a replay; the specification uses val)
}

type paramsEvent struct {
	Op    string                   `json:"op"`
	ID    string                   `json:"id"`
	Kind  string                   `json:"kind"`
	Route string                   `json:"route"`
	G     map[string]interface{}   `json:"g"`
	Units []map[string]interface{} `json:"units"`
	Err   bool                     `json:"err"`
	Stage string                   `json:"stage"` // "builder" | "encode" | "": where the error came from
	ErrS  string                   `json:"errs"`
	Out   []outVar                 `json:"out"`
}

func fuseEventInput(s fuseSet) (map[string]interface{}, []map[string]interface{}) {
	g := map[string]interface{}{
		"SleepInsteadOfExit": s.Globals.SleepInsteadOfExit,
		"CoordPoint":         chars(s.Globals.CoordPoint),
		"ConfigBucketName":   chars(s.Globals.ConfigBucketName),
		"ContextName":        chars(s.Globals.ContextName),
	}
	units := []map[string]interface{}{}
	for _, u := range s.Bundles {
		units = append(units, map[string]interface{}{
			"Name": chars(u.Name), "SrcPath": chars(u.SrcPath), "SrcRepo": chars(u.SrcRepo), "SrcLabel": chars(u.SrcLabel),
			"SrcBundle": chars(u.SrcBundle), "DestPath": chars(u.DestPath), "DestRepo": chars(u.DestRepo),
			"DestMessage": chars(u.DestMessage), "DestLabel": chars(u.DestLabel), "DestBundleID": chars(u.DestBundleID),
		})
	}
	return g, units
}

func pgEventInput(s pgSet) (map[string]interface{}, []map[string]interface{}) {
	g := map[string]interface{}{
		"SleepInsteadOfExit":      s.Globals.SleepInsteadOfExit,
		"IgnorePGVersionMismatch": s.Globals.IgnorePGVersionMismatch,
		"CoordPoint":              chars(s.Globals.CoordPoint),
		"ContributorName":         chars(s.Globals.Contributor.Name),
		"ContributorEmail":        chars(s.Globals.Contributor.Email),
	}
	units := []map[string]interface{}{}
	for _, u := range s.Databases {
		units = append(units, map[string]interface{}{
			"Name": chars(u.Name), "Port": u.Port, "DestRepo": chars(u.DestRepo), "DestMessage": chars(u.DestMessage),
			"DestLabel": chars(u.DestLabel), "DestBundleID": chars(u.DestBundleID), "SrcRepo": chars(u.SrcRepo),
			"SrcLabel": chars(u.SrcLabel), "SrcBundle": chars(u.SrcBundle),
		})
	}
	return g, units
}

func outVars(m map[string]string) []outVar {
	names := make([]string, 0, len(m))
	for k := range m {
		names = append(names, k)
	}
	sort.Strings(names)
	out := []outVar{}
	for _, k := range names {
		out = append(out, outVar{Name: chars(k), Val: chars(m[k]), CP: codePoints(m[k])})
	}
	return out
}

// ---------------------------------------------------------------------------

func paramsRun(args []string) error {
	fs := flag.NewFlagSet("params", flag.ExitOnError)
	in := fs.String("in", "", "cases (NDJSON, one list of cases per line)")
	out := fs.String("out", "", "result JSON")
	trace := fs.String("trace", "", "event log to write (NDJSON), judged by ParamsTrace.tla")
	seed := fs.Int64("seed", 1, "seed of the class instantiation")
	tag := fs.String("tag", "", "prefix of event ids")
	_ = fs.Parse(args)
	res := vutil.NewResult("params")

	var tw *bufio.Writer
	var tf *os.File
	openTrace := func() error {
		if tw != nil {
			return nil
		}
		f, err := os.OpenFile(*trace, os.O_WRONLY|os.O_CREATE|os.O_APPEND, 0644)
		if err != nil {
			return err
		}
		tf, tw = f, bufio.NewWriter(f)
		return nil
	}

	run := func(i int, line []byte, r *vutil.BehResult) {
		var cases []paramsCase
		if err := json.Unmarshal(line, &cases); err != nil {
			panic(fmt.Sprintf("bad case line %d: %v", i, err))
		}
		if err := openTrace(); err != nil {
			panic(err)
		}
		extra := map[string]int{}
		var sample interface{}
		for j := range cases {
			c := &cases[j]
			rng := rand.New(rand.NewSource(*seed*1000003 + int64(i)*131 + int64(j)))
			ev := paramsEvent{Op: "encode", ID: fmt.Sprintf("%s%d.%d", *tag, i, j), Kind: c.Kind, Route: c.Route, Out: []outVar{}}
			var (
				envs     map[string]string
				apiErr   error
				infraErr error
				encErr   error
				holds    = true
			)
			// instantiate the classes; a failure here is a problem of the harness / the case
			// file, never a verdict: counted, reported as an infrastructure error by the check
			var (
				concrete interface{}
				fset     fuseSet
				pset     pgSet
			)
			if !func() (ok bool) {
				defer func() {
					if e := recover(); e != nil {
						fmt.Fprintf(os.Stderr, "params: case %d.%d cannot be instantiated: %v\n", i, j, e)
						ok = false
					}
				}()
				switch c.Kind {
				case "fuse":
					fset = concretizeFuse(rng, c)
					concrete = fset
					ev.G, ev.Units = fuseEventInput(fset)
				case "pg":
					pset = concretizePG(rng, c)
					concrete = pset
					ev.G, ev.Units = pgEventInput(pset)
				default:
					panic("unknown kind " + c.Kind)
				}
				return true
			}() {
				extra["harness_error"]++
				continue
			}
			panicked := vutil.Guard(r, j, "encode/"+c.Kind, c, func() {
				switch c.Kind {
				case "fuse":
					var fp param.FUSEParams
					fp, apiErr, infraErr = buildFuse(fset, c.Route)
					if apiErr != nil || infraErr != nil {
						return
					}
					if holds = fuseHolds(fp, fset); !holds {
						return
					}
					envs, encErr = param.FUSEParamsToEnvVars(fp)
				case "pg":
					var pp param.PGParams
					pp, apiErr, infraErr = buildPG(pset, c.Route)
					if apiErr != nil || infraErr != nil {
						return
					}
					if holds = pgHolds(pp, pset); !holds {
						return
					}
					envs, encErr = param.PGParamsToEnvVars(pp)
				}
			})
			r.Steps++
			if panicked {
				// the mismatch carries the class-level case; add the concrete input
				r.Mismatches[len(r.Mismatches)-1].Got = concrete
				continue
			}
			switch {
			case infraErr != nil:
				// the YAML library refused our own rendering of the input: not about datamon
				extra["skipped_yaml_roundtrip"]++
				continue
			case !holds && c.Route == "yaml":
				extra["skipped_yaml_roundtrip"]++
				continue
			case !holds:
				r.Mismatches = append(r.Mismatches, vutil.Mismatch{Beh: i, Step: j, Op: "build/" + c.Kind,
					Sig: "params/builder-altered-input", Detail: "the structure built by the builder API does not hold the values given",
					Expected: concrete, Replay: c})
				continue
			case apiErr != nil:
				ev.Err, ev.Stage, ev.ErrS = true, "builder", apiErr.Error()
				extra["refused_by_builder"]++
			case encErr != nil:
				ev.Err, ev.Stage, ev.ErrS = true, "encode", encErr.Error()
				ev.Out = outVars(envs)
				extra["refused_by_encoder"]++
			default:
				ev.Out = outVars(envs)
				extra["encoded"]++
				r.Nontrivial = true
			}
			b, err := asciiJSON(ev)
			if err != nil {
				panic(err)
			}
			_, _ = tw.Write(b)
			_ = tw.WriteByte('\n')
			if sample == nil && !ev.Err {
				sample = map[string]interface{}{"case": c, "input": concrete, "env": envs}
			}
		}
		if err := tw.Flush(); err != nil {
			panic(err)
		}
		r.Sample = sample
		r.Extra = extra
	}
	if err := vutil.Isolated("params", *in, res, run, 60*time.Second); err != nil {
		return err
	}
	if tf != nil {
		_ = tf.Close()
	}
	return res.Write(*out)
}
