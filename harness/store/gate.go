package store

import (
	"sync"
	"time"
)

// Gate is a cooperative scheduler over store calls: every call of a gated
// client blocks in enter() until the driver releases it with Step. What the
// scheduler decides is only the order in which calls are linearized; whatever
// order actually happened is what is recorded and validated.
type Gate struct {
	mu      sync.Mutex
	cond    *sync.Cond
	open    bool
	pending map[string][]*pendingCall
	ended   map[string]bool
	running map[string]int // calls released and not yet completed
}

// CallInfo describes a pending store call.
type CallInfo struct {
	Client, Store, Op, Key string
}

type pendingCall struct {
	info    CallInfo
	release chan struct{}
}

// NewGate creates a closed gate.
func NewGate() *Gate {
	g := &Gate{pending: map[string][]*pendingCall{}, ended: map[string]bool{}, running: map[string]int{}}
	g.cond = sync.NewCond(&g.mu)
	return g
}

func (g *Gate) enter(client, store, op, key string) {
	g.mu.Lock()
	if g.open {
		g.running[client]++
		g.mu.Unlock()
		return
	}
	p := &pendingCall{info: CallInfo{client, store, op, key}, release: make(chan struct{})}
	g.pending[client] = append(g.pending[client], p)
	g.cond.Broadcast()
	g.mu.Unlock()
	<-p.release
}

func (g *Gate) leave(client string) {
	g.mu.Lock()
	g.running[client]--
	g.cond.Broadcast()
	g.mu.Unlock()
}

// End tells the gate that the client's operation has returned.
func (g *Gate) End(client string) {
	g.mu.Lock()
	g.ended[client] = true
	g.cond.Broadcast()
	g.mu.Unlock()
}

// Restart clears the ended flag (a client starting a new operation).
func (g *Gate) Restart(client string) {
	g.mu.Lock()
	g.ended[client] = false
	g.mu.Unlock()
}

// Open releases everything, now and in the future.
func (g *Gate) Open() {
	g.mu.Lock()
	g.open = true
	for c, ps := range g.pending {
		for _, p := range ps {
			g.running[c]++
			close(p.release)
		}
		g.pending[c] = nil
	}
	g.cond.Broadcast()
	g.mu.Unlock()
}

// wait blocks until the client has a pending call (and no running call), or
// has ended. Returns false on timeout (driver failure, never a verdict).
func (g *Gate) wait(client string, d time.Duration) bool {
	deadline := time.Now().Add(d)
	timer := time.AfterFunc(d, func() { g.mu.Lock(); g.cond.Broadcast(); g.mu.Unlock() })
	defer timer.Stop()
	for {
		if g.running[client] == 0 && (len(g.pending[client]) > 0 || g.ended[client]) {
			return true
		}
		if time.Now().After(deadline) {
			return false
		}
		g.cond.Wait()
	}
}

// Peek waits for the client's next pending call and returns it unreleased.
func (g *Gate) Peek(client string, d time.Duration) (info CallInfo, ended bool, ok bool) {
	g.mu.Lock()
	defer g.mu.Unlock()
	if !g.wait(client, d) {
		return CallInfo{}, false, false
	}
	if len(g.pending[client]) == 0 {
		return CallInfo{}, true, true
	}
	return g.pending[client][0].info, false, true
}

// Step releases the client's oldest pending call and waits for it to complete.
func (g *Gate) Step(client string, d time.Duration) (info CallInfo, ended bool, ok bool) {
	g.mu.Lock()
	defer g.mu.Unlock()
	if !g.wait(client, d) {
		return CallInfo{}, false, false
	}
	if len(g.pending[client]) == 0 {
		return CallInfo{}, true, true
	}
	p := g.pending[client][0]
	g.pending[client] = g.pending[client][1:]
	g.running[client]++
	close(p.release)
	// wait for completion of that call: running back to 0
	deadline := time.Now().Add(d)
	timer := time.AfterFunc(d, func() { g.mu.Lock(); g.cond.Broadcast(); g.mu.Unlock() })
	defer timer.Stop()
	for g.running[client] > 0 {
		if time.Now().After(deadline) {
			return p.info, false, false
		}
		g.cond.Wait()
	}
	return p.info, false, true
}
