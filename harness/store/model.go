// Package store provides the environment of the verification harness: an
// in-memory object store whose behaviour is the Go transcription of
// spec/ObjectStore.tla, together with per-client views that trace, crash,
// inject faults into and gate every store call.
package store

import (
	"bytes"
	"context"
	"errors"
	"fmt"
	"hash/crc32"
	"io"
	"io/ioutil"
	"sort"
	"strings"
	"sync"
	"time"

	"github.com/cenkalti/backoff/v4"
	"github.com/oneconcern/datamon/pkg/storage"
	storagestatus "github.com/oneconcern/datamon/pkg/storage/status"
)

// World is a set of named object stores sharing one mutex, one clock and one
// event sequence. Every store call is linearized under World.mu, and the
// event describing it is appended while the mutex is held.
type World struct {
	mu     sync.Mutex
	seq    int64
	last   time.Time
	Clock  func() time.Time // nil: real time, made strictly increasing
	stores map[string]*space
	events []Event
	Record bool // keep events
	// KeepData: stores whose object bytes are copied into events (metadata)
	KeepData map[string]bool
}

type object struct {
	data    []byte
	created time.Time
	updated time.Time
	crc     uint32
	gen     int64
}

type space struct {
	name string
	objs map[string]*object
}

// Event is one linearized store call.
type Event struct {
	Seq    int64    `json:"seq"`
	Store  string   `json:"store"`
	Client string   `json:"client"`
	Op     string   `json:"op"` // put get getat has attr touch del list clear keys
	Key    string   `json:"key"`
	Excl   bool     `json:"excl,omitempty"`
	Err    string   `json:"err,omitempty"` // "", notexist, exists, crashed, fault, crc, other
	Found  bool     `json:"found,omitempty"`
	Size   int      `json:"size,omitempty"`
	CRC    uint32   `json:"crc,omitempty"`
	Data   []byte   `json:"data,omitempty"`
	Prefix string   `json:"prefix,omitempty"`
	Delim  string   `json:"delim,omitempty"`
	Token  string   `json:"token,omitempty"`
	Count  int      `json:"count,omitempty"`
	Keys   []string `json:"keys,omitempty"`
	Next   string   `json:"next,omitempty"`
	Mut    int      `json:"mut,omitempty"` // index of this mutation for the client (1-based), 0 for reads
	Label  string   `json:"label,omitempty"`
}

// NewWorld creates an empty world.
func NewWorld() *World {
	return &World{stores: map[string]*space{}, KeepData: map[string]bool{}}
}

func (w *World) space(name string) *space {
	s, ok := w.stores[name]
	if !ok {
		s = &space{name: name, objs: map[string]*object{}}
		w.stores[name] = s
	}
	return s
}

// now must be called with mu held.
func (w *World) now() time.Time {
	var t time.Time
	if w.Clock != nil {
		t = w.Clock()
	} else {
		t = time.Now()
	}
	if !t.After(w.last) && w.Clock == nil {
		t = w.last.Add(time.Nanosecond)
	}
	w.last = t
	return t
}

// Events returns a copy of the recorded events.
func (w *World) Events() []Event {
	w.mu.Lock()
	defer w.mu.Unlock()
	out := make([]Event, len(w.events))
	copy(out, w.events)
	return out
}

// ResetEvents drops recorded events.
func (w *World) ResetEvents() {
	w.mu.Lock()
	w.events = nil
	w.mu.Unlock()
}

// Mark appends a driver-level event (OpStart/OpEnd/Obs...) to the sequence.
func (w *World) Mark(client, op, label string) int64 {
	w.mu.Lock()
	defer w.mu.Unlock()
	w.seq++
	if w.Record {
		w.events = append(w.events, Event{Seq: w.seq, Client: client, Op: op, Label: label})
	}
	return w.seq
}

// Snapshot returns key -> bytes for a store (copy).
func (w *World) Snapshot(storeName string) map[string][]byte {
	w.mu.Lock()
	defer w.mu.Unlock()
	out := map[string][]byte{}
	for k, o := range w.space(storeName).objs {
		out[k] = append([]byte(nil), o.data...)
	}
	return out
}

// Attrs returns the update times for a store.
func (w *World) Attrs(storeName string) map[string]time.Time {
	w.mu.Lock()
	defer w.mu.Unlock()
	out := map[string]time.Time{}
	for k, o := range w.space(storeName).objs {
		out[k] = o.updated
	}
	return out
}

// KeysOf lists keys of a store, sorted.
func (w *World) KeysOf(storeName string) []string {
	w.mu.Lock()
	defer w.mu.Unlock()
	return sortedKeys(w.space(storeName))
}

// RawSet writes an object directly, bypassing views (corruption injection).
func (w *World) RawSet(storeName, key string, data []byte) {
	w.mu.Lock()
	defer w.mu.Unlock()
	sp := w.space(storeName)
	if o, ok := sp.objs[key]; ok {
		o.data = append([]byte(nil), data...)
		o.crc = crc32.Checksum(data, crcTable)
		return
	}
	t := w.now()
	sp.objs[key] = &object{data: append([]byte(nil), data...), created: t, updated: t, crc: crc32.Checksum(data, crcTable)}
}

// RawDelete removes an object directly.
func (w *World) RawDelete(storeName, key string) {
	w.mu.Lock()
	defer w.mu.Unlock()
	delete(w.space(storeName).objs, key)
}

// RawSetTime overrides the update time of an object.
func (w *World) RawSetTime(storeName, key string, t time.Time) {
	w.mu.Lock()
	defer w.mu.Unlock()
	if o, ok := w.space(storeName).objs[key]; ok {
		o.updated = t
	}
}

func sortedKeys(sp *space) []string {
	keys := make([]string, 0, len(sp.objs))
	for k := range sp.objs {
		keys = append(keys, k)
	}
	sort.Strings(keys)
	return keys
}

var crcTable = crc32.MakeTable(crc32.Castagnoli)

// ErrCrashed is what every call of a crashed client returns.
var ErrCrashed = errors.New("verif: client crashed")

// ErrFault is the transient injected error.
var ErrFault = errors.New("verif: injected transient fault")

func errExists(key string) error {
	return storagestatus.ErrStorageAPI.Wrap(fmt.Errorf("googleapi: Error 412: Precondition Failed, conditionNotMet (%s)", key))
}

func errNotExists(key string) error {
	return storagestatus.ErrNotExists.Wrap(fmt.Errorf("storage: object doesn't exist (%s)", key))
}

// Ctl is the per-client control block shared by all the views of one client.
type Ctl struct {
	Name string
	mu   sync.Mutex

	muts    int // mutations attempted so far
	calls   int // calls so far
	CrashAt int // crash at this mutation index (1-based); 0 = never
	// CrashStore, when set, makes CrashAt count the mutations of that store only
	CrashStore string
	storeMuts  int
	Before     bool // crash before the mutation lands (else after)
	crashed    bool

	// Faults: return ErrFault once at the n-th call (1-based, counted per client
	// over calls matching FaultOp/FaultStore, "" = any).
	FaultAt    int
	FaultOp    string
	FaultStore string
	FaultBytes int // for put: consume that many bytes of the reader first
	faultSeen  int
	FaultFired bool
	// FaultFn, when set, decides per call (called under Ctl.mu).
	FaultFn func(store, op, key string, nth int) bool

	// PlainReaders: Get returns readers that implement only Read and Close
	PlainReaders bool
	// ReadChunk > 0: such readers deliver at most that many bytes per Read call
	ReadChunk int
	// EOFWithData: such readers return io.EOF together with the last bytes
	EOFWithData bool

	Gate *Gate // nil: calls run freely

	// HoldFn, when set, selects calls that block until Release(key) (the
	// "delay" wrapper: completion order of chosen calls under driver control).
	HoldFn func(store, op, key string) bool
	held   map[string]*heldCall
	hcond  *sync.Cond
}

type heldCall struct {
	release chan struct{}
	done    chan struct{}
}

func (c *Ctl) holdInit() {
	if c.hcond == nil {
		c.hcond = sync.NewCond(&c.mu)
		c.held = map[string]*heldCall{}
	}
}

// hold blocks the calling store call if HoldFn selects it. Returns the
// record to signal on completion (nil when not held).
func (c *Ctl) hold(store, op, key string) *heldCall {
	c.mu.Lock()
	if c.HoldFn == nil || !c.HoldFn(store, op, key) {
		c.mu.Unlock()
		return nil
	}
	c.holdInit()
	h := &heldCall{release: make(chan struct{}), done: make(chan struct{})}
	c.held[op+" "+key] = h
	c.hcond.Broadcast()
	c.mu.Unlock()
	<-h.release
	return h
}

// WaitHeld waits until a call (op, key) is being held.
func (c *Ctl) WaitHeld(op, key string, d time.Duration) bool {
	c.mu.Lock()
	defer c.mu.Unlock()
	c.holdInit()
	deadline := time.Now().Add(d)
	timer := time.AfterFunc(d, func() { c.mu.Lock(); c.hcond.Broadcast(); c.mu.Unlock() })
	defer timer.Stop()
	for c.held[op+" "+key] == nil {
		if time.Now().After(deadline) {
			return false
		}
		c.hcond.Wait()
	}
	return true
}

// Release lets a held call proceed and waits for it to complete.
func (c *Ctl) Release(op, key string, d time.Duration) bool {
	c.mu.Lock()
	c.holdInit()
	h := c.held[op+" "+key]
	delete(c.held, op+" "+key)
	c.mu.Unlock()
	if h == nil {
		return false
	}
	close(h.release)
	select {
	case <-h.done:
		return true
	case <-time.After(d):
		return false
	}
}

// ReleaseAll stops holding: every held and future call proceeds.
func (c *Ctl) ReleaseAll() {
	c.mu.Lock()
	c.HoldFn = nil
	for k, h := range c.held {
		close(h.release)
		delete(c.held, k)
	}
	c.mu.Unlock()
}

// Crashed tells whether the client has crashed.
func (c *Ctl) Crashed() bool {
	c.mu.Lock()
	defer c.mu.Unlock()
	return c.crashed
}

// Mutations returns the number of mutations attempted.
func (c *Ctl) Mutations() int {
	c.mu.Lock()
	defer c.mu.Unlock()
	return c.muts
}

// Calls returns the number of store calls made.
func (c *Ctl) Calls() int {
	c.mu.Lock()
	defer c.mu.Unlock()
	return c.calls
}

func crashedErr() error { return backoff.Permanent(ErrCrashed) }

// View is a storage.Store: one named store of a World seen by one client.
type View struct {
	W     *World
	Store string
	C     *Ctl
	NoCRC bool // when false the view also implements StoreCRC via CRCView
}

// NewView creates a plain (non-CRC) view.
func NewView(w *World, storeName string, c *Ctl) *View {
	w.mu.Lock()
	w.space(storeName)
	w.mu.Unlock()
	return &View{W: w, Store: storeName, C: c}
}

// CRCView is a View that also implements storage.StoreCRC.
type CRCView struct{ *View }

var _ storage.Store = &View{}
var _ storage.StoreCRC = &CRCView{}

func (v *View) String() string { return "model://" + v.Store }

// pre runs the client-side preliminaries of a call: gate, crash state, fault.
// It returns a non-nil error when the call must not reach the store.
func (v *View) pre(op, key string, mutation bool) (mutIdx int, crashAfter bool, err error) {
	c := v.C
	if c == nil {
		return 0, false, nil
	}
	if c.Gate != nil {
		c.Gate.enter(c.Name, v.Store, op, key)
	}
	c.mu.Lock()
	defer c.mu.Unlock()
	c.calls++
	if c.crashed {
		return 0, false, crashedErr()
	}
	match := (c.FaultOp == "" || c.FaultOp == op) && (c.FaultStore == "" || c.FaultStore == v.Store)
	if match {
		c.faultSeen++
		if c.FaultFn != nil {
			if c.FaultFn(v.Store, op, key, c.faultSeen) {
				c.FaultFired = true
				return 0, false, ErrFault
			}
		} else if c.FaultAt > 0 && c.faultSeen == c.FaultAt {
			c.FaultFired = true
			return 0, false, ErrFault
		}
	}
	if mutation {
		c.muts++
		mutIdx = c.muts
		cnt := c.muts
		if c.CrashStore != "" {
			if v.Store == c.CrashStore {
				c.storeMuts++
				cnt = c.storeMuts
			} else {
				cnt = -1
			}
		}
		if c.CrashAt > 0 && cnt == c.CrashAt {
			c.crashed = true
			if c.Before {
				return mutIdx, false, crashedErr()
			}
			return mutIdx, true, nil
		}
	}
	return mutIdx, false, nil
}

func (v *View) post() {
	if v.C != nil && v.C.Gate != nil {
		v.C.Gate.leave(v.C.Name)
	}
}

func (v *View) client() string {
	if v.C == nil {
		return ""
	}
	return v.C.Name
}

func (v *View) emit(e Event) {
	// called with W.mu held
	v.W.seq++
	if v.W.Record {
		e.Seq = v.W.seq
		e.Store = v.Store
		e.Client = v.client()
		v.W.events = append(v.W.events, e)
	}
}

func errClass(err error) string {
	switch {
	case err == nil:
		return ""
	case errors.Is(err, ErrCrashed):
		return "crashed"
	case errors.Is(err, ErrFault):
		return "fault"
	case errors.Is(err, storagestatus.ErrNotExists):
		return "notexist"
	case strings.Contains(err.Error(), "Error 412"):
		return "exists"
	default:
		return "other"
	}
}

// ErrClass classifies an error returned by a view (or wrapped by datamon).
func ErrClass(err error) string { return errClass(err) }

// Has implements storage.Store.
func (v *View) Has(_ context.Context, key string) (bool, error) {
	defer v.post()
	if _, _, err := v.pre("has", key, false); err != nil {
		v.failEvent("has", key, err)
		return false, err
	}
	v.W.mu.Lock()
	defer v.W.mu.Unlock()
	_, ok := v.W.space(v.Store).objs[key]
	v.emit(Event{Op: "has", Key: key, Found: ok})
	return ok, nil
}

func (v *View) failEvent(op, key string, err error) {
	v.W.mu.Lock()
	v.emit(Event{Op: op, Key: key, Err: errClass(err)})
	v.W.mu.Unlock()
}

type memReader struct {
	*bytes.Reader
}

func (memReader) Close() error { return nil }

// WriteTo mirrors the gcs/localfs readers, which implement io.WriterTo.
func (m memReader) WriteTo(w io.Writer) (int64, error) { return m.Reader.WriteTo(w) }

// Get implements storage.Store.
func (v *View) Get(_ context.Context, key string) (io.ReadCloser, error) {
	defer v.post()
	if v.C != nil {
		if h := v.C.hold(v.Store, "get", key); h != nil {
			defer close(h.done)
		}
	}
	if _, _, err := v.pre("get", key, false); err != nil {
		v.failEvent("get", key, err)
		return nil, err
	}
	v.W.mu.Lock()
	defer v.W.mu.Unlock()
	o, ok := v.W.space(v.Store).objs[key]
	if !ok {
		v.emit(Event{Op: "get", Key: key, Err: "notexist"})
		return nil, errNotExists(key)
	}
	e := Event{Op: "get", Key: key, Found: true, Size: len(o.data), CRC: o.crc}
	if v.W.KeepData[v.Store] {
		e.Data = o.data
	}
	v.emit(e)
	if v.C != nil && (v.C.PlainReaders || v.C.ReadChunk > 0 || v.C.EOFWithData) {
		return &plainReadCloser{r: bytes.NewReader(append([]byte(nil), o.data...)), chunk: v.C.ReadChunk, eofWithData: v.C.EOFWithData, left: len(o.data)}, nil
	}
	return memReader{bytes.NewReader(append([]byte(nil), o.data...))}, nil
}

// plainReadCloser is a reader with nothing but Read and Close (no io.WriterTo, io.Seeker, Len):
// consumers have to copy through their own buffers.
type plainReadCloser struct {
	r           io.Reader
	chunk       int  // > 0: at most that many bytes per Read (a network-style reader)
	eofWithData bool // the Read that delivers the last byte also returns io.EOF
	left        int
}

func (p *plainReadCloser) Read(b []byte) (int, error) {
	if p.chunk > 0 && len(b) > p.chunk {
		b = b[:p.chunk]
	}
	n, err := p.r.Read(b)
	p.left -= n
	if p.eofWithData && err == nil && p.left == 0 && n > 0 {
		return n, io.EOF
	}
	return n, err
}
func (*plainReadCloser) Close() error                 { return nil }

type atReader struct {
	v   *View
	key string
}

func (a atReader) ReadAt(p []byte, off int64) (int, error) {
	v := a.v
	defer v.post()
	if _, _, err := v.pre("getat", a.key, false); err != nil {
		v.failEvent("getat", a.key, err)
		return 0, err
	}
	v.W.mu.Lock()
	o, ok := v.W.space(v.Store).objs[a.key]
	if !ok {
		v.emit(Event{Op: "getat", Key: a.key, Err: "notexist"})
		v.W.mu.Unlock()
		return 0, errNotExists(a.key)
	}
	data := o.data
	v.emit(Event{Op: "getat", Key: a.key, Found: true, Size: len(data)})
	v.W.mu.Unlock()
	if off >= int64(len(data)) {
		return 0, io.EOF
	}
	n := copy(p, data[off:])
	if n < len(p) {
		return n, io.EOF
	}
	return n, nil
}

// GetAt implements storage.Store (lazy, like gcs: errors surface on ReadAt).
func (v *View) GetAt(_ context.Context, key string) (io.ReaderAt, error) {
	return atReader{v: v, key: key}, nil
}

// GetAttr implements storage.Store.
func (v *View) GetAttr(_ context.Context, key string) (storage.Attributes, error) {
	defer v.post()
	if _, _, err := v.pre("attr", key, false); err != nil {
		v.failEvent("attr", key, err)
		return storage.Attributes{}, err
	}
	v.W.mu.Lock()
	defer v.W.mu.Unlock()
	o, ok := v.W.space(v.Store).objs[key]
	if !ok {
		v.emit(Event{Op: "attr", Key: key, Err: "notexist"})
		return storage.Attributes{}, errNotExists(key)
	}
	v.emit(Event{Op: "attr", Key: key, Found: true, Size: len(o.data)})
	a := storage.Attributes{Created: o.created, Updated: o.updated, Size: int64(len(o.data)), Owner: "verif"}
	if !v.NoCRC {
		a.CRC32C = o.crc
	}
	return a, nil
}

// Touch implements storage.Store.
func (v *View) Touch(_ context.Context, key string) error {
	defer v.post()
	mut, crashAfter, err := v.pre("touch", key, true)
	if err != nil {
		v.failEvent("touch", key, err)
		return err
	}
	v.W.mu.Lock()
	o, ok := v.W.space(v.Store).objs[key]
	if !ok {
		v.emit(Event{Op: "touch", Key: key, Err: "notexist", Mut: mut})
		v.W.mu.Unlock()
		if crashAfter {
			return crashedErr()
		}
		return errNotExists(key)
	}
	o.updated = v.W.now()
	v.emit(Event{Op: "touch", Key: key, Found: true, Mut: mut})
	v.W.mu.Unlock()
	if crashAfter {
		return crashedErr()
	}
	return nil
}

func (v *View) put(key string, r io.Reader, excl bool, withCRC bool, crc uint32) error {
	defer v.post()
	// the source is consumed before the call is linearized
	var (
		data []byte
		rerr error
	)
	faultBytes := -1
	if v.C != nil {
		v.C.mu.Lock()
		if v.C.FaultOp == "put" && v.C.FaultBytes > 0 {
			faultBytes = v.C.FaultBytes
		}
		v.C.mu.Unlock()
	}
	if v.C != nil {
		if h := v.C.hold(v.Store, "put", key); h != nil {
			defer close(h.done)
		}
	}
	mut, crashAfter, err := v.pre("put", key, true)
	if err != nil {
		if errors.Is(err, ErrFault) && faultBytes > 0 {
			_, _ = io.CopyN(ioutil.Discard, r, int64(faultBytes))
		}
		v.failEvent("put", key, err)
		return err
	}
	data, rerr = ioutil.ReadAll(r)
	if rerr != nil {
		v.failEvent("put", key, rerr)
		return rerr
	}
	v.W.mu.Lock()
	sp := v.W.space(v.Store)
	o, exists := sp.objs[key]
	if excl && exists {
		v.emit(Event{Op: "put", Key: key, Excl: true, Err: "exists", Mut: mut, Size: len(data)})
		v.W.mu.Unlock()
		if crashAfter {
			return crashedErr()
		}
		return errExists(key)
	}
	sum := crc32.Checksum(data, crcTable)
	if withCRC && sum != crc {
		v.emit(Event{Op: "put", Key: key, Excl: excl, Err: "crc", Mut: mut, Size: len(data)})
		v.W.mu.Unlock()
		if crashAfter {
			return crashedErr()
		}
		return storagestatus.ErrStorageAPI.Wrap(fmt.Errorf("googleapi: Error 400: Provided CRC32C doesn't match calculated CRC32C"))
	}
	t := v.W.now()
	if exists {
		o.data, o.updated, o.crc = data, t, sum
		o.gen++
	} else {
		sp.objs[key] = &object{data: data, created: t, updated: t, crc: sum, gen: 1}
	}
	e := Event{Op: "put", Key: key, Excl: excl, Mut: mut, Size: len(data), CRC: sum, Found: exists}
	if v.W.KeepData[v.Store] {
		e.Data = data
	}
	v.emit(e)
	v.W.mu.Unlock()
	if crashAfter {
		return crashedErr()
	}
	return nil
}

// Put implements storage.Store.
func (v *View) Put(_ context.Context, key string, r io.Reader, excl bool) error {
	return v.put(key, r, excl, false, 0)
}

// PutCRC implements storage.StoreCRC.
func (v *CRCView) PutCRC(_ context.Context, key string, r io.Reader, excl bool, crc uint32) error {
	return v.put(key, r, excl, true, crc)
}

// Delete implements storage.Store.
func (v *View) Delete(_ context.Context, key string) error {
	defer v.post()
	mut, crashAfter, err := v.pre("del", key, true)
	if err != nil {
		v.failEvent("del", key, err)
		return err
	}
	v.W.mu.Lock()
	sp := v.W.space(v.Store)
	_, ok := sp.objs[key]
	if !ok {
		v.emit(Event{Op: "del", Key: key, Err: "notexist", Mut: mut})
		v.W.mu.Unlock()
		if crashAfter {
			return crashedErr()
		}
		return errNotExists(key)
	}
	delete(sp.objs, key)
	v.emit(Event{Op: "del", Key: key, Found: true, Mut: mut})
	v.W.mu.Unlock()
	if crashAfter {
		return crashedErr()
	}
	return nil
}

// Clear implements storage.Store.
func (v *View) Clear(_ context.Context) error {
	defer v.post()
	mut, crashAfter, err := v.pre("clear", "", true)
	if err != nil {
		v.failEvent("clear", "", err)
		return err
	}
	v.W.mu.Lock()
	v.W.space(v.Store).objs = map[string]*object{}
	v.emit(Event{Op: "clear", Mut: mut})
	v.W.mu.Unlock()
	if crashAfter {
		return crashedErr()
	}
	return nil
}

// Keys implements storage.Store.
func (v *View) Keys(_ context.Context) ([]string, error) {
	defer v.post()
	if _, _, err := v.pre("keys", "", false); err != nil {
		v.failEvent("keys", "", err)
		return nil, err
	}
	v.W.mu.Lock()
	defer v.W.mu.Unlock()
	keys := sortedKeys(v.W.space(v.Store))
	v.emit(Event{Op: "keys", Keys: keys})
	return keys, nil
}

// ListOp is the listing contract of ObjectStore.tla: the sorted, duplicate-free
// sequence of keys under prefix, each collapsed to prefix+segment+delimiter when
// a delimiter occurs after the prefix.
func ListOp(keys []string, prefix, delim string) []string {
	out := make([]string, 0, len(keys))
	seen := map[string]bool{}
	for _, k := range keys {
		if !strings.HasPrefix(k, prefix) {
			continue
		}
		item := k
		if delim != "" {
			if cut := strings.Index(k[len(prefix):], delim); cut >= 0 {
				item = k[:len(prefix)+cut+len(delim)]
			}
		}
		if !seen[item] {
			seen[item] = true
			out = append(out, item)
		}
	}
	sort.Strings(out)
	return out
}

// Page returns the page of items starting at the first item >= token.
func Page(items []string, token string, count int) (page []string, next string) {
	start := 0
	if token != "" {
		start = sort.SearchStrings(items, token)
	}
	end := start + count
	if count <= 0 || end > len(items) {
		end = len(items)
	}
	page = append([]string{}, items[start:end]...)
	if end < len(items) {
		next = items[end]
	}
	return page, next
}

// KeysPrefix implements storage.Store.
func (v *View) KeysPrefix(_ context.Context, token, prefix, delim string, count int) ([]string, string, error) {
	defer v.post()
	if _, _, err := v.pre("list", prefix, false); err != nil {
		v.W.mu.Lock()
		v.emit(Event{Op: "list", Prefix: prefix, Delim: delim, Token: token, Count: count, Err: errClass(err)})
		v.W.mu.Unlock()
		return nil, "", err
	}
	v.W.mu.Lock()
	defer v.W.mu.Unlock()
	items := ListOp(sortedKeys(v.W.space(v.Store)), prefix, delim)
	page, next := Page(items, token, count)
	v.emit(Event{Op: "list", Prefix: prefix, Delim: delim, Token: token, Count: count, Keys: page, Next: next})
	return page, next, nil
}

// HeldKeys lists the calls currently held ("op key").
func (c *Ctl) HeldKeys() []string {
	c.mu.Lock()
	defer c.mu.Unlock()
	out := make([]string, 0, len(c.held))
	for k := range c.held {
		out = append(out, k)
	}
	sort.Strings(out)
	return out
}
